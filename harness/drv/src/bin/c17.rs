//! C17 correspondence harness: the real `compio_driver::AsyncifyPool` (and `Proactor` blocking
//! operations on top of it), driven by text operations (see lean/Drivers/C17.lean).
//!
//! Three kinds of cases:
//!  * single dispatcher, gated jobs (`pool` / `disp` / `fin` / `idle`): after every operation the
//!    harness waits until every other thread of the process sleeps (`/proc/self/task/*/stat`), so the
//!    schedule is forced and the Lean model predicts every output line exactly (worker identity,
//!    number of live pool threads, number of running jobs, outcome);
//!  * recorded concurrent histories (`hist` .. `end`): 1-4 dispatching threads hammered the real pool
//!    at generation time; the event history is the case, the Lean driver is the trace acceptor;
//!  * live concurrent runs with the drivers' retry loop (`conc`: raw pool, `prx`: several `Proactor`s
//!    sharing one pool, `Asyncify` ops, panics resumed at `pop`, `burst`: one `Proactor` with a small
//!    ring, far more jobs than ring + pool pushed without polling): totals are schedule independent.
//!
//! Monitors (implementation only): every accepted job ran exactly once, its result / panic reached
//! the submitter with the right payload, a refused job came back intact and never ran, accepted jobs
//! are never dropped unrun, a job after idle retirement still runs, running jobs <= thread limit
//! (`F10:asyncify-limit-overshoot`).

use std::{
    collections::{HashMap, HashSet},
    fs,
    panic::{AssertUnwindSafe, catch_unwind},
    sync::{
        Arc, Barrier, Mutex,
        atomic::{AtomicUsize, Ordering::SeqCst},
        mpsc,
    },
    thread::{self, ThreadId},
    time::{Duration, Instant},
};

use compio_buf::{BufResult, IntoInner};
use compio_driver::{
    AsyncifyPool, DispatchError, Dispatchable, DriverType, Key, OpCode, Proactor, PushEntry,
    op::{Asyncify, Interest, PollOnce},
};
use hx_common::*;

const MAXJOBS: usize = 4096;
/// job ids >= RESCUE_BASE belong to the watchdog
const RESCUE_BASE: usize = MAXJOBS - 256;
const F170: &str = "F170:asyncify-dispatch-stranded";

/// Set when the pool stopped making progress for good (a defect the monitors have already reported):
/// threads may have been left behind, so the remaining cases are skipped instead of waited for.
static ABANDONED: std::sync::atomic::AtomicBool = std::sync::atomic::AtomicBool::new(false);
/// cases in which an accepted job never delivered; a handful of them is systemic
static LOST: AtomicUsize = AtomicUsize::new(0);

fn abandoned() -> bool {
    ABANDONED.load(SeqCst)
}

fn note_lost() {
    if LOST.fetch_add(1, SeqCst) >= 4 {
        ABANDONED.store(true, SeqCst);
    }
}

// ---------------------------------------------------------------------------------------------
// observing the process' threads

/// tids of the harness' own helper threads (dispatching threads, rescuers): not pool threads
static HELPERS: Mutex<Vec<i32>> = Mutex::new(Vec::new());

/// spawn a harness thread that `others()` ignores
fn helper<T: Send + 'static>(f: impl FnOnce() -> T + Send + 'static) -> thread::JoinHandle<T> {
    thread::spawn(move || {
        let tid = unsafe { libc::gettid() };
        HELPERS.lock().unwrap_or_else(|p| p.into_inner()).push(tid);
        f()
    })
}

/// forget helper tids that no longer exist (tids get reused)
fn prune_helpers() {
    let mut h = HELPERS.lock().unwrap_or_else(|p| p.into_inner());
    h.retain(|tid| fs::metadata(format!("/proc/self/task/{tid}")).is_ok());
}

/// (tid, state) of every other thread of this process, helper threads excluded
fn others() -> Vec<(i32, u8)> {
    let me = unsafe { libc::gettid() };
    let helpers = HELPERS.lock().unwrap_or_else(|p| p.into_inner()).clone();
    let mut v = vec![];
    if let Ok(rd) = fs::read_dir("/proc/self/task") {
        for e in rd.flatten() {
            let tid: i32 = e.file_name().to_string_lossy().parse().unwrap_or(0);
            if tid == me || tid == 0 || helpers.contains(&tid) {
                continue;
            }
            if let Ok(s) = fs::read_to_string(format!("/proc/self/task/{tid}/stat")) {
                let st = s.rfind(')').and_then(|i| s.as_bytes().get(i + 2).copied()).unwrap_or(b'?');
                v.push((tid, st));
            }
        }
    }
    v
}

/// Wait until every other thread sleeps (twice in a row); returns their number, or None on timeout.
fn wait_quiet() -> Option<usize> {
    let t0 = Instant::now();
    let mut streak = 0;
    let mut last = usize::MAX;
    let mut spins = 0u32;
    loop {
        let o = others();
        let alive: Vec<_> = o.iter().filter(|(_, s)| *s != b'Z' && *s != b'X').collect();
        if alive.len() == o.len() && alive.iter().all(|(_, s)| *s == b'S') {
            if alive.len() == last {
                streak += 1;
            } else {
                streak = 1;
                last = alive.len();
            }
            if streak >= 2 {
                return Some(alive.len());
            }
        } else {
            streak = 0;
            last = usize::MAX;
        }
        if t0.elapsed() > Duration::from_secs(10) {
            ABANDONED.store(true, SeqCst);
            return None;
        }
        // leave the CPU to the threads we are waiting for
        spins += 1;
        if spins < 30 {
            thread::yield_now();
        } else {
            thread::sleep(Duration::from_micros(30));
        }
    }
}

/// Wait until no other thread exists.
fn wait_alone() -> bool {
    let t0 = Instant::now();
    loop {
        if others().is_empty() {
            return true;
        }
        if t0.elapsed() > Duration::from_secs(10) {
            ABANDONED.store(true, SeqCst);
            return false;
        }
        thread::sleep(Duration::from_micros(200));
    }
}

// ---------------------------------------------------------------------------------------------
// jobs and the shared log

#[derive(Clone, Copy, Debug, PartialEq, Eq)]
enum Ev {
    Call(usize, usize),
    RetOk(usize, usize),
    RetBusy(usize, usize),
    RetPanic(usize, usize),
    Begin(usize, usize),
    End(usize, usize),
}

impl Ev {
    fn line(&self) -> String {
        match *self {
            Ev::Call(d, j) => format!("c {d} {j}"),
            Ev::RetOk(d, j) => format!("o {d} {j}"),
            Ev::RetBusy(d, j) => format!("x {d} {j}"),
            Ev::RetPanic(d, j) => format!("q {d} {j}"),
            Ev::Begin(w, j) => format!("b {w} {j}"),
            Ev::End(w, j) => format!("e {w} {j}"),
        }
    }

    fn parse(l: &str) -> Option<Ev> {
        let w: Vec<&str> = l.split_whitespace().collect();
        if w.len() != 3 {
            return None;
        }
        let a: usize = w[1].parse().ok()?;
        let b: usize = w[2].parse().ok()?;
        Some(match w[0] {
            "c" => Ev::Call(a, b),
            "o" => Ev::RetOk(a, b),
            "x" => Ev::RetBusy(a, b),
            "q" => Ev::RetPanic(a, b),
            "b" => Ev::Begin(a, b),
            "e" => Ev::End(a, b),
            _ => return None,
        })
    }
}

#[derive(Default)]
struct Log {
    ev: Vec<Ev>,
    running: usize,
    maxrun: usize,
    workers: Vec<ThreadId>,
}

struct Shared {
    log: Mutex<Log>,
    exec: Vec<AtomicUsize>,
    dropped: Vec<AtomicUsize>,
    ended: AtomicUsize,
    /// ids of the rescue jobs dispatched by the watchdog (logged as dispatcher 99)
    rescue_next: AtomicUsize,
    salt: u64,
}

impl Shared {
    fn new(salt: u64) -> Arc<Self> {
        Arc::new(Shared {
            log: Mutex::new(Log::default()),
            exec: (0..MAXJOBS).map(|_| AtomicUsize::new(0)).collect(),
            dropped: (0..MAXJOBS).map(|_| AtomicUsize::new(0)).collect(),
            ended: AtomicUsize::new(0),
            rescue_next: AtomicUsize::new(RESCUE_BASE),
            salt,
        })
    }

    fn push(&self, e: Ev) {
        self.log.lock().unwrap_or_else(|p| p.into_inner()).ev.push(e);
    }

    /// log the start of job `j` on the current thread; returns the canonical worker index
    fn begin(&self, j: usize) -> usize {
        let me = thread::current().id();
        let mut l = self.log.lock().unwrap_or_else(|p| p.into_inner());
        let w = match l.workers.iter().position(|t| *t == me) {
            Some(i) => i,
            None => {
                l.workers.push(me);
                l.workers.len() - 1
            }
        };
        l.running += 1;
        l.maxrun = l.maxrun.max(l.running);
        l.ev.push(Ev::Begin(w, j));
        w
    }

    fn end(&self, w: usize, j: usize) {
        let mut l = self.log.lock().unwrap_or_else(|p| p.into_inner());
        l.running -= 1;
        l.ev.push(Ev::End(w, j));
        drop(l);
        self.ended.fetch_add(1, SeqCst);
    }

    /// grows whenever anything observable happens
    fn progress(&self) -> usize {
        self.log.lock().unwrap_or_else(|p| p.into_inner()).ev.len() + self.ended.load(SeqCst)
    }

    fn running(&self) -> usize {
        self.log.lock().unwrap_or_else(|p| p.into_inner()).running
    }
}

fn payload_of(salt: u64, j: usize) -> Vec<u8> {
    Rng::new(salt ^ (j as u64).wrapping_mul(0x9E37_79B9)).bytes(24)
}

fn checksum(b: &[u8]) -> u64 {
    let mut h: u64 = 0xcbf2_9ce4_8422_2325;
    for x in b {
        h ^= *x as u64;
        h = h.wrapping_mul(0x1000_0000_01b3);
    }
    h
}

#[derive(Clone, Copy, Debug, PartialEq, Eq)]
enum Out {
    Value,
    Panic,
    Crash,
}

impl Out {
    fn name(self) -> &'static str {
        match self {
            Out::Value => "value",
            Out::Panic => "panic",
            Out::Crash => "crash",
        }
    }
}

enum Wait {
    Gate(mpsc::Receiver<()>),
    Sleep(Duration),
}

struct Token {
    id: usize,
    shared: Arc<Shared>,
}

impl Drop for Token {
    fn drop(&mut self) {
        self.shared.dropped[self.id].fetch_add(1, SeqCst);
    }
}

/// what is handed to `AsyncifyPool::dispatch`
struct Job {
    id: usize,
    kind: u8,
    payload: Vec<u8>,
    wait: Wait,
    res: mpsc::Sender<(usize, Out, u64)>,
    begin_tx: Option<mpsc::Sender<(usize, usize)>>,
    token: Token,
}

struct EndGuard {
    sh: Arc<Shared>,
    token: Option<Token>,
    id: usize,
    w: usize,
    out: Out,
    sum: u64,
    res: mpsc::Sender<(usize, Out, u64)>,
}

impl Drop for EndGuard {
    fn drop(&mut self) {
        let out = if thread::panicking() { Out::Crash } else { self.out };
        // the closure's captures die with the job body, before the result is visible
        drop(self.token.take());
        self.sh.end(self.w, self.id);
        let _ = self.res.send((self.id, out, self.sum));
    }
}

impl Dispatchable for Job {
    fn run(self: Box<Self>) {
        let Job { id, kind, payload, wait, res, begin_tx, token } = *self;
        let sh = token.shared.clone();
        sh.exec[id].fetch_add(1, SeqCst);
        let w = sh.begin(id);
        if let Some(tx) = &begin_tx {
            let _ = tx.send((id, w));
        }
        let mut guard = EndGuard { sh, token: Some(token), id, w, out: Out::Value, sum: checksum(&payload), res };
        match &wait {
            Wait::Gate(rx) => {
                let _ = rx.recv();
            }
            Wait::Sleep(d) => {
                if !d.is_zero() {
                    thread::sleep(*d)
                }
            }
        }
        match kind {
            b'p' => {
                // what the drivers' `catch_unwind_io` wrapper does with a panicking operation
                let r = catch_unwind(AssertUnwindSafe(|| panic!("job {id} panics (caught)")));
                assert!(r.is_err());
                guard.out = Out::Panic;
            }
            b'r' => panic!("job {id} panics (uncaught)"),
            _ => guard.out = Out::Value,
        }
    }
}

fn make_job(
    sh: &Arc<Shared>,
    id: usize,
    kind: u8,
    wait: Wait,
    res: &mpsc::Sender<(usize, Out, u64)>,
    begin_tx: Option<mpsc::Sender<(usize, usize)>>,
) -> Job {
    Job {
        id,
        kind,
        payload: payload_of(sh.salt, id),
        wait,
        res: res.clone(),
        begin_tx,
        token: Token { id, shared: sh.clone() },
    }
}

/// the refused closure must be the very one handed in
fn intact(sh: &Shared, j: &Job, id: usize, kind: u8) -> bool {
    j.id == id && j.kind == kind && j.token.id == id && j.payload == payload_of(sh.salt, id)
}

// ---------------------------------------------------------------------------------------------
// watchdog: a dispatch that blocks for good (F170) is reported and then rescued by one more dispatch

/// dispatch a no-op job from a detached thread (logged as dispatcher 99): the worker spawned for it
/// serves the blocked sender first (flume's `sending` queue is FIFO)
fn rescue(pool: &AsyncifyPool, sh: &Arc<Shared>) {
    let (pool, sh) = (pool.clone(), sh.clone());
    helper(move || {
        let j = sh.rescue_next.fetch_add(1, SeqCst);
        if j >= MAXJOBS {
            return;
        }
        let (tx, _rx) = mpsc::channel();
        let mut job = make_job(&sh, j, b'v', Wait::Sleep(Duration::ZERO), &tx, None);
        sh.push(Ev::Call(99, j));
        let t0 = Instant::now();
        loop {
            match catch(|| pool.dispatch(job)) {
                Ok(Ok(())) => {
                    sh.push(Ev::RetOk(99, j));
                    return;
                }
                Ok(Err(DispatchError(back))) if t0.elapsed() < Duration::from_secs(2) => {
                    job = back;
                    thread::yield_now();
                }
                Ok(Err(_)) => {
                    sh.push(Ev::RetBusy(99, j));
                    return;
                }
                Err(_) => {
                    sh.push(Ev::RetPanic(99, j));
                    return;
                }
            }
        }
    });
}

/// Wait until `done()`.  The run is stranded when every thread that is left sleeps and none of them is
/// a pool thread outside a job (`expected()` = the dispatching threads still inside `dispatch` plus the
/// pool threads inside gated jobs; seen three times, 25 ms apart), or, as a fallback, when nothing
/// observable happens for 1.5 s.  Reported once; then rescued until the run moves again.
fn watch(
    pool: &AsyncifyPool,
    sh: &Arc<Shared>,
    done: &dyn Fn() -> bool,
    expected: &dyn Fn() -> usize,
    limit: usize,
    tmo_ms: u64,
) -> Option<(String, String)> {
    let mut stalled = None;
    let mut last = sh.progress();
    let mut since = Instant::now();
    let mut patience = Duration::from_millis(1500);
    let mut checked = Instant::now();
    let mut dead = 0;
    let started = Instant::now();
    loop {
        if done() {
            return stalled;
        }
        if started.elapsed() > Duration::from_secs(20) {
            // rescuing does not help: dispatch is refused or blocked for good
            ABANDONED.store(true, SeqCst);
            return Some((
                "C17:dispatch-starved".to_string(),
                format!("limit={limit} timeout_ms={tmo_ms}: dispatch neither accepted nor handed back within 20 s (retry loop / blocking send never ends)"),
            ));
        }
        let n = sh.progress();
        let mut fire = None;
        if n != last {
            last = n;
            since = Instant::now();
            dead = 0;
        } else if since.elapsed() > patience {
            fire = Some("no progress for 1.5 s");
        } else if checked.elapsed() > Duration::from_millis(25) {
            checked = Instant::now();
            let o = others();
            if !done() && o.len() == expected() && o.iter().all(|(_, st)| *st == b'S') {
                dead += 1;
                if dead >= 3 {
                    fire = Some("no pool thread is left to receive");
                }
            } else {
                dead = 0;
            }
        }
        if let Some(why) = fire {
            if stalled.is_none() {
                let o = others();
                let asleep = o.iter().filter(|(_, s)| *s == b'S').count();
                stalled = Some((
                    F170.to_string(),
                    format!(
                        "limit={limit} timeout_ms={tmo_ms}: dispatch blocked in sender.send, {why} ({} other threads, {asleep} asleep)",
                        o.len()
                    ),
                ));
            }
            rescue(pool, sh);
            since = Instant::now();
            dead = 0;
            patience = Duration::from_millis(200);
        }
        thread::sleep(Duration::from_micros(100));
    }
}

// ---------------------------------------------------------------------------------------------
// implementation-only checks over a history

struct HistCheck {
    maxrun: usize,
    ok: usize,
    problems: Vec<(String, String)>,
}

/// exactly-once / ownership / accounting over an event history, without any model
fn check_history(ev: &[Ev], limit: usize) -> HistCheck {
    let mut begun: HashMap<usize, usize> = HashMap::new();
    let mut ended: HashMap<usize, usize> = HashMap::new();
    let mut last_ret: HashMap<usize, Ev> = HashMap::new();
    let mut in_call: HashSet<usize> = HashSet::new();
    let mut on_worker: HashMap<usize, usize> = HashMap::new();
    let mut running = 0usize;
    let mut maxrun = 0usize;
    let mut ok = 0usize;
    let mut problems = vec![];
    for (i, e) in ev.iter().enumerate() {
        match *e {
            Ev::Call(_, j) => {
                if *begun.get(&j).unwrap_or(&0) > 0 {
                    problems.push(("C17:exactly-once".into(), format!("job {j} dispatched again after it ran (event {i})")));
                }
                in_call.insert(j);
            }
            Ev::RetOk(_, j) => {
                in_call.remove(&j);
                last_ret.insert(j, *e);
                ok += 1;
            }
            Ev::RetBusy(_, j) | Ev::RetPanic(_, j) => {
                in_call.remove(&j);
                last_ret.insert(j, *e);
                if *begun.get(&j).unwrap_or(&0) > 0 {
                    problems.push(("C17:refused-ran".into(), format!("job {j} was handed back but had been started (event {i})")));
                }
            }
            Ev::Begin(w, j) => {
                let n = begun.entry(j).or_insert(0);
                *n += 1;
                if *n > 1 {
                    problems.push(("C17:exactly-once".into(), format!("job {j} started {n} times (event {i})")));
                }
                let accepted = matches!(last_ret.get(&j), Some(Ev::RetOk(..)));
                if !(in_call.contains(&j) || accepted) {
                    problems.push(("C17:refused-ran".into(), format!("job {j} started although not accepted (event {i})")));
                }
                if let Some(o) = on_worker.insert(w, j) {
                    problems.push(("C17:worker-two-jobs".into(), format!("worker {w} started job {j} while running {o}")));
                }
                running += 1;
                maxrun = maxrun.max(running);
            }
            Ev::End(w, j) => {
                *ended.entry(j).or_insert(0) += 1;
                if on_worker.remove(&w) != Some(j) {
                    problems.push(("C17:worker-two-jobs".into(), format!("worker {w} ended job {j} it was not running")));
                }
                running = running.saturating_sub(1);
            }
        }
    }
    for (j, r) in &last_ret {
        let b = *begun.get(j).unwrap_or(&0);
        let e = *ended.get(j).unwrap_or(&0);
        match r {
            Ev::RetOk(..) => {
                if b != 1 || e != 1 {
                    problems.push(("C17:lost-job".into(), format!("accepted job {j}: started {b} times, ended {e} times")));
                }
            }
            _ => {
                if b != 0 {
                    problems.push(("C17:refused-ran".into(), format!("refused job {j} ran {b} times")));
                }
            }
        }
    }
    if maxrun > limit && limit > 0 {
        problems.push((
            "F10:asyncify-limit-overshoot".into(),
            format!("limit={limit} observed={maxrun} jobs running at once"),
        ));
    }
    HistCheck { maxrun, ok, problems }
}

// ---------------------------------------------------------------------------------------------
// single dispatcher, forced schedule

fn exec_det(case: &Case, ex: &mut Exec) {
    let mut pool: Option<AsyncifyPool> = None;
    let mut limit = 0usize;
    let mut tmo = Duration::from_secs(1);
    let sh = Shared::new(checksum(case.name.as_bytes()));
    let (res_tx, res_rx) = mpsc::channel::<(usize, Out, u64)>();
    let (beg_tx, beg_rx) = mpsc::channel::<(usize, usize)>();
    let mut gates: HashMap<usize, mpsc::Sender<()>> = HashMap::new();
    let mut accepted: Vec<usize> = vec![];
    let mut refused: Vec<usize> = vec![];
    let mut finished: HashMap<usize, Out> = HashMap::new();
    let mut kinds: Vec<u8> = vec![];
    let mut next = 0usize;
    let mut retired_then_ran = false;
    let mut idled = false;
    let mut max_live = 0usize;
    prune_helpers();
    if !wait_alone() {
        ex.fail("C17:harness-threads", "threads of an earlier case never went away");
    }
    let quiet = |ex: &mut Exec| -> usize {
        match wait_quiet() {
            Some(n) => n,
            None => {
                ex.fail("C17:harness-no-quiescence", "threads did not come to rest within 10 s");
                0
            }
        }
    };
    for line in &case.lines {
        let w: Vec<&str> = line.split_whitespace().collect();
        let out = match (w.first().copied(), &pool) {
            (Some("pool"), _) if w.len() == 3 => match (w[1].parse::<usize>(), w[2].parse::<u64>()) {
                (Ok(l), Ok(t)) => {
                    limit = l;
                    tmo = Duration::from_millis(t);
                    pool = Some(AsyncifyPool::new(l, tmo));
                    ex.tag(format!("det:limit={}", l.min(9)));
                    ex.tag(if t >= 1000 { "det:timeout=long" } else { "det:timeout=short" });
                    "ok".to_string()
                }
                _ => "bad-op".into(),
            },
            (Some("disp"), Some(p)) if w.len() == 2 && matches!(w[1], "v" | "p" | "r") && next < MAXJOBS => {
                let kind = w[1].as_bytes()[0];
                let j = next;
                next += 1;
                kinds.push(kind);
                let (gtx, grx) = mpsc::channel::<()>();
                let job = make_job(&sh, j, kind, Wait::Gate(grx), &res_tx, Some(beg_tx.clone()));
                sh.push(Ev::Call(0, j));
                let (dtx, drx) = mpsc::channel();
                let p2 = p.clone();
                let h = helper(move || {
                    let _ = dtx.send(catch(|| p2.dispatch(job)));
                });
                if let Some((sig, detail)) = watch(p, &sh, &|| h.is_finished(), &|| gates.len(), limit, tmo.as_millis() as u64) {
                    ex.fail(sig, detail);
                }
                if h.is_finished() {
                    let _ = h.join();
                }
                match drx.try_recv().unwrap_or_else(|_| Err("dispatch never returned".into())) {
                    Ok(Ok(())) => {
                        sh.push(Ev::RetOk(0, j));
                        accepted.push(j);
                        gates.insert(j, gtx);
                        match beg_rx.recv_timeout(Duration::from_secs(4)) {
                            Ok((bj, bw)) if bj == j => {
                                if idled {
                                    retired_then_ran = true;
                                }
                                let live = quiet(ex);
                                max_live = max_live.max(live);
                                ex.tag("det:disp-ok");
                                format!("ok j={j} w={bw} live={live} run={}", sh.running())
                            }
                            Ok((bj, _)) => {
                                ex.fail("C17:exactly-once", format!("job {bj} started while waiting for job {j}"));
                                "confused".into()
                            }
                            Err(_) => {
                                ex.fail("C17:lost-job", format!("accepted job {j} did not start within 10 s (limit {limit})"));
                                note_lost();
                                "lost".into()
                            }
                        }
                    }
                    Ok(Err(DispatchError(back))) => {
                        sh.push(Ev::RetBusy(0, j));
                        if !intact(&sh, &back, j, kind) {
                            ex.fail("C17:refused-intact", format!("dispatch handed back a different closure for job {j}"));
                        }
                        refused.push(j);
                        drop(back);
                        let live = quiet(ex);
                        ex.tag("det:disp-busy");
                        format!("busy j={j} live={live} run={}", sh.running())
                    }
                    Err(msg) => {
                        sh.push(Ev::RetPanic(0, j));
                        refused.push(j);
                        if limit != 0 {
                            ex.fail("C17:dispatch-panic", format!("dispatch panicked with limit {limit}: {msg}"));
                        }
                        ex.tag("det:disp-panic");
                        format!("panic j={j}")
                    }
                }
            }
            (Some("fin"), Some(_)) if w.len() == 2 => match w[1].parse::<usize>() {
                Ok(j) => match gates.remove(&j) {
                    Some(g) => {
                        let _ = g.send(());
                        match res_rx.recv_timeout(Duration::from_secs(4)) {
                            Ok((rj, out, sum)) => {
                                if rj != j || sum != checksum(&payload_of(sh.salt, j)) {
                                    ex.fail("C17:result", format!("result of job {rj} (sum {sum}) arrived for job {j}"));
                                }
                                finished.insert(rj, out);
                                quiet(ex);
                                ex.tag(format!("det:fin-{}", out.name()));
                                format!("fin j={j} out={}", out.name())
                            }
                            Err(_) => {
                                ex.fail("C17:lost-job", format!("released job {j} never finished"));
                                note_lost();
                                "lost".into()
                            }
                        }
                    }
                    None => "bad".into(),
                },
                Err(_) => "bad-op".into(),
            },
            (Some("idle"), Some(_)) if w.len() == 1 => {
                // idle workers retire after `tmo`; timers can be late on a loaded (virtualised) machine, so
                // wait until only the threads inside gated jobs are left, at most 3 s longer
                thread::sleep(tmo.min(Duration::from_secs(3)) + Duration::from_millis(1));
                let t0 = Instant::now();
                while others().len() > gates.len() && t0.elapsed() < Duration::from_secs(3) {
                    thread::sleep(Duration::from_micros(300));
                }
                let live = quiet(ex);
                idled = true;
                ex.tag("det:idle");
                format!("idle live={live} run={}", sh.running())
            }
            _ => "bad-op".into(),
        };
        ex.out.push(out);
    }
    // wind down: release everything, collect results, drop the pool (disconnects the workers)
    let pending: Vec<usize> = gates.keys().copied().collect();
    gates.clear();
    for _ in &pending {
        match res_rx.recv_timeout(Duration::from_secs(4)) {
            Ok((rj, out, sum)) => {
                if sum != checksum(&payload_of(sh.salt, rj)) {
                    ex.fail("C17:result", format!("job {rj}: payload checksum differs"));
                }
                finished.insert(rj, out);
            }
            Err(_) => {
                ex.fail("C17:lost-job", "a released job never finished");
                note_lost();
                break;
            }
        }
    }
    drop(pool);
    if !wait_alone() {
        ex.fail("C17:thread-leak", "pool threads survive the pool");
    }
    final_monitors(ex, &sh, limit, &accepted, &refused, &finished, &kinds);
    // One dispatcher and quiescence after every operation: at most one spawn is ever in flight, so the F10
    // race cannot happen here (Props.C17.live_le_limit_of_serial_spawns) and the bound is the property itself.
    for f in ex.failures.iter_mut() {
        if f.sig == "F10:asyncify-limit-overshoot" {
            f.sig = "C17:limit-exceeded".into();
            f.detail = format!("{} although a single dispatcher waited for quiescence after every dispatch (no spawn race possible)", f.detail);
        }
    }
    if limit > 0 && max_live > limit {
        ex.fail(
            "C17:limit-exceeded",
            format!("limit={limit} observed={max_live} live pool threads with a single dispatcher that waited for quiescence after every dispatch"),
        );
    }
    if retired_then_ran {
        ex.tag("det:ran-after-retirement");
    }
    ex.nontrivial = accepted.len() >= 2;
}

/// exactly-once and delivery checks common to all live runs
fn final_monitors(
    ex: &mut Exec,
    sh: &Shared,
    limit: usize,
    accepted: &[usize],
    refused: &[usize],
    finished: &HashMap<usize, Out>,
    kinds: &[u8],
) {
    for &j in accepted {
        let n = sh.exec[j].load(SeqCst);
        if n != 1 {
            ex.fail("C17:exactly-once", format!("accepted job {j} ran {n} times"));
        }
        let want = match kinds[j] {
            b'p' => Out::Panic,
            b'r' => Out::Crash,
            _ => Out::Value,
        };
        match finished.get(&j) {
            Some(o) if *o == want => {}
            Some(o) => ex.fail("C17:result", format!("job {j}: outcome {} instead of {}", o.name(), want.name())),
            None => ex.fail("C17:lost-job", format!("accepted job {j}: no result reached the submitter")),
        }
        if sh.dropped[j].load(SeqCst) != 1 {
            ex.fail("C17:job-dropped", format!("accepted job {j}: closure dropped {} times", sh.dropped[j].load(SeqCst)));
        }
    }
    for &j in refused {
        let n = sh.exec[j].load(SeqCst);
        if n != 0 {
            ex.fail("C17:refused-ran", format!("refused job {j} ran {n} times"));
        }
    }
    let log = sh.log.lock().unwrap_or_else(|p| p.into_inner());
    let hc = check_history(&log.ev, limit);
    for (sig, detail) in hc.problems {
        ex.fail(sig, detail);
    }
}

// ---------------------------------------------------------------------------------------------
// concurrent runs on the raw pool

#[derive(Clone, Debug)]
struct Spec {
    kind: u8,
    dur_us: u64,
}

fn parse_script(s: &str) -> Option<Vec<Spec>> {
    if s == "." {
        return Some(vec![]);
    }
    s.split(',')
        .map(|t| {
            let kind = *t.as_bytes().first()?;
            if !matches!(kind, b'v' | b'p' | b'r') {
                return None;
            }
            Some(Spec { kind, dur_us: t[1..].parse().ok()? })
        })
        .collect()
}

struct ConcResult {
    ev: Vec<Ev>,
    maxrun: usize,
    distinct_workers: usize,
    accepted: Vec<usize>,
    refused: Vec<usize>,
    finished: HashMap<usize, Out>,
    kinds: Vec<u8>,
    problems: Vec<(String, String)>,
    sh: Arc<Shared>,
}

/// `retry`: the drivers' loop `while let Err(e) = pool.dispatch(c) { c = e.0; yield_now() }`;
/// otherwise one attempt per job.  `tail`: after the idle timeout one more job is dispatched.
fn run_conc(limit: usize, tmo_ms: u64, scripts: &[Vec<Spec>], retry: bool, pace_us: u64, tail: bool, salt: u64) -> ConcResult {
    let sh = Shared::new(salt);
    let pool = AsyncifyPool::new(limit, Duration::from_millis(tmo_ms));
    let (res_tx, res_rx) = mpsc::channel::<(usize, Out, u64)>();
    let mut kinds: Vec<u8> = vec![];
    let mut ids: Vec<Vec<usize>> = vec![];
    for s in scripts {
        let mut v = vec![];
        for sp in s {
            v.push(kinds.len());
            kinds.push(sp.kind);
        }
        ids.push(v);
    }
    let barrier = Arc::new(Barrier::new(scripts.len().max(1)));
    let outcome: Arc<Mutex<(Vec<usize>, Vec<usize>, Vec<(String, String)>)>> = Arc::new(Mutex::new((vec![], vec![], vec![])));
    let mut hs = vec![];
    for (d, script) in scripts.iter().enumerate() {
        let (pool, sh, res_tx, barrier, outcome) = (pool.clone(), sh.clone(), res_tx.clone(), barrier.clone(), outcome.clone());
        let script = script.clone();
        let my_ids = ids[d].clone();
        hs.push(thread::spawn(move || {
            barrier.wait();
            for (sp, &j) in script.iter().zip(&my_ids) {
                let mut job = make_job(&sh, j, sp.kind, Wait::Sleep(Duration::from_micros(sp.dur_us)), &res_tx, None);
                sh.push(Ev::Call(d, j));
                let t_call = Instant::now();
                loop {
                    match catch(|| pool.dispatch(job)) {
                        Ok(Ok(())) => {
                            sh.push(Ev::RetOk(d, j));
                            outcome.lock().unwrap().0.push(j);
                            break;
                        }
                        Ok(Err(DispatchError(back))) => {
                            if !intact(&sh, &back, j, sp.kind) {
                                outcome.lock().unwrap().2.push(("C17:refused-intact".into(), format!("dispatch handed back a different closure for job {j}")));
                            }
                            if retry && t_call.elapsed() < Duration::from_secs(8) && !abandoned() {
                                job = back;
                                thread::yield_now();
                                continue;
                            }
                            if retry {
                                ABANDONED.store(true, SeqCst);
                                outcome.lock().unwrap().2.push((
                                    "C17:dispatch-starved".into(),
                                    format!("limit={limit}: the retry loop for job {j} was refused for 8 s"),
                                ));
                            }
                            sh.push(Ev::RetBusy(d, j));
                            outcome.lock().unwrap().1.push(j);
                            break;
                        }
                        Err(msg) => {
                            sh.push(Ev::RetPanic(d, j));
                            let mut o = outcome.lock().unwrap();
                            o.1.push(j);
                            if limit != 0 {
                                o.2.push(("C17:dispatch-panic".into(), format!("dispatch panicked with limit {limit}: {msg}")));
                            }
                            break;
                        }
                    }
                }
                if pace_us > 0 {
                    let t = Instant::now();
                    while t.elapsed() < Duration::from_micros(pace_us) {
                        std::hint::spin_loop();
                    }
                }
            }
        }));
    }
    let stalled = watch(&pool, &sh, &|| hs.iter().all(|h| h.is_finished()), &|| hs.iter().filter(|h| !h.is_finished()).count(), limit, tmo_ms);
    for h in hs {
        if h.is_finished() {
            let _ = h.join();
        }
    }
    let (mut accepted, mut refused, mut problems) = {
        let mut o = outcome.lock().unwrap();
        (std::mem::take(&mut o.0), std::mem::take(&mut o.1), std::mem::take(&mut o.2))
    };
    problems.extend(stalled);
    let mut finished = HashMap::new();
    let collect = |n: usize, finished: &mut HashMap<usize, Out>, problems: &mut Vec<(String, String)>| {
        for _ in 0..n {
            match res_rx.recv_timeout(Duration::from_secs(4)) {
                Ok((j, out, sum)) => {
                    if sum != checksum(&payload_of(salt, j)) {
                        problems.push(("C17:result".into(), format!("job {j}: payload checksum differs")));
                    }
                    if finished.insert(j, out).is_some() {
                        problems.push(("C17:exactly-once".into(), format!("job {j} delivered two results")));
                    }
                }
                Err(_) => {
                    problems.push(("C17:lost-job".into(), format!("only {} of the accepted jobs delivered a result (limit {limit})", finished.len())));
                    note_lost();
                    break;
                }
            }
        }
    };
    if !abandoned() {
        collect(accepted.len(), &mut finished, &mut problems);
    }
    if tail && !abandoned() {
        // let every worker retire, then a later job must still run
        thread::sleep(Duration::from_millis(tmo_ms.min(1000) * 3 + 5));
        let j = kinds.len();
        kinds.push(b'v');
        let d = scripts.len();
        let mut job = make_job(&sh, j, b'v', Wait::Sleep(Duration::ZERO), &res_tx, None);
        sh.push(Ev::Call(d, j));
        let (pool2, sh2) = (pool.clone(), sh.clone());
        // 0 = accepted, 1 = refused for 5 s, 2 = dispatch panicked
        let h = helper(move || -> u8 {
            let t0 = Instant::now();
            loop {
                match catch(|| pool2.dispatch(job)) {
                    Ok(Ok(())) => {
                        sh2.push(Ev::RetOk(d, j));
                        return 0;
                    }
                    Ok(Err(DispatchError(back))) if t0.elapsed() < Duration::from_secs(5) => {
                        job = back;
                        thread::yield_now();
                    }
                    Ok(Err(_)) => {
                        sh2.push(Ev::RetBusy(d, j));
                        return 1;
                    }
                    Err(_) => {
                        sh2.push(Ev::RetPanic(d, j));
                        return 2;
                    }
                }
            }
        });
        problems.extend(watch(&pool, &sh, &|| h.is_finished(), &|| 0, limit, tmo_ms));
        match if h.is_finished() { h.join().unwrap_or(2) } else { 2 } {
            0 => {
                accepted.push(j);
                collect(1, &mut finished, &mut problems);
            }
            1 => {
                refused.push(j);
                problems.push(("C17:no-respawn".into(), format!("job after idle retirement refused for 5 s (limit {limit})")));
            }
            _ => refused.push(j),
        }
    }
    drop(pool);
    // workers see the disconnect and leave; rescue threads (if any) are done by then
    if !abandoned() {
        wait_alone();
    }
    let (ev, maxrun, distinct_workers) = {
        let l = sh.log.lock().unwrap_or_else(|p| p.into_inner());
        (l.ev.clone(), l.maxrun, l.workers.len())
    };
    ConcResult { ev, maxrun, distinct_workers, accepted, refused, finished, kinds, problems, sh }
}

fn conc_monitors(ex: &mut Exec, r: &ConcResult, limit: usize) {
    for (sig, detail) in &r.problems {
        ex.fail(sig.clone(), detail.clone());
    }
    final_monitors(ex, &r.sh, limit, &r.accepted, &r.refused, &r.finished, &r.kinds);
}

fn totals(finished: &HashMap<usize, Out>, dropped: usize) -> String {
    let c = |o: Out| finished.values().filter(|x| **x == o).count();
    format!("conc value={} panic={} crash={} dropped={dropped}", c(Out::Value), c(Out::Panic), c(Out::Crash))
}

fn exec_conc(w: &[&str], salt: u64, ex: &mut Exec) -> String {
    let (Ok(limit), Ok(tmo)) = (w[1].parse::<usize>(), w[2].parse::<u64>()) else { return "bad-op".into() };
    let Some(scripts) = w[3..].iter().map(|s| parse_script(s)).collect::<Option<Vec<_>>>() else {
        return "bad-op".into();
    };
    if scripts.is_empty() || scripts.iter().map(|s| s.len()).sum::<usize>() + 1 >= MAXJOBS {
        return "bad-op".into();
    }
    let r = run_conc(limit, tmo, &scripts, true, 0, false, salt);
    conc_monitors(ex, &r, limit);
    ex.tag(format!("conc:disp={}", scripts.len()));
    ex.tag(format!("conc:limit={}", limit.min(9)));
    if r.maxrun > limit {
        ex.tag("conc:overshoot");
    }
    ex.nontrivial = r.accepted.len() >= 2;
    totals(&r.finished, r.refused.len())
}

// ---------------------------------------------------------------------------------------------
// several Proactors (runtimes) sharing one pool: Asyncify operations, panics resumed at `pop`

fn wait_for<T: OpCode>(driver: &mut Proactor, mut key: Key<T>) -> BufResult<usize, T> {
    loop {
        let _ = driver.poll(Some(Duration::from_millis(1)));
        match driver.pop(key) {
            PushEntry::Pending(k) => key = k,
            PushEntry::Ready(res) => break res,
        }
    }
}

fn exec_prx(w: &[&str], salt: u64, ex: &mut Exec) -> String {
    let (Ok(limit), Ok(tmo)) = (w[1].parse::<usize>(), w[2].parse::<u64>()) else { return "bad-op".into() };
    let dt = match w[3] {
        "u" => DriverType::IoUring,
        "p" => DriverType::Poll,
        _ => return "bad-op".into(),
    };
    let Some(scripts) = w[4..].iter().map(|s| parse_script(s)).collect::<Option<Vec<_>>>() else {
        return "bad-op".into();
    };
    if scripts.is_empty() || limit == 0 || scripts.iter().flatten().any(|s| s.kind == b'r') {
        return "bad-op".into();
    }
    run_prx(limit, tmo, dt, scripts, None, salt, ex)
}

/// a socket that is readable for ever (one byte written, never read)
fn always_readable() -> &'static std::os::unix::net::UnixStream {
    static PAIR: std::sync::OnceLock<(std::os::unix::net::UnixStream, std::os::unix::net::UnixStream)> = std::sync::OnceLock::new();
    let (rx, _tx) = PAIR.get_or_init(|| {
        use std::io::Write;
        let (rx, mut tx) = std::os::unix::net::UnixStream::pair().expect("socketpair");
        tx.write_all(b"x").expect("write");
        (rx, tx)
    });
    rx
}

fn driver_name(dt: DriverType) -> &'static str {
    if dt == DriverType::IoUring { "io_uring" } else { "polling" }
}

/// the body of an `Asyncify` operation of job `j`: counted, logged, optionally timed
fn asyncify_body(
    sh: Arc<Shared>,
    j: usize,
    kind: u8,
    dur: Duration,
    began: Option<Arc<Mutex<Option<Instant>>>>,
) -> impl FnOnce() -> BufResult<usize, Vec<u8>> + Send + 'static {
    let payload = payload_of(sh.salt, j);
    move || {
        sh.exec[j].fetch_add(1, SeqCst);
        if let Some(b) = &began {
            *b.lock().unwrap() = Some(Instant::now());
        }
        let w = sh.begin(j);
        struct G(Arc<Shared>, usize, usize);
        impl Drop for G {
            fn drop(&mut self) {
                self.0.end(self.1, self.2)
            }
        }
        let _g = G(sh.clone(), w, j);
        if !dur.is_zero() {
            thread::sleep(dur);
        }
        if kind == b'p' {
            panic!("asyncify job {j} panics");
        }
        BufResult(Ok(j + 1000), payload)
    }
}

/// `busyfd <limit> <timeout_ms> <u|p> <script>`: the blocking jobs finish while the driver is kept busy by a
/// file descriptor that is ready on every single poll (a fresh `PollOnce` on an always-readable socket
/// before each poll).  Completed results are drained on every poll whatever the fd events are, so each result
/// or panic must reach its submitter within a few polls (`C17:result-not-delivered`).
fn exec_busyfd(w: &[&str], salt: u64, ex: &mut Exec) -> String {
    let (Ok(limit), Ok(tmo)) = (w[1].parse::<usize>(), w[2].parse::<u64>()) else { return "bad-op".into() };
    let dt = match w[3] {
        "u" => DriverType::IoUring,
        "p" => DriverType::Poll,
        _ => return "bad-op".into(),
    };
    let Some(script) = parse_script(w[4]) else { return "bad-op".into() };
    if limit == 0 || script.is_empty() || script.iter().any(|s| s.kind == b'r') || script.len() + 300 >= MAXJOBS {
        return "bad-op".into();
    }
    const MAX_ROUNDS: usize = 40;
    const OK_ROUNDS: usize = 8;
    let sh = Shared::new(salt);
    let sh2 = sh.clone();
    let n = script.len();
    let kinds: Vec<u8> = script.iter().map(|s| s.kind).collect();
    // (outcomes, round at which the last result arrived, problems)
    let h = helper(move || -> Result<(HashMap<usize, Out>, usize), String> {
        let sh = sh2;
        let mut builder = Proactor::builder();
        builder.driver_type(dt).thread_pool_limit(limit).thread_pool_recv_timeout(Duration::from_millis(tmo));
        let mut driver = builder.build().map_err(|e| format!("build: {e}"))?;
        let mut keys = vec![];
        for (j, sp) in script.iter().enumerate() {
            let op = Asyncify::new(asyncify_body(sh.clone(), j, sp.kind, Duration::from_micros(sp.dur_us), None));
            match driver.push(op) {
                PushEntry::Pending(k) => keys.push((j, Some(k))),
                PushEntry::Ready(_) => return Err(format!("job {j}: push completed synchronously")),
            }
        }
        // every job body has ended, and the workers had time to hand their results to the driver
        let t0 = Instant::now();
        while sh.ended.load(SeqCst) < n {
            if t0.elapsed() > Duration::from_secs(8) {
                return Err(format!("only {} of {n} jobs ran", sh.ended.load(SeqCst)));
            }
            thread::sleep(Duration::from_micros(300));
        }
        thread::sleep(Duration::from_millis(30));
        let mut outs = HashMap::new();
        let mut last_round = 0;
        for round in 0..MAX_ROUNDS {
            let mut fd_op = match driver.push(PollOnce::new(always_readable(), Interest::Readable)) {
                PushEntry::Pending(k) => Some(k),
                PushEntry::Ready(_) => None,
            };
            let _ = driver.poll(Some(Duration::from_millis(50)));
            let tfd = Instant::now();
            while let Some(k) = fd_op.take() {
                match driver.pop(k) {
                    PushEntry::Ready(_) => {}
                    PushEntry::Pending(k) => {
                        if tfd.elapsed() > Duration::from_secs(2) {
                            return Err("the always-readable socket never became ready".into());
                        }
                        fd_op = Some(k);
                        let _ = driver.poll(Some(Duration::from_millis(5)));
                    }
                }
            }
            for (j, slot) in keys.iter_mut() {
                if let Some(k) = slot.take() {
                    match catch_unwind(AssertUnwindSafe(|| driver.pop(k))) {
                        Ok(PushEntry::Ready(BufResult(Ok(v), op))) => {
                            if v != *j + 1000 || op.into_inner() != payload_of(sh.salt, *j) {
                                return Err(format!("job {j}: result {v} / payload differs"));
                            }
                            outs.insert(*j, Out::Value);
                            last_round = round;
                        }
                        Ok(PushEntry::Ready(BufResult(Err(e), _))) => return Err(format!("job {j}: io error {e}")),
                        Ok(PushEntry::Pending(k)) => *slot = Some(k),
                        Err(_) => {
                            outs.insert(*j, Out::Panic);
                            last_round = round;
                        }
                    }
                }
            }
            if outs.len() == n {
                break;
            }
        }
        Ok((outs, last_round))
    });
    let t0 = Instant::now();
    while !h.is_finished() && t0.elapsed() < Duration::from_secs(30) {
        thread::sleep(Duration::from_millis(1));
    }
    let mut finished = HashMap::new();
    if !h.is_finished() {
        ABANDONED.store(true, SeqCst);
        ex.fail("C17:dispatch-starved", format!("busyfd run on the {} driver did not end within 30 s", driver_name(dt)));
    } else {
        match h.join() {
            Ok(Ok((outs, last_round))) => {
                if outs.len() < n {
                    ex.fail(
                        "C17:result-not-delivered",
                        format!(
                            "{} driver: {} of {n} finished blocking jobs did not reach their submitter in {MAX_ROUNDS} polls while a file descriptor was ready on every poll",
                            driver_name(dt),
                            n - outs.len()
                        ),
                    );
                } else if last_round > OK_ROUNDS {
                    ex.fail(
                        "C17:result-not-delivered",
                        format!("{} driver: a finished blocking job reached its submitter only after {last_round} polls (fd ready on every poll)", driver_name(dt)),
                    );
                }
                finished = outs;
            }
            Ok(Err(m)) => ex.fail("C17:result", m),
            Err(_) => ex.fail("C17:result", "the runtime thread panicked outside pop"),
        }
    }
    for (j, k) in kinds.iter().enumerate() {
        let c = sh.exec[j].load(SeqCst);
        if c != 1 {
            ex.fail("C17:exactly-once", format!("asyncify op {j} ran {c} times"));
        }
        let want = if *k == b'p' { Out::Panic } else { Out::Value };
        if let Some(o) = finished.get(&j) {
            if *o != want {
                ex.fail("C17:result", format!("asyncify op {j}: {} reached the submitter instead of {}", o.name(), want.name()));
            }
        }
    }
    ex.tag(format!("busyfd:{}", driver_name(dt)));
    ex.nontrivial = n >= 2;
    totals(&finished, 0)
}

fn payload_text(p: &(dyn std::any::Any + Send)) -> String {
    if let Some(s) = p.downcast_ref::<String>() {
        s.clone()
    } else if let Some(s) = p.downcast_ref::<&str>() {
        s.to_string()
    } else {
        "<opaque payload>".into()
    }
}

/// what the collecting call showed
enum Seen {
    Value(usize),
    Error(String),
    Unwound(String),
    Nothing(String),
}

/// `collect <limit> <timeout_ms> <u|p> <path> <v|e|p> <tag>`: one blocking job that returns a value, returns an
/// io error or panics with the payload `c17-payload-<tag>`, collected through one public path:
/// `pop`, `popx` (`Proactor::pop_with_extra`), `cancel` (`Proactor::cancel` of a completed key), `submit`
/// (`Runtime::submit(..).await`), `submitx` (`.with_extra().await`), `spawnb` (`spawn_blocking` JoinHandle +
/// `resume_unwind`).  A panicking job must make the collecting call unwind with the job's payload
/// (`C17:panic-not-propagated`).
fn exec_collect(w: &[&str], ex: &mut Exec) -> String {
    let (Ok(limit), Ok(tmo), Ok(tag)) = (w[1].parse::<usize>(), w[2].parse::<u64>(), w[6].parse::<u64>()) else {
        return "bad-op".into();
    };
    let dt = match w[3] {
        "u" => DriverType::IoUring,
        "p" => DriverType::Poll,
        _ => return "bad-op".into(),
    };
    let path = w[4].to_string();
    let kind = w[5].as_bytes()[0];
    if limit == 0 || !matches!(path.as_str(), "pop" | "popx" | "cancel" | "submit" | "submitx" | "spawnb") || !matches!(kind, b'v' | b'e' | b'p') || w[5].len() != 1 {
        return "bad-op".into();
    }
    let expect_payload = format!("c17-payload-{tag}");
    let payload = expect_payload.clone();
    let runs = Arc::new(AtomicUsize::new(0));
    let runs2 = runs.clone();
    let path2 = path.clone();
    let h = helper(move || -> Seen {
        let runs = runs2;
        let path = path2;
        let mut pb = Proactor::builder();
        pb.driver_type(dt).thread_pool_limit(limit).thread_pool_recv_timeout(Duration::from_millis(tmo));
        let ended = Arc::new(AtomicUsize::new(0));
        let ended2 = ended.clone();
        // the job body (for the driver and `submit` paths)
        let body = move || -> BufResult<usize, ()> {
            runs.fetch_add(1, SeqCst);
            struct E(Arc<AtomicUsize>);
            impl Drop for E {
                fn drop(&mut self) {
                    self.0.fetch_add(1, SeqCst);
                }
            }
            let _e = E(ended2);
            match kind {
                b'v' => BufResult(Ok(tag as usize + 1000), ()),
                b'e' => BufResult(Err(std::io::Error::from_raw_os_error(libc::EDOM)), ()),
                _ => panic!("{}", payload),
            }
        };
        let show = |r: std::io::Result<usize>| match r {
            Ok(v) => Seen::Value(v),
            Err(e) => Seen::Error(format!("{:?} {e}", e.kind())),
        };
        let unwound = |p: Box<dyn std::any::Any + Send>| Seen::Unwound(payload_text(&*p));
        match path.as_str() {
            "pop" | "popx" | "cancel" => {
                let mut driver = match pb.build() {
                    Ok(d) => d,
                    Err(e) => return Seen::Nothing(format!("build: {e}")),
                };
                let mut key = match driver.push(Asyncify::new(body)) {
                    PushEntry::Pending(k) => k,
                    PushEntry::Ready(_) => return Seen::Nothing("push completed synchronously".into()),
                };
                let t0 = Instant::now();
                while ended.load(SeqCst) == 0 {
                    if t0.elapsed() > Duration::from_secs(8) {
                        return Seen::Nothing("the job never ran".into());
                    }
                    thread::sleep(Duration::from_micros(200));
                }
                if path == "cancel" {
                    // let the driver take the completion in, then cancel the completed operation
                    thread::sleep(Duration::from_millis(20));
                    for _ in 0..5 {
                        let _ = driver.poll(Some(Duration::from_millis(10)));
                    }
                    return match catch_unwind(AssertUnwindSafe(|| driver.cancel(key))) {
                        Ok(Some(BufResult(r, _))) => show(r),
                        Ok(None) => Seen::Nothing("cancel of the completed operation returned None".into()),
                        Err(p) => unwound(p),
                    };
                }
                loop {
                    let _ = driver.poll(Some(Duration::from_millis(5)));
                    if t0.elapsed() > Duration::from_secs(12) {
                        return Seen::Nothing("the result never arrived".into());
                    }
                    if path == "pop" {
                        match catch_unwind(AssertUnwindSafe(|| driver.pop(key))) {
                            Ok(PushEntry::Ready(BufResult(r, _))) => return show(r),
                            Ok(PushEntry::Pending(k)) => key = k,
                            Err(p) => return unwound(p),
                        }
                    } else {
                        match catch_unwind(AssertUnwindSafe(|| driver.pop_with_extra(key))) {
                            Ok(PushEntry::Ready((BufResult(r, _), _extra))) => return show(r),
                            Ok(PushEntry::Pending(k)) => key = k,
                            Err(p) => return unwound(p),
                        }
                    }
                }
            }
            _ => {
                let rt = match compio_runtime::Runtime::builder().with_proactor(pb).build() {
                    Ok(r) => r,
                    Err(e) => return Seen::Nothing(format!("runtime build: {e}")),
                };
                let r = catch_unwind(AssertUnwindSafe(|| {
                    rt.block_on(async {
                        match path.as_str() {
                            "submit" => rt.submit(Asyncify::new(body)).await.0,
                            "submitx" => rt.submit(Asyncify::new(body)).with_extra().await.0.0,
                            _ => {
                                use compio_runtime::ResumeUnwind;
                                let jh = rt.spawn_blocking(move || body().0);
                                match jh.await.resume_unwind() {
                                    Some(r) => r,
                                    None => Err(std::io::Error::other("spawn_blocking task cancelled")),
                                }
                            }
                        }
                    })
                }));
                match r {
                    Ok(r) => show(r),
                    Err(p) => unwound(p),
                }
            }
        }
    });
    let t0 = Instant::now();
    while !h.is_finished() && t0.elapsed() < Duration::from_secs(30) {
        thread::sleep(Duration::from_millis(1));
    }
    if !h.is_finished() {
        ABANDONED.store(true, SeqCst);
        ex.fail("C17:dispatch-starved", format!("collecting through {path} on the {} driver did not end within 30 s", driver_name(dt)));
        return "got nothing".into();
    }
    let seen = h.join().unwrap_or_else(|_| Seen::Nothing("the collecting thread panicked outside the collecting call".into()));
    let c = runs.load(SeqCst);
    if c != 1 {
        ex.fail("C17:exactly-once", format!("the blocking job ran {c} times (path {path})"));
    }
    ex.tag(format!("collect:{path}:{}", kind as char));
    ex.nontrivial = true;
    let what = format!("path {path}, {} driver", driver_name(dt));
    match (kind, seen) {
        (b'v', Seen::Value(v)) if v == tag as usize + 1000 => "got value".into(),
        (b'e', Seen::Error(_)) => "got error".into(),
        (b'p', Seen::Unwound(p)) if p == expect_payload => format!("got unwind {expect_payload}"),
        (b'p', Seen::Unwound(p)) => {
            ex.fail("C17:panic-not-propagated", format!("{what}: the job panicked with \"{expect_payload}\" but the collecting call unwound with \"{p}\""));
            "got unwind other".into()
        }
        (b'p', Seen::Value(v)) => {
            ex.fail("C17:panic-not-propagated", format!("{what}: the job panicked with \"{expect_payload}\" but the collecting call returned Ok({v})"));
            "got value".into()
        }
        (b'p', Seen::Error(e)) => {
            ex.fail("C17:panic-not-propagated", format!("{what}: the job panicked with \"{expect_payload}\" but the collecting call returned Err({e}) instead of unwinding"));
            "got error".into()
        }
        (_, Seen::Nothing(m)) => {
            ex.fail("C17:result", format!("{what}: {m}"));
            "got nothing".into()
        }
        (_, Seen::Value(v)) => {
            ex.fail("C17:result", format!("{what}: Ok({v}) came back"));
            "got value".into()
        }
        (_, Seen::Error(e)) => {
            ex.fail("C17:result", format!("{what}: Err({e}) came back"));
            "got error".into()
        }
        (_, Seen::Unwound(p)) => {
            ex.fail("C17:result", format!("{what}: the collecting call unwound with \"{p}\" although the job did not panic"));
            "got unwind other".into()
        }
    }
}

fn cfg_timeout(tok: &str) -> Option<Duration> {
    Some(match tok {
        "0" => Duration::ZERO,
        "1ns" => Duration::from_nanos(1),
        "1ms" => Duration::from_millis(1),
        "1s" => Duration::from_secs(1),
        "half" => Duration::from_secs(u64::MAX / 2),
        "max" => Duration::MAX,
        _ => return None,
    })
}

fn cfg_limit(tok: &str) -> Option<usize> {
    Some(match tok {
        "1" => 1,
        "2" => 2,
        "256" => 256,
        "max" => usize::MAX,
        _ => return None,
    })
}

/// `cfg <via> <limit> <timeout> <u|p>`: configuration extremes.  `via`: `new` (`AsyncifyPool::new`, raw
/// dispatch), `lt` / `tl` (`ProactorBuilder::thread_pool_limit` then `thread_pool_recv_timeout` / the other
/// order), `reuse` (`reuse_thread_pool`), `forcelt` / `forcetl` (the setters in either order, then
/// `force_reuse_thread_pool`).  limit: 1 | 2 | 256 | max; timeout: 0 | 1ns | 1ms | 1s | half (u64::MAX/2 s) | max.
/// min(limit, 3) gated jobs are submitted by one thread and must all start (`C17:job-never-ran`, bounded);
/// with limit <= 2 one more job is submitted while they are held: it must not start (`C17:limit-exceeded`:
/// every earlier worker is counted and inside its job, no spawn race is possible); then everything is released
/// and must complete.  Timeouts below 1 s only with a path that keeps a pool handle (F170 can strand the
/// dispatch there; the watchdog reports it as the known finding and rescues).
fn exec_cfg(w: &[&str], salt: u64, ex: &mut Exec) -> String {
    let via = w[1].to_string();
    let (Some(limit), Some(tmo)) = (cfg_limit(w[2]), cfg_timeout(w[3])) else { return "bad-op".into() };
    let dt = match w[4] {
        "u" => DriverType::IoUring,
        "p" => DriverType::Poll,
        _ => return "bad-op".into(),
    };
    if !matches!(via.as_str(), "new" | "lt" | "tl" | "reuse" | "forcelt" | "forcetl") {
        return "bad-op".into();
    }
    let tiny = tmo < Duration::from_secs(1);
    if tiny && matches!(via.as_str(), "lt" | "tl") {
        return "bad-op".into();
    }
    let n = limit.min(3);
    let extra = limit <= 2;
    let total = n + extra as usize;
    let sh = Shared::new(salt);
    let open = Arc::new(std::sync::atomic::AtomicBool::new(false));
    let begun = Arc::new(AtomicUsize::new(0));
    let done = Arc::new(AtomicUsize::new(0));
    let extra_begun = Arc::new(std::sync::atomic::AtomicBool::new(false));
    // the body of job j: counted, logged, held until `open`
    let body = {
        let (sh, open, begun, done, extra_begun) = (sh.clone(), open.clone(), begun.clone(), done.clone(), extra_begun.clone());
        move |j: usize, is_extra: bool| {
            let (sh, open, begun, done, extra_begun) = (sh.clone(), open.clone(), begun.clone(), done.clone(), extra_begun.clone());
            move || {
                sh.exec[j].fetch_add(1, SeqCst);
                let wi = sh.begin(j);
                if is_extra {
                    extra_begun.store(true, SeqCst);
                } else {
                    begun.fetch_add(1, SeqCst);
                }
                let t0 = Instant::now();
                while !open.load(SeqCst) && t0.elapsed() < Duration::from_secs(40) {
                    thread::sleep(Duration::from_micros(200));
                }
                sh.end(wi, j);
                done.fetch_add(1, SeqCst);
            }
        }
    };
    // the pool handle, when the path gives one (for the watchdog's rescue)
    let mut pool_handle: Option<AsyncifyPool> = None;
    let mut builder = Proactor::builder();
    builder.driver_type(dt);
    match via.as_str() {
        "new" | "reuse" => {
            let p = AsyncifyPool::new(limit, tmo);
            if via == "reuse" {
                builder.reuse_thread_pool(p.clone());
            }
            pool_handle = Some(p);
        }
        "lt" => {
            builder.thread_pool_limit(limit).thread_pool_recv_timeout(tmo);
        }
        "tl" => {
            builder.thread_pool_recv_timeout(tmo).thread_pool_limit(limit);
        }
        "forcelt" => {
            builder.thread_pool_limit(limit).thread_pool_recv_timeout(tmo).force_reuse_thread_pool();
            pool_handle = Some(builder.create_or_get_thread_pool());
        }
        _ => {
            builder.thread_pool_recv_timeout(tmo).thread_pool_limit(limit).force_reuse_thread_pool();
            pool_handle = Some(builder.create_or_get_thread_pool());
        }
    }
    // the submitting thread: all submissions come from it, in order
    let stage = Arc::new(AtomicUsize::new(0)); // 1 = first n submitted, 2 = extra returned
    let extra_refused = Arc::new(std::sync::atomic::AtomicBool::new(false));
    let (stage2, refused2, begun2, via2, pool2) = (stage.clone(), extra_refused.clone(), begun.clone(), via.clone(), pool_handle.clone());
    let open2 = open.clone();
    let h = helper(move || -> Result<(), String> {
        let (stage, extra_refused, begun) = (stage2, refused2, begun2);
        if via2 == "new" {
            let pool = pool2.expect("pool");
            for j in 0..n {
                let mut f: Box<dyn FnOnce() + Send> = Box::new(body(j, false));
                let t0 = Instant::now();
                loop {
                    match pool.dispatch(f) {
                        Ok(()) => break,
                        Err(DispatchError(back)) => {
                            if t0.elapsed() > Duration::from_secs(5) {
                                return Err(format!("job {j} refused for 5 s although only {j} jobs are held"));
                            }
                            f = back;
                            thread::yield_now();
                        }
                    }
                }
            }
            stage.store(1, SeqCst);
            if extra {
                let t0 = Instant::now();
                while begun.load(SeqCst) < n && t0.elapsed() < Duration::from_secs(6) {
                    thread::sleep(Duration::from_micros(200));
                }
                // saturated: the raw API hands the closure back
                let mut f: Box<dyn FnOnce() + Send> = Box::new(body(n, true));
                let mut first = true;
                loop {
                    match pool.dispatch(f) {
                        Ok(()) => break,
                        Err(DispatchError(back)) => {
                            if first {
                                extra_refused.store(true, SeqCst);
                                first = false;
                            }
                            if t0.elapsed() > Duration::from_secs(40) {
                                return Err("the extra job was refused for 40 s".into());
                            }
                            f = back;
                            thread::sleep(Duration::from_micros(300));
                        }
                    }
                }
            }
            stage.store(2, SeqCst);
            return Ok(());
        }
        let mut driver = builder.build().map_err(|e| format!("build: {e}"))?;
        let mut keys = vec![];
        for j in 0..n {
            let f = body(j, false);
            let b: Box<dyn FnOnce() -> BufResult<usize, ()> + Send> = Box::new(move || {
                f();
                BufResult(Ok(j), ())
            });
            match driver.push(Asyncify::new(b)) {
                PushEntry::Pending(k) => keys.push(k),
                PushEntry::Ready(_) => return Err("push completed synchronously".into()),
            }
        }
        stage.store(1, SeqCst);
        if extra {
            let t0 = Instant::now();
            while begun.load(SeqCst) < n && t0.elapsed() < Duration::from_secs(6) {
                thread::sleep(Duration::from_micros(200));
            }
            // saturated: push_blocking retries until a thread is free (after the release)
            let f = body(n, true);
            let b: Box<dyn FnOnce() -> BufResult<usize, ()> + Send> = Box::new(move || {
                f();
                BufResult(Ok(n), ())
            });
            match driver.push(Asyncify::new(b)) {
                PushEntry::Pending(k) => keys.push(k),
                PushEntry::Ready(_) => return Err("push completed synchronously".into()),
            }
        }
        stage.store(2, SeqCst);
        let t0 = Instant::now();
        for mut k in keys {
            loop {
                let _ = driver.poll(Some(Duration::from_millis(2)));
                match driver.pop(k) {
                    PushEntry::Ready(BufResult(r, _)) => {
                        r.map_err(|e| format!("io error {e}"))?;
                        break;
                    }
                    PushEntry::Pending(kk) => k = kk,
                }
                if t0.elapsed() > Duration::from_secs(20) && open2.load(SeqCst) {
                    return Err("a result never arrived".into());
                }
            }
        }
        Ok(())
    });
    let what = format!("via {via}, limit {}, idle timeout {}, {} driver", w[2], w[3], driver_name(dt));
    // 1. the first n jobs must all start
    let all_begun = || begun.load(SeqCst) >= n;
    let mut never_ran = false;
    // (an accepted job may start a moment after its submitter has returned: wait for the jobs, not the thread)
    let t_sub = Instant::now();
    if let (true, Some(p)) = (tiny, pool_handle.as_ref()) {
        if let Some((sig, detail)) = watch(p, &sh, &|| all_begun() || t_sub.elapsed() > Duration::from_secs(8), &|| begun.load(SeqCst), limit, tmo.as_millis() as u64) {
            ex.fail(sig, format!("{detail} ({what})"));
        }
    } else {
        while !all_begun() && t_sub.elapsed() < Duration::from_secs(6) {
            thread::sleep(Duration::from_micros(300));
        }
    }
    if !all_begun() {
        never_ran = true;
        ex.fail(
            "C17:job-never-ran",
            format!("{what}: only {} of {n} submitted blocking jobs started within the bound (the submitting thread is {})", begun.load(SeqCst), if h.is_finished() { "back" } else { "still inside the submission" }),
        );
    }
    // 2. saturated: the extra job must be held back
    let mut held = "none";
    if extra && !never_ran {
        let t0 = Instant::now();
        while t0.elapsed() < Duration::from_millis(80) && !extra_begun.load(SeqCst) {
            thread::sleep(Duration::from_millis(1));
        }
        if extra_begun.load(SeqCst) {
            held = "ran";
            ex.fail(
                "C17:limit-exceeded",
                format!("{what}: limit={limit} observed={} jobs running at once: one more job started while {n} jobs were held inside the pool (single submitter, every worker counted)", n + 1),
            );
        } else {
            held = "held";
        }
    }
    // 3. release, everything completes
    open.store(true, SeqCst);
    let t0 = Instant::now();
    let finished = |d: &AtomicUsize| d.load(SeqCst) >= total;
    if let (true, Some(p), false) = (tiny, pool_handle.as_ref(), never_ran) {
        if let Some((sig, detail)) = watch(p, &sh, &|| (finished(&done) && h.is_finished()) || t0.elapsed() > Duration::from_secs(15), &|| 1, limit, tmo.as_millis() as u64) {
            ex.fail(sig, format!("{detail} ({what})"));
        }
    } else {
        while !(finished(&done) && h.is_finished()) && t0.elapsed() < Duration::from_secs(if never_ran { 3 } else { 15 }) {
            thread::sleep(Duration::from_micros(300));
        }
    }
    if !finished(&done) && !never_ran {
        ex.fail("C17:job-never-ran", format!("{what}: only {} of {total} blocking jobs completed after the release", done.load(SeqCst)));
    }
    if h.is_finished() {
        match h.join() {
            Ok(Ok(())) => {}
            Ok(Err(m)) => ex.fail("C17:result", format!("{what}: {m}")),
            Err(_) => ex.fail("C17:result", format!("{what}: the submitting thread panicked")),
        }
    } else {
        ABANDONED.store(true, SeqCst);
        if !never_ran {
            ex.fail("C17:dispatch-starved", format!("{what}: the submitting thread did not return"));
        }
    }
    if via == "new" && extra && !never_ran && !extra_refused.load(SeqCst) && held == "held" {
        // it did not start and was not handed back either: dispatch blocked
        ex.fail("C17:dispatch-starved", format!("{what}: the saturated pool neither ran nor handed back the extra job"));
    }
    for j in 0..total {
        let c = sh.exec[j].load(SeqCst);
        if c != 1 && !never_ran {
            ex.fail("C17:exactly-once", format!("{what}: job {j} ran {c} times"));
        }
    }
    drop(pool_handle);
    if !abandoned() {
        wait_alone();
    }
    ex.tag(format!("cfg:{via}"));
    ex.tag(format!("cfg:timeout={}", w[3]));
    ex.tag(format!("cfg:limit={}", w[2]));
    ex.nontrivial = true;
    format!("cfg ok jobs={} extra={held}", done.load(SeqCst))
}

/// `dsp <limit> <workers> <in|out>`: ONE blocking pool behind every entry point of a `Dispatcher` built from a default
/// (`Create`) `ProactorBuilder` with `thread_pool_limit(limit)`: `compio_runtime::spawn_blocking` inside a
/// dispatched task (the worker runtimes' pool) and `Dispatcher::dispatch_blocking` (the dispatcher's own handle).
/// `in`: `limit` gated jobs are submitted from inside a worker runtime, the extra one through `dispatch_blocking`;
/// `out`: the other way round.  While `limit` jobs are held (every pool thread counted and inside its job, so
/// no spawn race is possible) the extra job must not start (`C17:limit-exceeded`); through `dispatch_blocking` it
/// must be handed back.  Then everything is released and must complete exactly once.
fn exec_dsp(w: &[&str], salt: u64, ex: &mut Exec) -> String {
    use std::sync::atomic::AtomicBool;
    let (Ok(limit), Ok(workers)) = (w[1].parse::<usize>(), w[2].parse::<usize>()) else { return "bad-op".into() };
    if limit == 0 || limit > 8 || workers == 0 || workers > 4 || !matches!(w[3], "in" | "out") {
        return "bad-op".into();
    }
    let inner_first = w[3] == "in";
    let total = limit + 1;
    let sh = Shared::new(salt);
    let open = Arc::new(AtomicBool::new(false));
    let begun = Arc::new(AtomicUsize::new(0));
    let done = Arc::new(AtomicUsize::new(0));
    let extra_begun = Arc::new(AtomicBool::new(false));
    let body = {
        let (sh, open, begun, done, extra_begun) = (sh.clone(), open.clone(), begun.clone(), done.clone(), extra_begun.clone());
        move |j: usize, is_extra: bool| {
            let (sh, open, begun, done, extra_begun) = (sh.clone(), open.clone(), begun.clone(), done.clone(), extra_begun.clone());
            move || {
                sh.exec[j].fetch_add(1, SeqCst);
                let wi = sh.begin(j);
                if is_extra {
                    extra_begun.store(true, SeqCst);
                } else {
                    begun.fetch_add(1, SeqCst);
                }
                let t0 = Instant::now();
                while !open.load(SeqCst) && t0.elapsed() < Duration::from_secs(30) {
                    thread::sleep(Duration::from_micros(200));
                }
                sh.end(wi, j);
                done.fetch_add(1, SeqCst);
            }
        }
    };
    let what = format!("Dispatcher with thread_pool_limit({limit}), {workers} worker runtime(s), {} jobs from inside a worker runtime", if inner_first { "the first" } else { "the extra" });
    let mut pb = compio_driver::ProactorBuilder::new();
    pb.thread_pool_limit(limit);
    let dispatcher = match compio_dispatcher::Dispatcher::builder()
        .worker_threads(std::num::NonZeroUsize::new(workers).unwrap())
        .proactor_builder(pb)
        .build()
    {
        Ok(d) => d,
        Err(e) => {
            ex.fail("C17:result", format!("{what}: Dispatcher::build failed: {e}"));
            return "dsp failed".into();
        }
    };
    // jobs submitted from inside a worker runtime: one dispatched task spawns them in order and awaits them
    let inner = |ids: Vec<(usize, bool)>| {
        let body = body.clone();
        dispatcher
            .dispatch(move || async move {
                let hs: Vec<_> = ids.into_iter().map(|(j, x)| compio_runtime::spawn_blocking(body(j, x))).collect();
                for h in hs {
                    let _ = h.await;
                }
            })
            .is_ok()
    };
    // jobs submitted through the dispatcher's own pool handle; returns the number of times it was handed back
    let outer = |j: usize, x: bool, retry_until: &dyn Fn() -> bool| -> (bool, usize) {
        let mut f: Box<dyn FnOnce() + Send> = Box::new(body(j, x));
        let mut back = 0usize;
        loop {
            match dispatcher.dispatch_blocking(f) {
                Ok(_rx) => return (true, back),
                Err(e) => {
                    back += 1;
                    f = e.0;
                    if retry_until() {
                        return (false, back);
                    }
                    thread::sleep(Duration::from_micros(300));
                }
            }
        }
    };
    let t0 = Instant::now();
    let mut ok = true;
    if inner_first {
        ok &= inner((0..limit).map(|j| (j, false)).collect());
    } else {
        for j in 0..limit {
            // one at a time (each waits until the previous one is inside its job: no spawn in flight twice)
            let (acc, _) = outer(j, false, &|| t0.elapsed() > Duration::from_secs(6));
            ok &= acc;
            while begun.load(SeqCst) <= j && t0.elapsed() < Duration::from_secs(6) {
                thread::sleep(Duration::from_micros(200));
            }
        }
    }
    while begun.load(SeqCst) < limit && t0.elapsed() < Duration::from_secs(6) {
        thread::sleep(Duration::from_micros(300));
    }
    let mut never_ran = false;
    if !ok || begun.load(SeqCst) < limit {
        never_ran = true;
        ex.fail("C17:job-never-ran", format!("{what}: only {} of {limit} submitted blocking jobs started within 6 s", begun.load(SeqCst)));
    }
    // saturated: the extra job through the OTHER entry point must be held back
    let mut held = "none";
    let mut handed_back = 0usize;
    if !never_ran {
        let mut accepted_at_once = false;
        if inner_first {
            let (acc, back) = outer(limit, true, &|| true);
            handed_back = back;
            accepted_at_once = acc;
        } else {
            ok &= inner(vec![(limit, true)]);
        }
        let t1 = Instant::now();
        while t1.elapsed() < Duration::from_millis(80) && !extra_begun.load(SeqCst) {
            thread::sleep(Duration::from_millis(1));
        }
        if extra_begun.load(SeqCst) || accepted_at_once {
            held = "ran";
            ex.fail(
                "C17:limit-exceeded",
                format!(
                    "{what}: limit={limit} observed={} jobs running at once across the entry points sharing the builder: {} accepted and started one more job while {limit} jobs submitted through {} were held inside the pool (every worker counted)",
                    limit + 1,
                    if inner_first { "dispatch_blocking" } else { "spawn_blocking in a worker runtime" },
                    if inner_first { "spawn_blocking in a worker runtime" } else { "dispatch_blocking" },
                ),
            );
        } else {
            held = "held";
            if inner_first && handed_back == 0 {
                ex.fail("C17:dispatch-starved", format!("{what}: the saturated pool neither ran nor handed back the extra job"));
            }
        }
    }
    open.store(true, SeqCst);
    if inner_first && held == "held" {
        let t2 = Instant::now();
        let (acc, _) = outer(limit, true, &|| t2.elapsed() > Duration::from_secs(8));
        if !acc {
            ex.fail("C17:dispatch-starved", format!("{what}: dispatch_blocking was refused for 8 s after every job had been released"));
        }
    }
    let t3 = Instant::now();
    while done.load(SeqCst) < total && t3.elapsed() < Duration::from_secs(if never_ran { 2 } else { 10 }) {
        thread::sleep(Duration::from_micros(300));
    }
    if done.load(SeqCst) < total && !never_ran {
        ex.fail("C17:job-never-ran", format!("{what}: only {} of {total} blocking jobs completed after the release", done.load(SeqCst)));
    }
    for j in 0..total {
        let c = sh.exec[j].load(SeqCst);
        if c != 1 && !never_ran {
            ex.fail("C17:exactly-once", format!("{what}: job {j} ran {c} times"));
        }
    }
    // join on a helper thread (bounded)
    let h = helper(move || {
        compio_runtime::Runtime::new().map(|rt| rt.block_on(dispatcher.join()).is_ok()).unwrap_or(false)
    });
    let t4 = Instant::now();
    while !h.is_finished() && t4.elapsed() < Duration::from_secs(10) {
        thread::sleep(Duration::from_micros(500));
    }
    if h.is_finished() {
        if !matches!(h.join(), Ok(true)) {
            ex.fail("C17:result", format!("{what}: Dispatcher::join failed"));
        }
    } else {
        ABANDONED.store(true, SeqCst);
        ex.fail("C17:dispatch-starved", format!("{what}: Dispatcher::join did not return within 10 s"));
    }
    if !abandoned() {
        wait_alone();
    }
    ex.tag(format!("dsp:{}", w[3]));
    ex.tag(format!("dsp:limit={limit}"));
    ex.nontrivial = true;
    format!("dsp ok jobs={} extra={held}", done.load(SeqCst))
}

/// `rawp <limit> <timeout_ms> <panics>`: jobs that unwind out of `Dispatchable::run` (raw `AsyncifyPool::dispatch`,
/// as `Dispatcher::dispatch_blocking` / `join` do: no `catch_unwind`) kill their pool thread; the slot of a dead
/// thread must be given back on that exit path too.  `panics` panicking jobs one after the other (each waited for
/// until its thread is gone: thread census 0), then `limit` gated jobs: every one must be accepted and start
/// (`C17:slot-leaked`: live-thread counter > number of live pool threads), one more is handed back, release.
fn exec_rawp(w: &[&str], salt: u64, ex: &mut Exec) -> String {
    let (Ok(limit), Ok(tmo), Ok(panics)) = (w[1].parse::<usize>(), w[2].parse::<u64>(), w[3].parse::<usize>()) else { return "bad-op".into() };
    if limit == 0 || limit > 16 || panics > 64 || tmo < 1000 {
        return "bad-op".into();
    }
    let what = format!("AsyncifyPool::new({limit}, {tmo} ms), {panics} uncaught panicking jobs through the raw dispatch path");
    let sh = Shared::new(salt);
    let pool = AsyncifyPool::new(limit, Duration::from_millis(tmo));
    let crashed = Arc::new(AtomicUsize::new(0));
    let mut leaked_at: Option<usize> = None;
    for k in 0..panics {
        let c = crashed.clone();
        let f: Box<dyn FnOnce() + Send> = Box::new(move || {
            c.fetch_add(1, SeqCst);
            panic!("c17 rawp job {k} panics (uncaught)");
        });
        let mut f = f;
        let t0 = Instant::now();
        let mut accepted = false;
        while t0.elapsed() < Duration::from_millis(1500) {
            match pool.dispatch(f) {
                Ok(()) => {
                    accepted = true;
                    break;
                }
                Err(DispatchError(back)) => {
                    f = back;
                    thread::sleep(Duration::from_micros(500));
                }
            }
        }
        if !accepted {
            leaked_at = Some(k);
            break;
        }
        let t1 = Instant::now();
        while crashed.load(SeqCst) <= k && t1.elapsed() < Duration::from_secs(5) {
            thread::sleep(Duration::from_micros(200));
        }
        // the thread unwinds and ends
        let t2 = Instant::now();
        while wait_quiet() != Some(0) && t2.elapsed() < Duration::from_secs(5) {
            thread::sleep(Duration::from_micros(200));
        }
    }
    let census = wait_quiet().unwrap_or(usize::MAX);
    if let Some(k) = leaked_at {
        ex.fail(
            "C17:slot-leaked",
            format!("{what}: after {k} jobs had panicked the pool refused every dispatch for 1.5 s although {census} pool threads are alive (limit {limit}): the slots of the dead threads were not given back"),
        );
    }
    // `limit` gated jobs must all be accepted and run at once
    let open = Arc::new(std::sync::atomic::AtomicBool::new(false));
    let begun = Arc::new(AtomicUsize::new(0));
    let done = Arc::new(AtomicUsize::new(0));
    let mut accepted = 0usize;
    let mut refused_extra = false;
    if leaked_at.is_none() {
        for j in 0..=limit {
            let (sh2, open2, begun2, done2) = (sh.clone(), open.clone(), begun.clone(), done.clone());
            let mut f: Box<dyn FnOnce() + Send> = Box::new(move || {
                sh2.exec[j].fetch_add(1, SeqCst);
                let wi = sh2.begin(j);
                begun2.fetch_add(1, SeqCst);
                let t0 = Instant::now();
                while !open2.load(SeqCst) && t0.elapsed() < Duration::from_secs(30) {
                    thread::sleep(Duration::from_micros(200));
                }
                sh2.end(wi, j);
                done2.fetch_add(1, SeqCst);
            });
            let t0 = Instant::now();
            let mut acc = false;
            loop {
                match pool.dispatch(f) {
                    Ok(()) => {
                        acc = true;
                        break;
                    }
                    Err(DispatchError(back)) => {
                        f = back;
                        if j == limit || t0.elapsed() > Duration::from_millis(1500) {
                            break;
                        }
                        thread::sleep(Duration::from_micros(500));
                    }
                }
            }
            if j == limit {
                refused_extra = !acc;
                if acc {
                    accepted += 1;
                }
                break;
            }
            if !acc {
                let alive = wait_quiet().unwrap_or(usize::MAX);
                ex.fail(
                    "C17:slot-leaked",
                    format!("{what}: job {j} was refused for 1.5 s while only {alive} pool threads are alive (limit {limit}): the live-thread counter is above the number of live pool threads"),
                );
                break;
            }
            accepted += 1;
            // serial spawns: wait until this job is inside its thread
            let t1 = Instant::now();
            while begun.load(SeqCst) < accepted && t1.elapsed() < Duration::from_secs(5) {
                thread::sleep(Duration::from_micros(200));
            }
        }
        if accepted >= limit && !refused_extra {
            ex.fail(
                "C17:limit-exceeded",
                format!("{what}: limit={limit} observed={} jobs running at once: one more job was accepted while {limit} jobs were held (single dispatcher, every worker counted)", limit + 1),
            );
        }
    }
    open.store(true, SeqCst);
    let t3 = Instant::now();
    while done.load(SeqCst) < accepted && t3.elapsed() < Duration::from_secs(10) {
        thread::sleep(Duration::from_micros(300));
    }
    if done.load(SeqCst) < accepted {
        ex.fail("C17:lost-job", format!("{what}: only {} of {accepted} accepted jobs completed", done.load(SeqCst)));
    }
    for j in 0..accepted.min(limit + 1) {
        let c = sh.exec[j].load(SeqCst);
        if c != 1 {
            ex.fail("C17:exactly-once", format!("{what}: job {j} ran {c} times"));
        }
    }
    drop(pool);
    if !abandoned() {
        wait_alone();
    }
    ex.tag("rawp");
    ex.tag(format!("rawp:limit={limit}"));
    ex.nontrivial = true;
    format!("rawp crashed={} ran={} extra={}", crashed.load(SeqCst), done.load(SeqCst), if refused_extra { "busy" } else { "other" })
}

/// `parked <limit> <timeout_ms> <u|p> <hold_ms> <poll_timeout_ms>`: a pool shared with a foreign dispatcher
/// whose jobs hold every thread for `hold_ms`; the driver pushes a blocking job meanwhile and then sleeps in
/// `poll(poll_timeout)`.  The refused submission is retried by the submitting driver itself, so the job must
/// start promptly once a thread is free — not when the driver happens to wake (`C17:submission-parked`).
fn exec_parked(w: &[&str], salt: u64, ex: &mut Exec) -> String {
    let (Ok(limit), Ok(tmo), Ok(hold), Ok(pt)) =
        (w[1].parse::<usize>(), w[2].parse::<u64>(), w[4].parse::<u64>(), w[5].parse::<u64>())
    else {
        return "bad-op".into();
    };
    let dt = match w[3] {
        "u" => DriverType::IoUring,
        "p" => DriverType::Poll,
        _ => return "bad-op".into(),
    };
    if limit == 0 || limit > 8 || hold > 2_000 || pt > 10_000 {
        return "bad-op".into();
    }
    let sh = Shared::new(salt);
    let pool = AsyncifyPool::new(limit, Duration::from_millis(tmo));
    let (res_tx, res_rx) = mpsc::channel::<(usize, Out, u64)>();
    let (beg_tx, beg_rx) = mpsc::channel::<(usize, usize)>();
    // the foreign dispatcher (another runtime, or a raw user of the pool) occupies every thread
    let mut gates = vec![];
    for j in 0..limit {
        let (gtx, grx) = mpsc::channel::<()>();
        let job = make_job(&sh, j, b'v', Wait::Gate(grx), &res_tx, Some(beg_tx.clone()));
        let t0 = Instant::now();
        let mut job = Some(job);
        while let Some(jb) = job.take() {
            match catch(|| pool.dispatch(jb)) {
                Ok(Ok(())) => {}
                Ok(Err(DispatchError(back))) if t0.elapsed() < Duration::from_secs(5) => {
                    job = Some(back);
                    thread::yield_now();
                }
                _ => {
                    ex.fail("C17:dispatch-starved", format!("foreign job {j} was not accepted (limit {limit})"));
                    return totals(&HashMap::new(), 0);
                }
            }
        }
        if beg_rx.recv_timeout(Duration::from_secs(5)).is_err() {
            ex.fail("C17:lost-job", format!("foreign job {j} did not start"));
            note_lost();
            return totals(&HashMap::new(), 0);
        }
        gates.push(gtx);
    }
    let j = limit;
    let began: Arc<Mutex<Option<Instant>>> = Arc::new(Mutex::new(None));
    let freed: Arc<Mutex<Option<Instant>>> = Arc::new(Mutex::new(None));
    // release the threads after `hold` ms
    let freed2 = freed.clone();
    let releaser = helper(move || {
        thread::sleep(Duration::from_millis(hold));
        *freed2.lock().unwrap() = Some(Instant::now());
        drop(gates);
    });
    let (sh2, pool2, began2) = (sh.clone(), pool.clone(), began.clone());
    let h = helper(move || -> Result<Option<Out>, String> {
        let sh = sh2;
        let mut builder = Proactor::builder();
        builder.driver_type(dt).reuse_thread_pool(pool2);
        let mut driver = builder.build().map_err(|e| format!("build: {e}"))?;
        let op = Asyncify::new(asyncify_body(sh.clone(), j, b'v', Duration::ZERO, Some(began2)));
        let mut key = match driver.push(op) {
            PushEntry::Pending(k) => k,
            PushEntry::Ready(_) => return Err("push completed synchronously".into()),
        };
        // sleep in the driver like an idle runtime does, then collect
        let t0 = Instant::now();
        loop {
            let _ = driver.poll(Some(Duration::from_millis(pt)));
            match driver.pop(key) {
                PushEntry::Ready(BufResult(Ok(v), op)) => {
                    if v != j + 1000 || op.into_inner() != payload_of(sh.salt, j) {
                        return Err(format!("job {j}: result {v} / payload differs"));
                    }
                    return Ok(Some(Out::Value));
                }
                PushEntry::Ready(BufResult(Err(e), _)) => return Err(format!("job {j}: io error {e}")),
                PushEntry::Pending(k) => {
                    key = k;
                    if t0.elapsed() > Duration::from_millis(2 * pt + hold + 3_000) {
                        return Ok(None);
                    }
                }
            }
        }
    });
    let t0 = Instant::now();
    let deadline = Duration::from_millis(2 * pt + hold + 10_000);
    while !h.is_finished() && t0.elapsed() < deadline {
        thread::sleep(Duration::from_millis(1));
    }
    let _ = releaser.join();
    let mut finished = HashMap::new();
    for _ in 0..limit {
        if let Ok((fj, out, _)) = res_rx.recv_timeout(Duration::from_secs(4)) {
            finished.insert(fj, out);
        }
    }
    if !h.is_finished() {
        ABANDONED.store(true, SeqCst);
        ex.fail("C17:dispatch-starved", format!("the driver's blocking job was neither run nor refused within {deadline:?} (shared pool, limit {limit})"));
    } else {
        match h.join() {
            Ok(Ok(Some(o))) => {
                finished.insert(j, o);
            }
            Ok(Ok(None)) => ex.fail("C17:lost-job", format!("the driver's blocking job delivered nothing (shared pool, limit {limit})")),
            Ok(Err(m)) => ex.fail("C17:result", m),
            Err(_) => ex.fail("C17:result", "the runtime thread panicked"),
        }
    }
    let (b, f) = (*began.lock().unwrap(), *freed.lock().unwrap());
    match (b, f) {
        (Some(b), Some(f)) => {
            let late = b.saturating_duration_since(f);
            if late > Duration::from_millis(pt / 3) {
                ex.fail(
                    "C17:submission-parked",
                    format!(
                        "{} driver, shared pool limit {limit}: the submitted blocking job started {} ms after the foreign job freed the thread (the driver slept in poll({pt} ms)); it must be retried by the submitter itself",
                        driver_name(dt),
                        late.as_millis()
                    ),
                );
            }
        }
        (None, _) => ex.fail("C17:lost-job", "the driver's blocking job never started"),
        _ => {}
    }
    let c = sh.exec[j].load(SeqCst);
    if c != 1 {
        ex.fail("C17:exactly-once", format!("asyncify op {j} ran {c} times"));
    }
    drop(pool);
    ex.tag(format!("parked:{}", driver_name(dt)));
    ex.nontrivial = true;
    totals(&finished, 0)
}

/// `burst <limit> <timeout_ms> <u|p> <ring capacity> <jobs> <microseconds>`: one `Proactor` with a small ring;
/// all jobs are pushed back-to-back without a poll in between (more than the completion queue and the
/// pool can hold), then polled to completion.  The results travel back on the driver's completion channel,
/// which nobody drains during the burst: every job must still run once, every result must arrive and the
/// push loop must return (`C17:burst-stuck`).
fn exec_burst(w: &[&str], salt: u64, ex: &mut Exec) -> String {
    let (Ok(limit), Ok(tmo), Ok(cap), Ok(n), Ok(dur)) =
        (w[1].parse::<usize>(), w[2].parse::<u64>(), w[4].parse::<u32>(), w[5].parse::<usize>(), w[6].parse::<u64>())
    else {
        return "bad-op".into();
    };
    let dt = match w[3] {
        "u" => DriverType::IoUring,
        "p" => DriverType::Poll,
        _ => return "bad-op".into(),
    };
    if limit == 0 || cap == 0 || n == 0 || n + 300 >= MAXJOBS {
        return "bad-op".into();
    }
    ex.tag(format!("burst:cap={cap}"));
    let script: Vec<Spec> = (0..n).map(|_| Spec { kind: b'v', dur_us: dur }).collect();
    run_prx(limit, tmo, dt, vec![script], Some(cap), salt, ex)
}

/// Wait for a burst: stuck = nothing observable (no job begins or ends) for 3 s while the runtime
/// thread has not returned.  The thread cannot be stopped, so the run is abandoned afterwards.
fn watch_burst(sh: &Arc<Shared>, done: &dyn Fn() -> bool, what: &str) -> Option<(String, String)> {
    let mut last = sh.progress();
    let mut since = Instant::now();
    loop {
        if done() {
            return None;
        }
        let n = sh.progress();
        if n != last {
            last = n;
            since = Instant::now();
        } else if since.elapsed() > Duration::from_secs(3) {
            ABANDONED.store(true, SeqCst);
            let l = sh.log.lock().unwrap_or_else(|p| p.into_inner());
            let begun = l.ev.iter().filter(|e| matches!(e, Ev::Begin(..))).count();
            let ended = l.ev.iter().filter(|e| matches!(e, Ev::End(..))).count();
            return Some((
                "C17:burst-stuck".to_string(),
                format!("{what}: the runtime thread did not return and nothing moved for 3 s ({begun} jobs begun, {ended} ended, {} pool threads inside a job)", l.running),
            ));
        }
        thread::sleep(Duration::from_micros(200));
    }
}

fn run_prx(limit: usize, tmo: u64, dt: DriverType, scripts: Vec<Vec<Spec>>, capacity: Option<u32>, salt: u64, ex: &mut Exec) -> String {
    let sh = Shared::new(salt);
    let pool = AsyncifyPool::new(limit, Duration::from_millis(tmo));
    let mut base = 0usize;
    let mut hs = vec![];
    let barrier = Arc::new(Barrier::new(scripts.len()));
    for script in &scripts {
        let (pool, sh, script, barrier) = (pool.clone(), sh.clone(), script.clone(), barrier.clone());
        let first = base;
        base += script.len();
        hs.push(thread::spawn(move || -> Result<Vec<(usize, Out)>, String> {
            let mut builder = Proactor::builder();
            builder.driver_type(dt).reuse_thread_pool(pool);
            if let Some(cap) = capacity {
                builder.capacity(cap);
            }
            let mut driver = builder.build().map_err(|e| format!("build: {e}"))?;
            barrier.wait();
            let mut keys = vec![];
            for (i, sp) in script.iter().enumerate() {
                let j = first + i;
                let (sh2, kind, dur) = (sh.clone(), sp.kind, Duration::from_micros(sp.dur_us));
                let payload = payload_of(sh.salt, j);
                let op = Asyncify::new(move || -> BufResult<usize, Vec<u8>> {
                    sh2.exec[j].fetch_add(1, SeqCst);
                    let w = sh2.begin(j);
                    struct G(Arc<Shared>, usize, usize);
                    impl Drop for G {
                        fn drop(&mut self) {
                            self.0.end(self.1, self.2)
                        }
                    }
                    let _g = G(sh2.clone(), w, j);
                    if !dur.is_zero() {
                        thread::sleep(dur);
                    }
                    if kind == b'p' {
                        panic!("asyncify job {j} panics");
                    }
                    BufResult(Ok(j + 1000), payload)
                });
                match driver.push(op) {
                    PushEntry::Pending(k) => keys.push((j, k)),
                    PushEntry::Ready(_) => return Err(format!("job {j}: push completed synchronously")),
                }
            }
            let mut outs = vec![];
            for (j, k) in keys {
                match catch_unwind(AssertUnwindSafe(|| wait_for(&mut driver, k))) {
                    Ok(BufResult(Ok(n), op)) => {
                        let data = op.into_inner();
                        if n != j + 1000 || data != payload_of(sh.salt, j) {
                            return Err(format!("job {j}: result {n} / payload differs"));
                        }
                        outs.push((j, Out::Value));
                    }
                    Ok(BufResult(Err(e), _)) => return Err(format!("job {j}: io error {e}")),
                    Err(_) => outs.push((j, Out::Panic)),
                }
            }
            Ok(outs)
        }));
    }
    let mut finished = HashMap::new();
    if let Some(cap) = capacity {
        let what = format!(
            "burst of {} blocking jobs, ring capacity {cap}, thread limit {limit}, {} driver",
            scripts[0].len(),
            if dt == DriverType::IoUring { "io_uring" } else { "polling" }
        );
        if let Some((sig, detail)) = watch_burst(&sh, &|| hs.iter().all(|h| h.is_finished()), &what) {
            ex.fail(sig, detail);
        }
    } else if let Some((sig, detail)) = watch(&pool, &sh, &|| hs.iter().all(|h| h.is_finished()), &|| hs.iter().filter(|h| !h.is_finished()).count(), limit, tmo) {
        ex.fail(sig, format!("{detail} (inside Proactor::push -> push_blocking)"));
    }
    for h in hs {
        if !h.is_finished() {
            continue; // reported by the watchdog; the thread is left behind
        }
        match h.join() {
            Ok(Ok(outs)) => {
                for (j, o) in outs {
                    finished.insert(j, o);
                }
            }
            Ok(Err(m)) => ex.fail("C17:result", m),
            Err(_) => ex.fail("C17:result", "a runtime thread panicked outside pop"),
        }
    }
    drop(pool);
    let kinds: Vec<u8> = scripts.iter().flatten().map(|s| s.kind).collect();
    for (j, k) in kinds.iter().enumerate() {
        let n = sh.exec[j].load(SeqCst);
        if n != 1 {
            ex.fail("C17:exactly-once", format!("asyncify op {j} ran {n} times"));
        }
        let want = if *k == b'p' { Out::Panic } else { Out::Value };
        if finished.get(&j) != Some(&want) {
            ex.fail("C17:result", format!("asyncify op {j}: {:?} reached the submitter instead of {}", finished.get(&j), want.name()));
        }
    }
    let (ev, maxrun) = {
        let l = sh.log.lock().unwrap_or_else(|p| p.into_inner());
        (l.ev.clone(), l.maxrun)
    };
    // begin/end only (dispatch happens inside the driver): the gauge and one-job-per-thread checks
    let mut on: HashMap<usize, usize> = HashMap::new();
    for e in &ev {
        match *e {
            Ev::Begin(w, j) => {
                if on.insert(w, j).is_some() {
                    ex.fail("C17:worker-two-jobs", format!("pool thread {w} started job {j} inside another"));
                }
            }
            Ev::End(w, _) => {
                on.remove(&w);
            }
            _ => {}
        }
    }
    if maxrun > limit {
        ex.fail("F10:asyncify-limit-overshoot", format!("limit={limit} observed={maxrun} jobs running at once ({} runtimes sharing the pool)", scripts.len()));
        ex.tag("prx:overshoot");
    }
    ex.tag(format!("prx:runtimes={}", scripts.len()));
    ex.tag(if dt == DriverType::IoUring { "prx:iour" } else { "prx:poll" });
    ex.nontrivial = kinds.len() >= 2;
    totals(&finished, 0)
}

// ---------------------------------------------------------------------------------------------
// recorded histories

fn exec_hist(case: &Case, ex: &mut Exec) {
    let mut limit = 0usize;
    let mut evs: Vec<Ev> = vec![];
    for (i, line) in case.lines.iter().enumerate() {
        let w: Vec<&str> = line.split_whitespace().collect();
        let out = if i == 0 {
            limit = w.get(1).and_then(|x| x.parse().ok()).unwrap_or(0);
            "ok".to_string()
        } else if w.first() == Some(&"end") {
            let hc = check_history(&evs, limit);
            for (sig, detail) in &hc.problems {
                ex.fail(sig.clone(), detail.clone());
            }
            if hc.maxrun > limit {
                ex.tag("hist:overshoot");
            }
            ex.tag(format!("hist:limit={}", limit.min(9)));
            ex.nontrivial = hc.ok >= 2;
            format!("accept maxrun={} ok={}", hc.maxrun, hc.ok)
        } else if w.first() == Some(&"bad") {
            // a monitor that needs more than the history fired while the history was recorded
            let sig = w.get(1).copied().unwrap_or("C17:recorded").to_string();
            ex.fail(sig, w[2.min(w.len())..].join(" "));
            "violation".into()
        } else {
            match Ev::parse(line) {
                Some(e) => {
                    evs.push(e);
                    ".".into()
                }
                None => "bad-op".into(),
            }
        };
        ex.out.push(out);
    }
}

fn record_hist(name: String, limit: usize, tmo: u64, scripts: &[Vec<Spec>], retry: bool, pace: u64, tail: bool, salt: u64) -> Case {
    let r = run_conc(limit, tmo, scripts, retry, pace, tail, salt);
    let mut lines = vec![format!("hist {limit}")];
    lines.extend(r.ev.iter().map(|e| e.line()));
    // monitors that need more than the history: evaluated now, recorded as `bad` lines
    let mut ex = Exec::new();
    conc_monitors(&mut ex, &r, limit);
    for f in &ex.failures {
        if f.sig != "F10:asyncify-limit-overshoot" && !check_history(&r.ev, limit).problems.iter().any(|(s, _)| *s == f.sig) {
            lines.push(format!("bad {} {}", f.sig, f.detail));
        }
    }
    let _ = r.distinct_workers;
    lines.push("end".into());
    Case { name, lines }
}

// ---------------------------------------------------------------------------------------------

fn exec(case: &Case) -> Exec {
    let t0 = Instant::now();
    let ex = exec_inner(case);
    if std::env::var("C17_TIMING").is_ok() {
        eprintln!("TIMING {} {}", case.name.split('/').take(2).collect::<Vec<_>>().join("/"), t0.elapsed().as_micros());
    }
    ex
}

fn exec_inner(case: &Case) -> Exec {
    let mut ex = Exec::new();
    if abandoned() && !case.lines.first().map(|l| l.starts_with("hist")).unwrap_or(false) {
        ex.out = case.lines.iter().map(|_| "abandoned".to_string()).collect();
        ex.tag("abandoned");
        return ex;
    }
    let first: Vec<&str> = case.lines.first().map(|l| l.split_whitespace().collect()).unwrap_or_default();
    match first.first().copied() {
        Some("hist") => exec_hist(case, &mut ex),
        Some("conc") | Some("prx") | Some("burst") | Some("busyfd") | Some("parked") | Some("collect") | Some("cfg") | Some("dsp") | Some("rawp") => {
            let salt = checksum(case.name.as_bytes());
            for line in &case.lines {
                let w: Vec<&str> = line.split_whitespace().collect();
                let out = match w.first().copied() {
                    Some("conc") if w.len() >= 4 => exec_conc(&w, salt, &mut ex),
                    Some("prx") if w.len() >= 5 => exec_prx(&w, salt, &mut ex),
                    Some("burst") if w.len() == 7 => exec_burst(&w, salt, &mut ex),
                    Some("busyfd") if w.len() == 5 => exec_busyfd(&w, salt, &mut ex),
                    Some("parked") if w.len() == 6 => exec_parked(&w, salt, &mut ex),
                    Some("collect") if w.len() == 7 => exec_collect(&w, &mut ex),
                    Some("cfg") if w.len() == 5 => exec_cfg(&w, salt, &mut ex),
                    Some("dsp") if w.len() == 4 => exec_dsp(&w, salt, &mut ex),
                    Some("rawp") if w.len() == 4 => exec_rawp(&w, salt, &mut ex),
                    _ => "bad-op".into(),
                };
                ex.out.push(out);
            }
            wait_alone();
        }
        _ => exec_det(case, &mut ex),
    }
    ex
}

fn script_text(s: &[Spec]) -> String {
    if s.is_empty() {
        return ".".into();
    }
    s.iter().map(|x| format!("{}{}", x.kind as char, x.dur_us)).collect::<Vec<_>>().join(",")
}

fn gen_scripts(rng: &mut Rng, nd: usize, max_jobs: u64, max_us: u64, raw: bool) -> Vec<Vec<Spec>> {
    (0..nd)
        .map(|_| {
            (0..rng.range(1, max_jobs))
                .map(|_| {
                    let kind = match rng.below(10) {
                        0 | 1 => b'p',
                        2 if raw => b'r',
                        _ => b'v',
                    };
                    let dur_us = match rng.below(4) {
                        0 => 0,
                        1 => rng.range(1, 100),
                        _ => rng.range(100, max_us),
                    };
                    Spec { kind, dur_us }
                })
                .collect()
        })
        .collect()
}

fn gen_det_long(rng: &mut Rng, name: String) -> Case {
    let limit = if rng.chance(1, 25) { 0 } else { rng.range(1, 8) };
    let tmo = *rng.pick(&[5_000u64, 20_000, 60_000]);
    let mut lines = vec![format!("pool {limit} {tmo}")];
    let mut issued: Vec<usize> = vec![];
    let mut next = 0usize;
    for _ in 0..rng.range(3, 24) {
        let r = rng.below(100);
        if r < 55 || issued.is_empty() {
            let k = match rng.below(10) {
                0 | 1 => "p",
                2 => "r",
                _ => "v",
            };
            lines.push(format!("disp {k}"));
            issued.push(next);
            next += 1;
        } else if r < 97 {
            let i = if rng.chance(1, 2) { 0 } else { rng.below(issued.len() as u64) as usize };
            let j = issued.remove(i);
            lines.push(format!("fin {j}"));
        } else {
            lines.push(format!("fin {}", rng.below(next as u64 + 3)));
        }
    }
    Case { name, lines }
}

/// short idle timeout: dispatch only while no worker is parked (after `idle`, or while all live
/// workers are inside gated jobs), so the timer never races with an operation
fn gen_det_short(rng: &mut Rng, name: String, tmo: u64) -> Case {
    let limit = rng.range(1, 5);
    let mut lines = vec![format!("pool {limit} {tmo}")];
    let mut next = 0usize;
    for _ in 0..2 {
        let mut issued = vec![];
        for _ in 0..rng.range(1, limit + 2) {
            let k = match rng.below(8) {
                0 => "p",
                1 => "r",
                _ => "v",
            };
            lines.push(format!("disp {k}"));
            issued.push(next);
            next += 1;
        }
        while !issued.is_empty() {
            let j = issued.remove(rng.below(issued.len() as u64) as usize);
            lines.push(format!("fin {j}"));
        }
        lines.push("idle".into());
    }
    Case { name, lines }
}

fn conc_line(op: &str, limit: u64, tmo: u64, extra: &str, scripts: &[Vec<Spec>]) -> String {
    let sc = scripts.iter().map(|s| script_text(s)).collect::<Vec<_>>().join(" ");
    format!("{op} {limit} {tmo} {extra}{sc}")
}

/// Idle timeouts are >= 50 ms everywhere except in the `strand/*` cases (the dedicated F170
/// scenario): a worker that retires between `thread::spawn` and `sender.send` strands the dispatcher.
fn generate(tier: &str, rng: &mut Rng) -> Vec<Case> {
    let t0 = Instant::now();
    let cases = generate_inner(tier, rng);
    if std::env::var("C17_TIMING").is_ok() {
        eprintln!("TIMING generate {}", t0.elapsed().as_micros());
    }
    cases
}

fn generate_inner(tier: &str, rng: &mut Rng) -> Vec<Case> {
    let thorough = tier == "thorough";
    let mut cases = vec![];
    // 1. forced schedules
    for i in 0..if thorough { 4_000 } else { 300 } {
        cases.push(gen_det_long(rng, format!("det/long/{i}")));
    }
    for i in 0..if thorough { 80 } else { 6 } {
        let tmo = *rng.pick(&[150u64, 200]);
        cases.push(gen_det_short(rng, format!("det/short/{i}"), tmo));
    }
    if thorough {
        for i in 0..3 {
            cases.push(gen_det_short(rng, format!("det/short1s/{i}"), 1000));
        }
        // every operation word over {disp v, disp r, fin oldest, fin newest} up to length 6, limits 1..2
        for limit in 1..=2u64 {
            for len in 1..=6u32 {
                for code in 0..4u32.pow(len) {
                    let mut lines = vec![format!("pool {limit} 20000")];
                    let mut issued: Vec<usize> = vec![];
                    let mut next = 0;
                    let mut c = code;
                    for _ in 0..len {
                        match c % 4 {
                            0 => {
                                lines.push("disp v".into());
                                issued.push(next);
                                next += 1;
                            }
                            1 => {
                                lines.push("disp r".into());
                                issued.push(next);
                                next += 1;
                            }
                            2 => {
                                let j = if issued.is_empty() { 0 } else { issued.remove(0) };
                                lines.push(format!("fin {j}"));
                            }
                            _ => {
                                let j = issued.pop().unwrap_or(1);
                                lines.push(format!("fin {j}"));
                            }
                        }
                        c /= 4;
                    }
                    cases.push(Case { name: format!("det/enum/{limit}/{len}/{code}"), lines });
                }
            }
        }
    }
    // 2. recorded concurrent histories (the real pool runs now; the history is the case)
    for i in 0..if thorough { 1_500 } else { 120 } {
        let nd = rng.range(1, 4) as usize;
        let limit = if i % 3 == 0 { rng.range(1, 4) } else { rng.range(1, 8) };
        let tmo = *rng.pick(&[50u64, 100, 1000]);
        let retry = rng.chance(1, 2);
        let pace = if rng.chance(1, 2) { 0 } else { rng.range(1, 300) };
        let tail = tmo == 50 && rng.chance(1, 8);
        let scripts = gen_scripts(rng, nd, 8, 1500, true);
        let salt = rng.next();
        if abandoned() {
            continue;
        }
        cases.push(record_hist(format!("hist/{i}"), limit as usize, tmo, &scripts, retry, pace, tail, salt));
    }
    // 3. live concurrent runs with the retry loop: raw pool, then Proactors sharing a pool
    for i in 0..if thorough { 400 } else { 30 } {
        let nd = rng.range(1, 4) as usize;
        let limit = if rng.chance(1, 30) { 0 } else { rng.range(1, 8) };
        let tmo = *rng.pick(&[50u64, 1000]);
        let scripts = gen_scripts(rng, nd, 6, 1000, true);
        cases.push(Case { name: format!("conc/{i}"), lines: vec![conc_line("conc", limit, tmo, "", &scripts)] });
    }
    for i in 0..if thorough { 300 } else { 24 } {
        let nd = rng.range(1, 4) as usize;
        let limit = rng.range(1, 8);
        let tmo = *rng.pick(&[50u64, 1000]);
        let scripts = gen_scripts(rng, nd, 5, 800, false);
        let dt = if rng.chance(1, 2) { "u " } else { "p " };
        cases.push(Case { name: format!("prx/{i}"), lines: vec![conc_line("prx", limit, tmo, dt, &scripts)] });
    }
    // 4. the F170 scenario: idle timeout 0..2 ms, every dispatch spawns, so a worker can retire in the
    //    window between `thread::spawn` and `sender.send`; the watchdog reports and rescues
    for i in 0..if thorough { 300 } else { 24 } {
        let nd = rng.range(1, 3) as usize;
        let limit = rng.range(1, 4);
        let tmo = rng.range(0, 2);
        let scripts: Vec<Vec<Spec>> = (0..nd)
            .map(|_| (0..rng.range(20, 60)).map(|_| Spec { kind: b'v', dur_us: rng.below(30) }).collect())
            .collect();
        let (op, extra) = if i % 3 == 2 { ("prx", if rng.chance(1, 2) { "u " } else { "p " }) } else { ("conc", "") };
        cases.push(Case { name: format!("strand/{i}"), lines: vec![conc_line(op, limit, tmo, extra, &scripts)] });
    }
    // 4a. saturation by one dispatcher (the bound without any spawn race), limits 1, 2, 3, 8
    for (i, &limit) in [1usize, 2, 3, 8].iter().enumerate() {
        let mut lines = vec![format!("pool {limit} 20000")];
        let n = limit + 2 + rng.below(3) as usize;
        for _ in 0..n {
            lines.push("disp v".into());
        }
        let mut ids: Vec<usize> = (0..n).collect();
        while !ids.is_empty() {
            let j = ids.remove(rng.below(ids.len() as u64) as usize);
            lines.push(format!("fin {j}"));
            if rng.chance(1, 3) {
                lines.push("disp v".into());
            }
        }
        cases.push(Case { name: format!("det/sat/{i}"), lines });
    }
    // 4c. every public way to collect the result of a blocking job, for value / error / panicking jobs
    let mut k = 0;
    for path in ["pop", "popx", "cancel", "submit", "submitx", "spawnb"] {
        for kind in ["v", "e", "p"] {
            for dt in ["u", "p"] {
                let tag = rng.below(100_000);
                cases.push(Case { name: format!("collect/{k}"), lines: vec![format!("collect {} 1000 {dt} {path} {kind} {tag}", rng.range(1, 3))] });
                k += 1;
            }
        }
    }
    // 4d. configuration extremes through every way to configure the pool
    let mut k = 0usize;
    for via in ["new", "lt", "tl", "reuse", "forcelt", "forcetl"] {
        for tmo in ["0", "1ns", "1ms", "1s", "half", "max"] {
            if matches!(via, "lt" | "tl") && matches!(tmo, "0" | "1ns" | "1ms") {
                continue;
            }
            for limit in ["1", "2", "256", "max"] {
                for dt in ["u", "p"] {
                    k += 1;
                    // quick: limits 1 / 2 on alternating drivers for every (via, timeout), the large limits sampled
                    let keep = thorough
                        || (matches!(limit, "1" | "2") && (k / 2) % 2 == (dt == "u") as usize)
                        || (!matches!(limit, "1" | "2") && k % 8 == 0);
                    if keep {
                        cases.push(Case { name: format!("cfg/{k}"), lines: vec![format!("cfg {via} {limit} {tmo} {dt}")] });
                    }
                }
            }
        }
    }
    // 4a'. one pool behind every entry point of a Dispatcher; slots of pool threads killed by uncaught panics
    {
        let mut k = 0;
        for limit in 1..=if thorough { 6 } else { 3 } {
            for dir in ["in", "out"] {
                for workers in 1..=if thorough { 3 } else { 1 } {
                    let workers = if thorough { workers } else { 1 + (limit + k) % 2 };
                    cases.push(Case { name: format!("dsp/{k}"), lines: vec![format!("dsp {limit} {workers} {dir}")] });
                    k += 1;
                }
            }
        }
        let mut k = 0;
        for limit in 1..=if thorough { 8 } else { 3 } {
            for panics in [0, 1, limit, limit + 1 + rng.range(0, 3) as usize] {
                if panics == 1 && limit == 1 {
                    continue;
                }
                cases.push(Case { name: format!("rawp/{k}"), lines: vec![format!("rawp {limit} {} {panics}", 1000 + 1000 * rng.range(0, 5))] });
                k += 1;
            }
        }
    }
    // 4b. results while a file descriptor is ready on every poll; a shared pool freed by a foreign dispatcher
    for i in 0..if thorough { 60 } else { 8 } {
        let limit = rng.range(1, 4);
        let dt = if i % 2 == 0 { "p " } else { "u " };
        let mut script = gen_scripts(rng, 1, 5, 400, false).remove(0);
        for sp in script.iter_mut() {
            sp.dur_us = sp.dur_us.min(400);
        }
        cases.push(Case { name: format!("busyfd/{i}"), lines: vec![conc_line("busyfd", limit, 1000, dt, &[script])] });
    }
    for i in 0..if thorough { 24 } else { 4 } {
        let limit = if i % 4 == 3 { 2 } else { 1 };
        let dt = if i % 2 == 0 { "u" } else { "p" };
        let hold = rng.range(100, 300);
        cases.push(Case { name: format!("parked/{i}"), lines: vec![format!("parked {limit} 5000 {dt} {hold} 3000")] });
    }
    // 5. bursts through one Proactor with a small ring, pushed without polling (last: a stuck burst
    //    leaves its runtime thread behind and the rest of the run would be abandoned)
    let mut k = 0;
    for &cap in &[1u32, 2, 8] {
        for &limit in &[1usize, 2, 16] {
            for dt in ["u", "p"] {
                let reps = if thorough { 4 } else { 1 };
                for _ in 0..reps {
                    let room = 2 * cap.next_power_of_two() as usize + limit;
                    let n = (room * rng.range(4, 8) as usize).clamp(48, 600);
                    let dur = *rng.pick(&[0u64, 0, 20, 200]);
                    let tmo = *rng.pick(&[1000u64, 5000]);
                    cases.push(Case { name: format!("burst/{k}"), lines: vec![format!("burst {limit} {tmo} {dt} {cap} {n} {dur}")] });
                    k += 1;
                }
            }
        }
    }
    cases
}

fn main() {
    // jobs panic on purpose, also while histories are recorded inside `generate`
    std::panic::set_hook(Box::new(|_| {}));
    run_harness(
        generate,
        exec,
        "non-trivial = at least two jobs accepted by the real pool in the case (forced-schedule cases: >= 2 accepted dispatches; histories / live runs: >= 2 accepted jobs)",
    );
}
