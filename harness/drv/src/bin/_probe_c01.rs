// scratch probe (to be deleted)
use std::{
    os::fd::{AsFd, BorrowedFd, OwnedFd},
    sync::atomic::{AtomicUsize, Ordering},
    time::Duration,
};

use compio_buf::{IoBuf, IoBufMut, SetLen};
use compio_driver::{
    DriverType, Proactor, PushEntry,
    op::{AcceptMulti, Asyncify, Recv, SendZc},
};
use rustix::net::{RecvFlags, SendFlags};

static DROPS: [AtomicUsize; 8] = [const { AtomicUsize::new(0) }; 8];
static FDROPS: [AtomicUsize; 8] = [const { AtomicUsize::new(0) }; 8];

struct Buf {
    id: usize,
    v: Vec<u8>,
}
impl Drop for Buf {
    fn drop(&mut self) {
        DROPS[self.id].fetch_add(1, Ordering::SeqCst);
        eprintln!("   [buf {} dropped]", self.id);
    }
}
impl IoBuf for Buf {
    fn as_init(&self) -> &[u8] {
        &self.v
    }
}
impl SetLen for Buf {
    unsafe fn set_len(&mut self, len: usize) {
        unsafe { self.v.set_len(len) }
    }
}
impl IoBufMut for Buf {
    fn as_uninit(&mut self) -> &mut [std::mem::MaybeUninit<u8>] {
        let cap = self.v.capacity();
        unsafe { std::slice::from_raw_parts_mut(self.v.as_mut_ptr().cast(), cap) }
    }
}
struct Fd {
    id: usize,
    fd: OwnedFd,
}
impl Drop for Fd {
    fn drop(&mut self) {
        FDROPS[self.id].fetch_add(1, Ordering::SeqCst);
        eprintln!("   [fd {} dropped]", self.id);
    }
}
impl AsFd for Fd {
    fn as_fd(&self) -> BorrowedFd<'_> {
        self.fd.as_fd()
    }
}

fn pair() -> (OwnedFd, OwnedFd) {
    let (a, b) = socket2::Socket::pair(socket2::Domain::UNIX, socket2::Type::STREAM, None).unwrap();
    a.set_nonblocking(true).unwrap();
    b.set_nonblocking(true).unwrap();
    (a.into(), b.into())
}

fn mk(dt: DriverType, cap: u32) -> Proactor {
    let mut b = Proactor::builder();
    b.driver_type(dt).capacity(cap);
    b.build().unwrap()
}

fn main() {
    for dt in [DriverType::IoUring, DriverType::Poll] {
        println!("=== {:?}", dt);
        // 1. recv pending, cancel via token, poll
        let mut p = mk(dt, 8);
        println!("driver type = {:?}", p.driver_type());
        let (a, _b) = pair();
        let op = Recv::new(Fd { id: 0, fd: a }, Buf { id: 0, v: Vec::with_capacity(16) }, RecvFlags::empty());
        let PushEntry::Pending(mut key) = p.push(op) else { panic!("ready") };
        println!("poll0 = {:?}", p.poll(Some(Duration::ZERO)).map_err(|e| e.kind()));
        println!("poll0b = {:?}", p.poll(Some(Duration::ZERO)).map_err(|e| e.kind()));
        let t = p.register_cancel(&key);
        println!("cancel_token = {}", p.cancel_token(t.clone()));
        for i in 0..3 {
            println!("poll{} = {:?}", i, p.poll(Some(Duration::ZERO)).map_err(|e| e.kind()));
            match p.pop(key) {
                PushEntry::Pending(k) => {
                    println!(" pending");
                    key = k;
                }
                PushEntry::Ready(r) => {
                    println!(" ready {:?}", r.0.map_err(|e| e.raw_os_error()));
                    break;
                }
            }
            if i == 2 {
                return;
            }
        }
        println!("cancel_token again = {}", p.cancel_token(t));
        drop(p);

        // 2. F9
        for cap in [1u32, 2, 4] {
            let mut p = mk(dt, cap);
            let mut keys = vec![];
            let mut keep = vec![];
            for i in 0..2 {
                let (a, b) = pair();
                keep.push(b);
                let op = Recv::new(Fd { id: i, fd: a }, Buf { id: i, v: Vec::with_capacity(16) }, RecvFlags::empty());
                let PushEntry::Pending(key) = p.push(op) else { panic!("ready") };
                keys.push(key);
            }
            let t = p.register_cancel(&keys[0]);
            let issued = p.cancel_token(t);
            let mut k0 = keys.remove(0);
            let mut done = None;
            for i in 0..20 {
                let _ = p.poll(Some(Duration::ZERO));
                match p.pop(k0) {
                    PushEntry::Pending(k) => k0 = k,
                    PushEntry::Ready(r) => {
                        done = Some((i, r.0.map_err(|e| e.raw_os_error())));
                        break;
                    }
                }
                if i == 19 {
                    std::mem::forget(k0);
                    break;
                }
                std::thread::sleep(Duration::from_millis(1));
            }
            println!("F9 cap={} issued={} done={:?}", cap, issued, done);
            // leak the rest through drop
            drop(keys);
            drop(p);
            println!(" drops after pdrop: {:?}", DROPS.iter().map(|d| d.load(Ordering::SeqCst)).collect::<Vec<_>>());
        }

        // 3. SendZc
        {
            let mut p = mk(dt, 8);
            let (a, b) = pair();
            let op = SendZc::new(Fd { id: 2, fd: a }, Buf { id: 2, v: b"hello".to_vec() }, SendFlags::empty());
            match p.push(op) {
                PushEntry::Pending(mut key) => {
                    for i in 0..5 {
                        let r = p.poll(Some(Duration::ZERO)).map_err(|e| e.kind());
                        let m = p.pop_multishot(&key).map(|r| r.0.map_err(|e| e.raw_os_error()));
                        println!("zc poll{} = {:?} popm={:?}", i, r, m);
                        match p.pop(key) {
                            PushEntry::Pending(k) => key = k,
                            PushEntry::Ready(r) => {
                                println!(" zc ready {:?}", r.0.map_err(|e| e.raw_os_error()));
                                break;
                            }
                        }
                        if i == 4 {
                            return;
                        }
                    }
                }
                PushEntry::Ready(r) => println!("zc ready at once {:?}", r.0.map_err(|e| e.raw_os_error())),
            }
            drop(b);
        }
        // 3b. SendZc + flush + drop (two CQEs in CQ)
        if dt == DriverType::IoUring {
            let mut p = mk(dt, 8);
            let (a, b) = pair();
            let op = SendZc::new(Fd { id: 3, fd: a }, Buf { id: 3, v: b"hello".to_vec() }, SendFlags::empty());
            let PushEntry::Pending(key) = p.push(op) else { panic!() };
            println!("flush = {}", p.flush());
            std::thread::sleep(Duration::from_millis(5));
            println!("dropping proactor with key held; drops[3]={}", DROPS[3].load(Ordering::SeqCst));
            drop(p);
            println!("after drop: drops[3]={} (key still held)", DROPS[3].load(Ordering::SeqCst));
            if DROPS[3].load(Ordering::SeqCst) > 0 {
                std::mem::forget(key);
            } else {
                drop(key);
            }
            println!("after key drop: drops[3]={}", DROPS[3].load(Ordering::SeqCst));
            drop(b);
        }
        // 4. accept multi
        {
            let mut p = mk(dt, 8);
            let l = std::net::TcpListener::bind("127.0.0.1:0").unwrap();
            let addr = l.local_addr().unwrap();
            l.set_nonblocking(true).unwrap();
            let op = AcceptMulti::new(Fd { id: 4, fd: l.into() });
            match p.push(op) {
                PushEntry::Pending(key) => {
                    println!("acc poll = {:?}", p.poll(Some(Duration::ZERO)).map_err(|e| e.kind()));
                    let _c1 = std::net::TcpStream::connect(addr).unwrap();
                    let _c2 = std::net::TcpStream::connect(addr).unwrap();
                    std::thread::sleep(Duration::from_millis(2));
                    println!("acc poll = {:?}", p.poll(Some(Duration::ZERO)).map_err(|e| e.kind()));
                    for _ in 0..3 {
                        let m = p.pop_multishot(&key).map(|r| r.0.map_err(|e| e.raw_os_error()));
                        println!(" popm = {:?}", m);
                    }
                    match p.pop(key) {
                        PushEntry::Pending(k) => {
                            println!(" acc pending");
                            println!(" cancel = {:?}", p.cancel(k).map(|r| r.0.map_err(|e| e.raw_os_error())));
                            println!("acc poll = {:?} fdrops[4]={}", p.poll(Some(Duration::ZERO)).map_err(|e| e.kind()), FDROPS[4].load(Ordering::SeqCst));
                        }
                        PushEntry::Ready(r) => println!(" acc ready {:?}", r.0.map_err(|e| e.raw_os_error())),
                    }
                }
                PushEntry::Ready(r) => println!("acc ready at once {:?}", r.0.map_err(|e| e.raw_os_error())),
            }
        }
        // 5. asyncify gated
        {
            let mut p = mk(dt, 8);
            let (tx, rx) = std::sync::mpsc::channel::<()>();
            let buf = Buf { id: 5, v: vec![1, 2, 3] };
            let op = Asyncify::new(move || {
                rx.recv().ok();
                compio_buf::BufResult(Ok(7), buf)
            });
            let PushEntry::Pending(key) = p.push(op) else { panic!() };
            println!("blk poll = {:?}", p.poll(Some(Duration::ZERO)).map_err(|e| e.kind()));
            println!("blk cancel = {:?}", p.cancel(key).is_some());
            println!(" drops[5]={}", DROPS[5].load(Ordering::SeqCst));
            tx.send(()).unwrap();
            std::thread::sleep(Duration::from_millis(5));
            println!(" after gate drops[5]={}", DROPS[5].load(Ordering::SeqCst));
            println!("blk poll = {:?}", p.poll(Some(Duration::ZERO)).map_err(|e| e.kind()));
            println!(" after poll drops[5]={}", DROPS[5].load(Ordering::SeqCst));
        }
    }
}
