// scratch probe (to be deleted)
use std::{
    os::fd::{AsFd, BorrowedFd, OwnedFd},
    sync::atomic::{AtomicUsize, Ordering},
    time::Duration,
};

use compio_buf::{IoBuf, IoBufMut, SetLen};
use compio_driver::{
    DriverType, Proactor, PushEntry,
    op::{AcceptMulti, Asyncify, Recv, SendZc},
};
use rustix::net::{RecvFlags, SendFlags};

static DROPS: [AtomicUsize; 8] = [const { AtomicUsize::new(0) }; 8];
static FDROPS: [AtomicUsize; 8] = [const { AtomicUsize::new(0) }; 8];

struct Buf {
    id: usize,
    v: Vec<u8>,
}
impl Drop for Buf {
    fn drop(&mut self) {
        DROPS[self.id].fetch_add(1, Ordering::SeqCst);
        eprintln!("   [buf {} dropped]", self.id);
    }
}
impl IoBuf for Buf {
    fn as_init(&self) -> &[u8] {
        &self.v
    }
}
impl SetLen for Buf {
    unsafe fn set_len(&mut self, len: usize) {
        unsafe { self.v.set_len(len) }
    }
}
impl IoBufMut for Buf {
    fn as_uninit(&mut self) -> &mut [std::mem::MaybeUninit<u8>] {
        let cap = self.v.capacity();
        unsafe { std::slice::from_raw_parts_mut(self.v.as_mut_ptr().cast(), cap) }
    }
}
struct Fd {
    id: usize,
    fd: OwnedFd,
}
impl Drop for Fd {
    fn drop(&mut self) {
        FDROPS[self.id].fetch_add(1, Ordering::SeqCst);
        eprintln!("   [fd {} dropped]", self.id);
    }
}
impl AsFd for Fd {
    fn as_fd(&self) -> BorrowedFd<'_> {
        self.fd.as_fd()
    }
}

fn pair() -> (OwnedFd, OwnedFd) {
    let (a, b) = socket2::Socket::pair(socket2::Domain::UNIX, socket2::Type::STREAM, None).unwrap();
    a.set_nonblocking(true).unwrap();
    b.set_nonblocking(true).unwrap();
    (a.into(), b.into())
}

fn mk(dt: DriverType, cap: u32) -> Proactor {
    let mut b = Proactor::builder();
    b.driver_type(dt).capacity(cap);
    b.build().unwrap()
}


fn tcp_pair() -> (OwnedFd, OwnedFd) {
    let l = std::net::TcpListener::bind("127.0.0.1:0").unwrap();
    let a = std::net::TcpStream::connect(l.local_addr().unwrap()).unwrap();
    let (b, _) = l.accept().unwrap();
    a.set_nonblocking(true).unwrap();
    b.set_nonblocking(true).unwrap();
    (a.into(), b.into())
}

fn main() {
    use std::io::Write;
    for dt in [DriverType::IoUring, DriverType::Poll] {
      for nwrite in [1usize, 2, 3] {
        let mut p = mk(dt, 8);
        let (a, b) = pair();
        let a = std::sync::Arc::new(a);
        struct SFd(std::sync::Arc<OwnedFd>);
        impl AsFd for SFd { fn as_fd(&self) -> BorrowedFd<'_> { self.0.as_fd() } }
        let mut keys = vec![];
        for i in 0..3 {
            let op = Recv::new(SFd(a.clone()), Buf { id: i, v: Vec::with_capacity(4) }, RecvFlags::empty());
            let PushEntry::Pending(key) = p.push(op) else { panic!("ready") };
            keys.push(Some(key));
        }
        let _ = p.poll(Some(Duration::ZERO));
        let mut s = std::os::unix::net::UnixStream::from(b.try_clone().unwrap());
        for j in 0..nwrite { s.write_all(&[b'a' + j as u8; 4]).unwrap(); }
        for _ in 0..4 { let _ = p.poll(Some(Duration::ZERO)); }
        let mut out = vec![];
        for i in 0..3 {
            match p.pop(keys[i].take().unwrap()) {
                PushEntry::Pending(k) => { out.push("pending".to_string()); keys[i] = Some(k); }
                PushEntry::Ready(r) => { let (res, op) = (r.0, r.1); use compio_buf::IntoInner; let b = op.into_inner(); out.push(format!("{:?}:{:?}", res.map_err(|e| e.raw_os_error()), String::from_utf8_lossy(&b.v))); }
            }
        }
        println!("{:?} nwrite={} -> {:?}", dt, nwrite, out);
        // cancel middle one if pending, via token
        if let Some(k) = keys[1].as_ref() {
            let t = p.register_cancel(k);
            println!("  cancel mid = {}", p.cancel_token(t));
            for _ in 0..3 { let _ = p.poll(Some(Duration::ZERO)); }
            for i in 0..3 { if let Some(k) = keys[i].take() { match p.pop(k) {
                PushEntry::Pending(k) => { println!("  {} pending", i); keys[i] = Some(k); }
                PushEntry::Ready(r) => println!("  {} {:?}", i, r.0.map_err(|e| e.raw_os_error())),
            }}}
        }
        for k in keys.into_iter().flatten() { p.cancel(k); }
      }
    }
}
