// scratch probe (to be deleted)
use std::{
    os::fd::{AsFd, BorrowedFd, OwnedFd},
    sync::atomic::{AtomicUsize, Ordering},
    time::Duration,
};

use compio_buf::{IoBuf, IoBufMut, SetLen};
use compio_driver::{
    DriverType, Proactor, PushEntry,
    op::{AcceptMulti, Asyncify, Recv, SendZc},
};
use rustix::net::{RecvFlags, SendFlags};

static DROPS: [AtomicUsize; 8] = [const { AtomicUsize::new(0) }; 8];
static FDROPS: [AtomicUsize; 8] = [const { AtomicUsize::new(0) }; 8];

struct Buf {
    id: usize,
    v: Vec<u8>,
}
impl Drop for Buf {
    fn drop(&mut self) {
        DROPS[self.id].fetch_add(1, Ordering::SeqCst);
        eprintln!("   [buf {} dropped]", self.id);
    }
}
impl IoBuf for Buf {
    fn as_init(&self) -> &[u8] {
        &self.v
    }
}
impl SetLen for Buf {
    unsafe fn set_len(&mut self, len: usize) {
        unsafe { self.v.set_len(len) }
    }
}
impl IoBufMut for Buf {
    fn as_uninit(&mut self) -> &mut [std::mem::MaybeUninit<u8>] {
        let cap = self.v.capacity();
        unsafe { std::slice::from_raw_parts_mut(self.v.as_mut_ptr().cast(), cap) }
    }
}
struct Fd {
    id: usize,
    fd: OwnedFd,
}
impl Drop for Fd {
    fn drop(&mut self) {
        FDROPS[self.id].fetch_add(1, Ordering::SeqCst);
        eprintln!("   [fd {} dropped]", self.id);
    }
}
impl AsFd for Fd {
    fn as_fd(&self) -> BorrowedFd<'_> {
        self.fd.as_fd()
    }
}

fn pair() -> (OwnedFd, OwnedFd) {
    let (a, b) = socket2::Socket::pair(socket2::Domain::UNIX, socket2::Type::STREAM, None).unwrap();
    a.set_nonblocking(true).unwrap();
    b.set_nonblocking(true).unwrap();
    (a.into(), b.into())
}

fn mk(dt: DriverType, cap: u32) -> Proactor {
    let mut b = Proactor::builder();
    b.driver_type(dt).capacity(cap);
    b.build().unwrap()
}


fn tcp_pair() -> (OwnedFd, OwnedFd) {
    let l = std::net::TcpListener::bind("127.0.0.1:0").unwrap();
    let a = std::net::TcpStream::connect(l.local_addr().unwrap()).unwrap();
    let (b, _) = l.accept().unwrap();
    a.set_nonblocking(true).unwrap();
    b.set_nonblocking(true).unwrap();
    (a.into(), b.into())
}
fn main() {
    let dt = DriverType::IoUring;
    for round in 0..3 {
        let mut p = mk(dt, 8);
        let (a, b) = tcp_pair();
        let op = SendZc::new(Fd { id: 2, fd: a }, Buf { id: 2, v: b"hello".to_vec() }, SendFlags::empty());
        match p.push(op) {
            PushEntry::Pending(mut key) => {
                for i in 0..6 {
                    let r = p.poll(Some(Duration::ZERO)).map_err(|e| e.kind());
                    let m = p.pop_multishot(&key).map(|r| r.0.map_err(|e| e.raw_os_error()));
                    println!("zc poll{} = {:?} popm={:?}", i, r, m);
                    match p.pop(key) {
                        PushEntry::Pending(k) => key = k,
                        PushEntry::Ready(r) => {
                            println!(" zc ready {:?}", r.0.map_err(|e| e.raw_os_error()));
                            break;
                        }
                    }
                    if i == 2 && round > 0 {
                        use std::io::Read;
                        let mut s = std::net::TcpStream::from(b.try_clone().unwrap());
                        let mut bb = [0u8; 16];
                        println!("  peer read {:?}", s.read(&mut bb));
                    }
                    if i == 5 { std::mem::forget(key); break; }
                }
            }
            PushEntry::Ready(r) => println!("zc ready at once {:?}", r.0.map_err(|e| e.raw_os_error())),
        }
        drop(b);
    }
    // flush + drop variant on tcp
    {
        let mut p = mk(dt, 8);
        let (a, b) = tcp_pair();
        let op = SendZc::new(Fd { id: 3, fd: a }, Buf { id: 3, v: b"hello".to_vec() }, SendFlags::empty());
        let PushEntry::Pending(key) = p.push(op) else { panic!() };
        println!("flush = {}", p.flush());
        std::thread::sleep(Duration::from_millis(5));
        drop(p);
        println!("after drop: drops[3]={} (key still held)", DROPS[3].load(Ordering::SeqCst));
        if DROPS[3].load(Ordering::SeqCst) > 0 { std::mem::forget(key); } else { drop(key); }
        drop(b);
    }
    // accept multi: two pending connections in CQ at drop, key held
    {
        let mut p = mk(dt, 8);
        let l = std::net::TcpListener::bind("127.0.0.1:0").unwrap();
        let addr = l.local_addr().unwrap();
        l.set_nonblocking(true).unwrap();
        let op = AcceptMulti::new(Fd { id: 4, fd: l.into() });
        let PushEntry::Pending(key) = p.push(op) else { panic!() };
        println!("acc poll = {:?}", p.poll(Some(Duration::ZERO)).map_err(|e| e.kind()));
        let _c1 = std::net::TcpStream::connect(addr).unwrap();
        let _c2 = std::net::TcpStream::connect(addr).unwrap();
        std::thread::sleep(Duration::from_millis(2));
        drop(p);
        println!("after drop: fdrops[4]={} (key still held)", FDROPS[4].load(Ordering::SeqCst));
        if FDROPS[4].load(Ordering::SeqCst) > 0 { std::mem::forget(key); } else { drop(key); }
    }
    // accept multi: ONE pending connection in CQ at drop, user key dropped: freed before ring close (benign order)
    {
        let mut p = mk(dt, 8);
        let l = std::net::TcpListener::bind("127.0.0.1:0").unwrap();
        let addr = l.local_addr().unwrap();
        l.set_nonblocking(true).unwrap();
        let op = AcceptMulti::new(Fd { id: 5, fd: l.into() });
        let PushEntry::Pending(key) = p.push(op) else { panic!() };
        println!("acc poll = {:?}", p.poll(Some(Duration::ZERO)).map_err(|e| e.kind()));
        let _c1 = std::net::TcpStream::connect(addr).unwrap();
        std::thread::sleep(Duration::from_millis(2));
        drop(key);
        drop(p);
        println!("after drop: fdrops[5]={}", FDROPS[5].load(Ordering::SeqCst));
    }
}
