// scratch probe (will be replaced by the harness)
use std::{
    os::fd::{AsFd, AsRawFd, BorrowedFd, FromRawFd, OwnedFd},
    time::Duration,
};

use compio_driver::{DriverType, Proactor, PushEntry, op::*};

struct Fdw(i32);
impl AsFd for Fdw {
    fn as_fd(&self) -> BorrowedFd<'_> {
        unsafe { BorrowedFd::borrow_raw(self.0) }
    }
}

fn mkpipe() -> (OwnedFd, OwnedFd) {
    let mut fds = [0i32; 2];
    let r = unsafe { libc::pipe2(fds.as_mut_ptr(), libc::O_NONBLOCK | libc::O_CLOEXEC) };
    assert_eq!(r, 0);
    unsafe { (OwnedFd::from_raw_fd(fds[0]), OwnedFd::from_raw_fd(fds[1])) }
}

fn wr(fd: i32, b: &[u8]) -> isize {
    unsafe { libc::write(fd, b.as_ptr() as _, b.len()) }
}
fn rd(fd: i32, n: usize) -> Vec<u8> {
    let mut v = vec![0u8; n];
    let k = unsafe { libc::read(fd, v.as_mut_ptr() as _, n) };
    if k < 0 {
        return vec![];
    }
    v.truncate(k as usize);
    v
}

fn main() {
    for ty in [DriverType::Poll, DriverType::IoUring] {
        for order in 0..3 {
            let mut p = Proactor::builder().driver_type(ty).capacity(4).build().unwrap();
            let (ar, aw) = mkpipe();
            let (br, bw) = mkpipe();
            // make B one slot and full
            let r = unsafe { libc::fcntl(bw.as_raw_fd(), libc::F_SETPIPE_SZ, 4096) };
            assert!(r >= 0, "setpipe {r}");
            if order != 2 {
                assert_eq!(wr(bw.as_raw_fd(), b"x"), 1);
            } else {
                assert_eq!(wr(aw.as_raw_fd(), b"hello"), 5);
            }
            let op = Splice::new(
                Fdw(ar.as_raw_fd()),
                -1,
                Fdw(bw.as_raw_fd()),
                -1,
                100,
                rustix::pipe::SpliceFlags::NONBLOCK,
            );
            let key = match p.push(op) {
                PushEntry::Pending(k) => k,
                PushEntry::Ready(r) => {
                    println!("{ty:?} ready at push {:?}", r.0);
                    continue;
                }
            };
            let mut key_opt = Some(key);
            let mut st = |p: &mut Proactor, tag: &str| {
                if let Some(k) = key_opt.take() {
                    let _ = p.poll(Some(Duration::ZERO));
                    match p.pop(k) {
                        PushEntry::Pending(k) => {
                            println!("{ty:?} order={order} {tag}: pending");
                            key_opt = Some(k);
                        }
                        PushEntry::Ready(r) => println!("{ty:?} order={order} {tag}: ready {:?}", r.0),
                    }
                }
            };
            st(&mut p, "initial");
            if order == 0 {
                assert_eq!(rd(br.as_raw_fd(), 10).len(), 1);
                st(&mut p, "after-drain");
                st(&mut p, "after-drain2");
                assert_eq!(wr(aw.as_raw_fd(), b"hello"), 5);
                st(&mut p, "after-feed");
                st(&mut p, "after-feed2");
                st(&mut p, "after-feed3");
            } else if order == 1 {
                assert_eq!(wr(aw.as_raw_fd(), b"hello"), 5);
                st(&mut p, "after-feed");
                st(&mut p, "after-feed2");
                assert_eq!(rd(br.as_raw_fd(), 10).len(), 1);
                st(&mut p, "after-drain");
                st(&mut p, "after-drain2");
                st(&mut p, "after-drain3");
            } else {
                st(&mut p, "p2");
                st(&mut p, "p3");
            }
        }
    }
}
