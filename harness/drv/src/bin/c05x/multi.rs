//! C05, multi-descriptor operations (seeded/C05-4a): `Splice` pipe A -> pipe B is the one operation of the polling driver
//! that waits on TWO descriptors (A readable + B writable); on io_uring it is one SQE that blocks in io-wq.
//!
//! Case = first line `mfd <iour|poll> <fed 0|1>` (B is always full at the start; `fed`: 5 bytes wait in A), then
//!   msplice            push `Splice(A.read -> B.write, 5 bytes)`                -> pending | ready:<res>
//!   mcancel <i> <cancel|token|ccancel>                                           -> none | some:<res> | true | false
//!   mpoll              poll to quiescence                                        -> ok
//!   mfeed              write 5 bytes into A                                      -> ok
//!   mdrain             empty B (it becomes writable)                             -> ok
//!   mpop <i>           `Proactor::pop`                                           -> pending | ok:n | err:n | panic | nokey
//!   mstate             bytes waiting in A, bytes that reached B beyond the fill  -> in:<n> moved:<n>
//! Monitors (implementation only): `C05:cancelled-op-ran`, `C05:cancel-not-prompt`, `C05:neighbour-stuck`.

use std::{
    os::fd::{AsRawFd, FromRawFd, OwnedFd, RawFd},
    sync::Arc,
    time::Duration,
};

use compio_buf::BufResult;
use compio_driver::{DriverType, Key, Proactor, ProactorBuilder, PushEntry, op::Splice};
use hx_common::{Case, Exec, catch};
use rustix::pipe::SpliceFlags;

type Op = Splice<Arc<OwnedFd>, Arc<OwnedFd>>;

struct Rec {
    key: Option<Key<Op>>,
    /// cancelled while it could not make progress (B full or A empty) and nothing had been moved for it: from then on
    /// the operation is finished with a cancellation error and must never move a byte
    dead: bool,
    cancelled: bool,
    finished: bool,
}

pub struct World {
    p: Proactor,
    iour: bool,
    a_r: Arc<OwnedFd>,
    a_w: OwnedFd,
    b_r: OwnedFd,
    b_w: Arc<OwnedFd>,
    filled: usize,
    drained: usize,
    fed: usize,
    b_full: bool,
    ops: Vec<Rec>,
    ok_moved: usize,
}

fn pipe2() -> (RawFd, RawFd) {
    let mut fds = [0 as RawFd; 2];
    let r = unsafe { libc::pipe2(fds.as_mut_ptr(), libc::O_NONBLOCK | libc::O_CLOEXEC) };
    assert_eq!(r, 0);
    (fds[0], fds[1])
}

fn fionread(fd: RawFd) -> usize {
    let mut n: libc::c_int = 0;
    unsafe { libc::ioctl(fd, libc::FIONREAD, &mut n) };
    n as usize
}

impl World {
    fn new(drv: &str, fed: bool) -> Result<Self, String> {
        let iour = drv == "iour";
        let mut pb = ProactorBuilder::new();
        pb.driver_type(if iour { DriverType::IoUring } else { DriverType::Poll }).capacity(64);
        let p = pb.build().map_err(|e| format!("build-err:{e}"))?;
        let (ar, aw) = pipe2();
        let (br, bw) = pipe2();
        let chunk = [0x55u8; 4096];
        let mut filled = 0;
        loop {
            let n = unsafe { libc::write(bw, chunk.as_ptr().cast(), chunk.len()) };
            if n <= 0 {
                break;
            }
            filled += n as usize;
        }
        if iour {
            // io_uring does not poll for a splice; blocking ends keep it in flight (io-wq) until it can proceed / is cancelled
            for fd in [ar, bw] {
                unsafe {
                    let fl = libc::fcntl(fd, libc::F_GETFL);
                    libc::fcntl(fd, libc::F_SETFL, fl & !libc::O_NONBLOCK);
                }
            }
        }
        let mut w = unsafe {
            World {
                p,
                iour,
                a_r: Arc::new(OwnedFd::from_raw_fd(ar)),
                a_w: OwnedFd::from_raw_fd(aw),
                b_r: OwnedFd::from_raw_fd(br),
                b_w: Arc::new(OwnedFd::from_raw_fd(bw)),
                filled,
                drained: 0,
                fed: 0,
                b_full: true,
                ops: vec![],
                ok_moved: 0,
            }
        };
        if fed {
            w.feed();
        }
        Ok(w)
    }

    fn feed(&mut self) {
        let n = unsafe { libc::write(self.a_w.as_raw_fd(), b"hello".as_ptr().cast(), 5) };
        assert_eq!(n, 5);
        self.fed += 5;
    }

    fn moved(&self) -> usize {
        (self.drained + fionread(self.b_r.as_raw_fd())).saturating_sub(self.filled)
    }

    fn settle(&mut self) {
        let t = Duration::from_millis(if self.iour { 15 } else { 4 });
        let mut idle = 0;
        for _ in 0..40 {
            match self.p.poll(Some(t)) {
                Ok(()) => idle = 0,
                Err(_) => idle += 1,
            }
            if idle >= 2 {
                break;
            }
        }
    }

    fn show(res: &std::io::Result<usize>) -> String {
        match res {
            Ok(n) => format!("ok:{n}"),
            Err(e) => format!("err:{}", e.raw_os_error().unwrap_or(0)),
        }
    }

    fn monitors(&mut self, ex: &mut Exec, at: &str) {
        let moved = self.moved();
        let may = self.ops.iter().filter(|o| !o.dead).count() * 5;
        if moved > may {
            ex.fail(
                "C05:cancelled-op-ran",
                format!("after `{at}`: {moved} bytes reached the output pipe, but only {} operation(s) were not cancelled while parked (5 bytes each): an operation that was reported cancelled ran afterwards and moved data", may / 5),
            );
        }
        let consumed = self.fed - fionread(self.a_r.as_raw_fd());
        if consumed > may {
            ex.fail("C05:cancelled-op-ran", format!("after `{at}`: {consumed} bytes were consumed from the input pipe, at most {may} may be (cancelled operations must not run)"));
        }
    }

    fn line(&mut self, ex: &mut Exec, w: &[&str]) -> String {
        match w {
            ["msplice"] => {
                let flags = if self.iour { SpliceFlags::empty() } else { SpliceFlags::NONBLOCK };
                let op = Splice::new(self.a_r.clone(), -1, self.b_w.clone(), -1, 5, flags);
                match self.p.push(op) {
                    PushEntry::Pending(key) => {
                        self.ops.push(Rec { key: Some(key), dead: false, cancelled: false, finished: false });
                        "pending".into()
                    }
                    PushEntry::Ready(BufResult(res, _)) => {
                        self.ops.push(Rec { key: None, dead: false, cancelled: false, finished: true });
                        format!("ready:{}", Self::show(&res))
                    }
                }
            }
            ["mpoll"] => {
                self.settle();
                self.monitors(ex, "mpoll");
                "ok".into()
            }
            ["mfeed"] => {
                self.feed();
                "ok".into()
            }
            ["mdrain"] => {
                let mut buf = [0u8; 4096];
                loop {
                    let n = unsafe { libc::read(self.b_r.as_raw_fd(), buf.as_mut_ptr().cast(), buf.len()) };
                    if n <= 0 {
                        break;
                    }
                    self.drained += n as usize;
                }
                self.b_full = false;
                "ok".into()
            }
            ["mstate"] => {
                self.monitors(ex, "mstate");
                format!("in:{} moved:{}", fionread(self.a_r.as_raw_fd()), self.moved())
            }
            ["mcancel", i, route] => {
                let Some(i) = i.parse::<usize>().ok().filter(|i| *i < self.ops.len()) else { return "bad-op".into() };
                if self.ops[i].key.is_none() {
                    return "nokey".into();
                }
                let parked = !self.ops[i].finished && (self.b_full || fionread(self.a_r.as_raw_fd()) == 0) && self.moved() == 0;
                let out = match *route {
                    "cancel" => {
                        let key = self.ops[i].key.take().unwrap();
                        match self.p.cancel(key) {
                            None => "none".to_string(),
                            Some(BufResult(res, _)) => {
                                self.ops[i].finished = true;
                                if let Ok(n) = res {
                                    self.ok_moved += n;
                                }
                                format!("some:{}", Self::show(&res))
                            }
                        }
                    }
                    "token" => {
                        let t = self.p.register_cancel(self.ops[i].key.as_ref().unwrap());
                        format!("{}", self.p.cancel_token(t))
                    }
                    "ccancel" => {
                        let k = self.ops[i].key.as_ref().unwrap().clone();
                        let _ = self.p.cancel(k);
                        "none".to_string()
                    }
                    _ => return "bad-op".into(),
                };
                if !self.ops[i].cancelled && !self.ops[i].finished && parked {
                    self.ops[i].dead = true;
                }
                self.ops[i].cancelled = true;
                out
            }
            ["mpop", i] => {
                let Some(i) = i.parse::<usize>().ok().filter(|i| *i < self.ops.len()) else { return "bad-op".into() };
                let Some(key) = self.ops[i].key.take() else { return "nokey".into() };
                let dead = self.ops[i].dead;
                let p = &mut self.p;
                let out = match catch(std::panic::AssertUnwindSafe(|| p.pop(key))) {
                    Err(e) => {
                        if dead {
                            ex.fail("C05:cancel-not-prompt", format!("op {i} (two descriptors) was cancelled while parked and the driver was polled to quiescence, `pop` panics: {e} (the driver still holds a reference to the operation)"));
                        }
                        self.ops[i].finished = true;
                        "panic".to_string()
                    }
                    Ok(PushEntry::Pending(k)) => {
                        self.ops[i].key = Some(k);
                        "pending".to_string()
                    }
                    Ok(PushEntry::Ready(BufResult(res, _))) => {
                        self.ops[i].finished = true;
                        if let Ok(n) = res {
                            self.ok_moved += n;
                            if dead {
                                ex.fail("C05:fabricated-success", format!("op {i} was cancelled while it could not make progress, yet reports {n} bytes"));
                            }
                        }
                        // io_uring only: a splice that already blocks in io-wq answers the AsyncCancel with -ERESTARTSYS (512)
                        // instead of -ECANCELED (the kernel interrupts the worker; which of the two is a race inside the
                        // kernel). For an operation that WAS cancelled both are the kernel's "interrupted by your cancel";
                        // printed canonically as err:125 and tagged.
                        if self.iour && self.ops[i].cancelled && matches!(&res, Err(e) if e.raw_os_error() == Some(512)) {
                            ex.tag("multi:iour-erestartsys-for-cancel");
                            "err:125".to_string()
                        } else {
                            Self::show(&res)
                        }
                    }
                };
                if out == "pending" {
                    let can_run = !self.b_full && fionread(self.a_r.as_raw_fd()) > 0;
                    if self.ops[i].cancelled {
                        ex.fail("C05:cancel-not-prompt", format!("op {i} (two descriptors) still pending after cancel + poll to quiescence"));
                    } else if can_run && self.ops.iter().enumerate().all(|(j, o)| j == i || o.cancelled || o.finished) {
                        ex.fail("C05:neighbour-stuck", format!("op {i} was never cancelled, its input has data and its output has room, every other operation is cancelled or finished, the driver was polled to quiescence — still pending"));
                    }
                }
                out
            }
            _ => "bad-op".into(),
        }
    }
}

/// execute a `mfd` case
pub fn exec_multi(case: &Case, emit: &mut dyn FnMut(&str)) -> Exec {
    let mut ex = Exec::new();
    let first: Vec<&str> = case.lines[0].split_whitespace().collect();
    let mut world = match first.as_slice() {
        ["mfd", d @ ("iour" | "poll"), fed @ ("0" | "1")] => World::new(d, *fed == "1"),
        _ => Err("bad-op".into()),
    };
    for (n, l) in case.lines.iter().enumerate() {
        let out = if n == 0 {
            match &world {
                Ok(_) => "ok".to_string(),
                Err(e) => e.clone(),
            }
        } else {
            let words: Vec<&str> = l.split_whitespace().collect();
            match &mut world {
                Ok(w) => match catch(std::panic::AssertUnwindSafe(|| w.line(&mut ex, &words))) {
                    Ok(o) => o,
                    Err(e) => format!("harness-panic:{e}"),
                },
                Err(_) => "noworld".into(),
            }
        };
        emit(&out);
        ex.out.push(out);
    }
    if let Ok(w) = &mut world {
        w.settle();
        w.monitors(&mut ex, "end of case");
        ex.tag(format!("multi:{}", if w.iour { "iour" } else { "poll" }));
        if w.ops.iter().any(|o| o.dead) {
            ex.tag("multi:cancelled-while-parked");
        }
        // give the keys back before the proactor goes away
        for o in w.ops.iter_mut() {
            if let Some(k) = o.key.take() {
                let _ = w.p.cancel(k);
            }
        }
        w.settle();
    }
    ex.nontrivial = ex.out.iter().any(|o| o == "pending") && case.lines.iter().any(|l| l.starts_with("mcancel"));
    ex
}
