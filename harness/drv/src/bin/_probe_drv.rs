fn main() {}
