//! C01 — in-flight operations keep their memory and descriptors alive.
//!
//! Correspondence harness + monitors on the real `compio_driver::Proactor` (fusion build: io_uring and
//! polling selected at run time). The line protocol and the interpreter are in `keylife/mod.rs`, the model
//! side is lean/Compio/Model/KeyLifeScript.lean (driver `c01d`).

#[path = "keylife/mod.rs"]
mod keylife;

use hx_common::{Case, Rng, run_harness};
use keylife::{CAPS, DRIVERS, Weights, case, epilogue, exec_isolated, random_program, worker_main};

/// every way to get rid of one pending op × when the kernel / the harness makes it ready
fn single_op_family(out: &mut Vec<Case>, rng: &mut Rng, caps: &[u32]) {
    let kinds: [(&'static str, usize); 4] = [("rd", 0), ("acc", 4), ("zc", 7), ("blk", 0)];
    let routes = ["cancel", "drop", "token", "ccancel", "keep"];
    // 0: nothing arrives; 1: ready before the first poll; 2: ready after the first poll
    for drv in DRIVERS {
        for &cap in caps {
            for (kind, slot) in kinds {
                // a zero-copy send must not be submitted by the `push_raw` overflow loop: its notification CQE shows
                // up a moment after the submit, the drain in the same call may or may not see it
                let cap = if kind == "zc" && cap < 4 { 4 } else { cap };
                for route in routes {
                    for timing in 0..3 {
                        for polled in [false, true] {
                            for pdrop_first in [false, true] {
                                let mut l = vec![format!("cfg {drv} {cap}"), format!("push {kind} {slot}")];
                                let evt = |l: &mut Vec<String>| {
                                    if kind == "blk" {
                                        l.push("gate 0".into())
                                    } else if kind != "zc" {
                                        l.push(format!("ready {slot} 1"))
                                    }
                                };
                                if timing == 1 {
                                    evt(&mut l);
                                }
                                if polled {
                                    l.push("poll".into());
                                }
                                if timing == 2 {
                                    evt(&mut l);
                                }
                                match route {
                                    "cancel" => l.push("cancel 0".into()),
                                    "drop" => l.push("drop 0".into()),
                                    "token" => {
                                        l.push("token 0".into());
                                        l.push("tcancel 0".into());
                                    }
                                    "ccancel" => l.push("ccancel 0".into()),
                                    _ => {}
                                }
                                let mut alive = true;
                                if pdrop_first {
                                    // unseen multishot CQEs + drop(proactor) is finding F13: separate family
                                    if drv == "iour" && (kind == "acc" || kind == "zc") && timing == 2 {
                                        l.push("poll".into());
                                    }
                                    l.push("pdrop".into());
                                    alive = false;
                                } else {
                                    l.push("poll".into());
                                    if kind == "acc" || kind == "zc" {
                                        l.push("popm 0".into());
                                    }
                                    l.push("pop 0".into());
                                }
                                epilogue(rng, &mut l, &[(kind, kind == "blk" && timing == 0)], alive, false);
                                out.push(case(
                                    format!("one/{drv}/{cap}/{kind}/{route}/t{timing}/{}{}", if polled { "p" } else { "n" }, if pdrop_first { "D" } else { "P" }),
                                    l,
                                ));
                            }
                        }
                    }
                }
            }
        }
    }
}

/// regression family of finding F13 (repaired): `impl Drop for iour::Driver` used to turn every CQE of the drained
/// completion queue back into a key, also the ones flagged `more`
fn f13_family(out: &mut Vec<Case>) {
    for cap in [4u32, 1024] {
        // zero-copy send: send CQE (more) + notification CQE unseen, caller still holds the key
        out.push(case(
            format!("f13/zc-held/{cap}"),
            vec![format!("cfg iour {cap}"), "push zc 6".into(), "flush".into(), "pdrop".into(), "end".into()],
        ));
        // multishot accept with two unseen connections, caller still holds the key
        out.push(case(
            format!("f13/acc2-held/{cap}"),
            vec![format!("cfg iour {cap}"), "push acc 4".into(), "poll".into(), "ready 4 2".into(), "pdrop".into(), "end".into()],
        ));
        // one unseen `more` CQE, key already dropped: released before the ring is closed while still armed
        out.push(case(
            format!("f13/acc1-dropped/{cap}"),
            vec![format!("cfg iour {cap}"), "push acc 4".into(), "poll".into(), "ready 4 1".into(), "drop 0".into(), "pdrop".into(), "end".into()],
        ));
        out.push(case(
            format!("f13/acc1-held/{cap}"),
            vec![format!("cfg iour {cap}"), "push acc 4".into(), "poll".into(), "ready 4 1".into(), "pdrop".into(), "drop 0".into(), "end".into()],
        ));
    }
}

/// polling driver: the poller's registration of a descriptor carries the address of the FRONT key of its queue. An op at
/// (or near) the front is cancelled and released, unrelated receives re-use its storage, then the descriptor becomes
/// ready chunk by chunk: every chunk must reach the live front waiter (`C01:stale-poller-key`)
fn stale_key_family(out: &mut Vec<Case>, rng: &mut Rng) {
    for n in [2usize, 3] {
        for victim in 0..n - 1 {
            for route in ["cancel", "token", "ccancel"] {
                for decoys in [0usize, 3] {
                    let mut l = vec!["cfg poll 8".to_string()];
                    for _ in 0..n {
                        l.push("push rd 0".into());
                    }
                    match route {
                        "cancel" => l.push(format!("cancel {victim}")),
                        "token" => {
                            l.push(format!("token {victim}"));
                            l.push(format!("tcancel {victim}"));
                        }
                        _ => l.push(format!("ccancel {victim}")),
                    }
                    // the cancellation is reported; collecting / dropping the key releases the op's storage
                    l.push("poll".into());
                    l.push(format!("pop {victim}"));
                    l.push(format!("drop {victim}"));
                    let mut ops: Vec<(&'static str, bool)> = (0..n).map(|_| ("rd", false)).collect();
                    for _ in 0..decoys {
                        l.push("push rd 1".into());
                        ops.push(("rd", false));
                    }
                    for _ in 0..n - 1 {
                        l.push("ready 0 1".into());
                        l.push("poll".into());
                        for i in (0..n).rev().filter(|i| *i != victim) {
                            l.push(format!("pop {i}"));
                        }
                    }
                    epilogue(rng, &mut l, &ops, true, false);
                    out.push(case(format!("stale/n{n}/v{victim}/{route}/d{decoys}"), l));
                }
            }
        }
    }
}

/// small rings filled EXACTLY (capacity 1, 2, 4 receives on idle sockets, nothing completes): every push must answer
/// `pending`; the sockets then become ready one by one and every op completes with its own data. An op that `push` hands
/// back with an error belongs to the caller again — the kernel must not write into its buffer
/// (`C01:returned-op-still-in-kernel`)
fn fill_family(out: &mut Vec<Case>, rng: &mut Rng) {
    for cap in [1u32, 2, 4] {
        for polled in [false, true] {
            for extra in [0usize, 1] {
                let n = cap as usize + extra;
                let mut l = vec![format!("cfg iour {cap}")];
                let mut ops = vec![];
                for i in 0..n {
                    l.push(format!("push rd {}", i % 4));
                    ops.push(("rd", false));
                    if polled && i + 1 == cap as usize {
                        l.push("poll".into());
                    }
                }
                for sl in 0..n.min(4) {
                    let k = (0..n).filter(|i| i % 4 == sl).count();
                    l.push(format!("ready {sl} {k}"));
                }
                l.push("poll".into());
                for i in 0..n {
                    l.push(format!("pop {i}"));
                }
                epilogue(rng, &mut l, &ops, true, false);
                out.push(case(format!("fill/{cap}/{extra}/{polled}"), l));
            }
        }
    }
}

/// submission-queue overflow: more pushes than SQ entries before the first submit
fn overflow_family(out: &mut Vec<Case>, rng: &mut Rng) {
    for cap in [1u32, 2, 4] {
        for n in [cap as usize + 1, cap as usize + 2] {
            for ready_first in [false, true] {
                let mut l = vec![format!("cfg iour {cap}")];
                let mut ops = vec![];
                if ready_first {
                    l.push("ready 0 1".into());
                }
                for i in 0..n.min(6) {
                    l.push(format!("push rd {}", i % 3));
                    ops.push(("rd", false));
                }
                l.push("pop 0".into());
                l.push("poll".into());
                l.push("pop 0".into());
                epilogue(rng, &mut l, &ops, true, false);
                out.push(case(format!("overflow/{cap}/{n}/{ready_first}"), l));
            }
        }
    }
}

/// multi-descriptor operation (`Splice` pipe -> pipe: two `WaitArg`s on the polling driver, one SQE on io_uring) cancelled /
/// dropped while parked on both ends, then the SECOND descriptor (output end) becomes ready: after the cancellation was
/// reported nothing may keep the op alive or registered (`C01:cancelled-multifd-op-still-held`), no data moves
fn multifd_family(out: &mut Vec<Case>, rng: &mut Rng, thorough: bool) {
    for drv in DRIVERS {
        for n in [1usize, 2, 3] {
            for shared in [false, true] {
                if n == 1 && shared {
                    continue;
                }
                for victim in 0..n {
                    for route in ["cancel", "drop", "keep"] {
                        for tail in ["ready-poll", "poll-ready-poll", "pdrop", "poll-pdrop"] {
                            let mut l = vec![format!("mfd {drv}")];
                            let pair_of = |i: usize| if shared { 0 } else { i };
                            for i in 0..n {
                                l.push(format!("spl {}", pair_of(i)));
                            }
                            match route {
                                "cancel" => l.push(format!("mcancel {victim}")),
                                "drop" => l.push(format!("mdrop {victim}")),
                                _ => {}
                            }
                            // readiness of a pair only once nothing is parked on it any more
                            let free = route == "cancel" && (!shared || n == 1);
                            for t in tail.split('-') {
                                match t {
                                    "ready" if free => {
                                        // io_uring: the AsyncCancel must have been submitted and reaped first (until then the
                                        // kernel may still legitimately complete the splice)
                                        if drv == "iour" {
                                            l.push("mpoll".into());
                                        }
                                        l.push(format!("mready {}", pair_of(victim)))
                                    }
                                    "ready" => {}
                                    "poll" => l.push("mpoll".into()),
                                    _ => l.push("mpdrop".into()),
                                }
                            }
                            if shared && route == "cancel" && !tail.contains("pdrop") {
                                // the others leave the shared pair one by one, then it becomes ready
                                for i in (0..n).filter(|i| *i != victim) {
                                    l.push(format!("mcancel {i}"));
                                    l.push("mpoll".into());
                                }
                                l.push("mready 0".into());
                                l.push("mpoll".into());
                            }
                            l.push(format!("mpop {victim}"));
                            if rng.chance(1, 2) {
                                l.push(format!("mdrop {}", rng.below(n as u64)));
                            }
                            l.push("end".into());
                            out.push(case(format!("mfd/{drv}/n{n}{}/v{victim}/{route}/{tail}", if shared { "s" } else { "" }), l));
                        }
                    }
                }
            }
        }
    }
    // random programs over at most 3 splices on at most 2 pairs
    for i in 0..(if thorough { 3000 } else { 150 }) {
        let drv = *rng.pick(&DRIVERS);
        let mut l = vec![format!("mfd {drv}")];
        // per op: (pair, key held, cancelled, cancellation reaped by a poll)
        let mut ops: Vec<(usize, bool, bool, bool)> = vec![];
        let mut pairs = 0usize;
        let mut hot = [false; 2];
        let mut alive = true;
        let len = 4 + rng.below(10) as usize;
        for _ in 0..len {
            match rng.below(10) {
                0..=2 if alive && ops.len() < 3 => {
                    let p = if pairs == 0 || (pairs < 2 && rng.chance(1, 2)) { pairs } else { rng.below(pairs as u64) as usize };
                    if p < 2 && !hot[p] {
                        if p == pairs {
                            pairs += 1;
                        }
                        l.push(format!("spl {p}"));
                        ops.push((p, true, false, false));
                    }
                }
                3..=4 if alive && !ops.is_empty() => {
                    let i = rng.below(ops.len() as u64) as usize;
                    l.push(format!("mcancel {i}"));
                    if ops[i].1 {
                        ops[i] = (ops[i].0, false, true, false);
                    }
                }
                5 if !ops.is_empty() => {
                    let i = rng.below(ops.len() as u64) as usize;
                    l.push(format!("mdrop {i}"));
                    ops[i].1 = false;
                }
                6 if !ops.is_empty() => l.push(format!("mpop {}", rng.below(ops.len() as u64))),
                7 if pairs > 0 => {
                    let p = rng.below(pairs as u64) as usize;
                    // only when every op on the pair has been cancelled (nothing parked there)
                    if ops.iter().all(|o| o.0 != p || (o.2 && (drv == "poll" || o.3))) || !alive {
                        l.push(format!("mready {p}"));
                        if alive {
                            hot[p] = true;
                        }
                    }
                }
                8 if alive && rng.chance(1, 3) => {
                    l.push("mpdrop".into());
                    alive = false;
                }
                _ => {
                    l.push("mpoll".into());
                    if alive {
                        for o in ops.iter_mut() {
                            o.3 = o.2;
                        }
                    }
                }
            }
        }
        l.push("mpoll".into());
        l.push("end".into());
        out.push(case(format!("mfd/rand/{i}/{drv}"), l));
    }
}

fn generate(tier: &str, rng: &mut Rng) -> Vec<Case> {
    let mut out = vec![];
    let thorough = tier == "thorough";
    f13_family(&mut out);
    overflow_family(&mut out, rng);
    fill_family(&mut out, rng);
    stale_key_family(&mut out, rng);
    multifd_family(&mut out, rng, thorough);
    if thorough {
        single_op_family(&mut out, rng, &CAPS);
    } else {
        single_op_family(&mut out, rng, &[2]);
    }
    let w = Weights { push: 10, ready: 8, poll: 10, flush: 3, pop: 6, popm: 3, cancel: 5, ccancel: 1, dropk: 4, token: 3, tcancel: 3, gate: 3, pdrop: 3 };
    let n = if thorough { 18_000 } else { 1_000 };
    for i in 0..n {
        let drv = *rng.pick(&DRIVERS);
        let cap = *rng.pick(&CAPS);
        // Multishot accepts and zero-copy sends post CQEs a moment AFTER the submit (task work): whether the drain that
        // follows a submit inside the same driver call (`push_raw` overflow loop in `push` / `flush`) sees them is a
        // race, so in random programs they only run on the big ring, where that loop never runs. (A multishot accept
        // is moreover terminated by the kernel when the completion queue, 2 x capacity entries, overflows.)
        let multi_ok = drv == "poll" || cap == 1024;
        let kinds: &[&'static str] = match rng.below(4) {
            0 => &["rd"],
            1 => &["rd", "blk"],
            2 if !multi_ok => &["rd", "blk", "blk"],
            2 => &["rd", "acc", "zc", "blk"],
            _ if !multi_ok => &["rd", "rd", "blk"],
            _ => &["rd", "rd", "acc", "zc", "blk"],
        };
        let share = rng.chance(1, 2);
        let max_lines = if rng.chance(1, 4) { 24 } else { 12 };
        let l = random_program(rng, drv, cap, kinds, 3, max_lines, &w, share);
        out.push(case(format!("rand/{i}/{drv}/{cap}"), l));
    }
    out
}

fn main() {
    if std::env::var("KL_WORKER").is_ok() {
        return worker_main();
    }
    run_harness(
        generate,
        |c| exec_isolated(c),
        "an operation was pending in a driver and the storage status vector took at least 3 distinct values",
    );
}
