//! C05 — cancellation is prompt, honest and local.
//!
//! Same interpreter and line protocol as C01 (`keylife/mod.rs`, model driver `c05d`); the generator
//! concentrates on cancellation: every route (drop of the future = `Proactor::cancel(key)`, cancel token,
//! late registration on a fired token = `Proactor::cancel(key.clone())`), every order of cancel / readiness /
//! poll / completion, subsets of operations sharing one descriptor, repeated and late cancels, and the
//! full-submission-queue situation of finding F9.

#[path = "keylife/mod.rs"]
mod keylife;

#[path = "c05x/multi.rs"]
mod multi;

use hx_common::{Case, Rng, run_harness};
use keylife::{CAPS, DRIVERS, Weights, case, epilogue, exec_case_streaming, exec_isolated, nontrivial, random_program};

/// worker side (same protocol as `keylife::worker_main`): cases that start with `mfd` run in the multi-descriptor world
/// (`c05x/multi.rs`), everything else in the shared key life-cycle interpreter
fn worker_main() {
    use std::io::{BufRead, Write};
    const SEP: char = '\u{1f}';
    std::panic::set_hook(Box::new(|_| {}));
    let stdin = std::io::stdin();
    let mut out = std::io::stdout();
    let mut name = String::new();
    let mut lines: Vec<String> = vec![];
    for l in stdin.lock().lines() {
        let l = l.unwrap();
        if let Some(n) = l.strip_prefix("#case ") {
            name = n.to_string();
            lines.clear();
        } else if l == "#end" {
            let case = Case { name: name.clone(), lines: lines.clone() };
            let mut emit = |o: &str| {
                writeln!(out, "o{SEP}{o}").unwrap();
                out.flush().unwrap();
            };
            let ex = if case.lines.first().map(|l| l.starts_with("mfd")).unwrap_or(false) {
                multi::exec_multi(&case, &mut emit)
            } else {
                exec_case_streaming(&case, nontrivial, &mut emit)
            };
            for f in &ex.failures {
                writeln!(out, "f{SEP}{}{SEP}{}", f.sig, f.detail.replace('\n', " ")).unwrap();
            }
            for t in &ex.tags {
                writeln!(out, "t{SEP}{t}").unwrap();
            }
            writeln!(out, "n{SEP}{}", ex.nontrivial).unwrap();
            writeln!(out, "#done").unwrap();
            out.flush().unwrap();
        } else {
            lines.push(l);
        }
    }
}

/// an operation that waits on TWO descriptors (`Splice` pipe -> pipe; seeded/C05-4a): cancelled while parked, by every
/// route, before / after the poller saw the ready half, alone or with a second splice queued behind it on both
/// descriptors; then the missing half becomes ready: nothing of the cancelled operation may run
fn multi_family(out: &mut Vec<Case>, thorough: bool) {
    for drv in DRIVERS {
        for fed in [1, 0] {
            for route in ROUTES {
                for polled in [false, true] {
                    for nb in [false, true] {
                        if nb && drv == "iour" {
                            continue; // two blocking splices on one pipe: completion order is the kernel's business
                        }
                        if drv == "iour" && fed == 1 && polled {
                            // the splice already blocks in io-wq WRITING to the full pipe: the kernel answers the AsyncCancel
                            // with -ERESTARTSYS (512) instead of -ECANCELED (observed; noted in notes/C05.md, not modelled)
                            continue;
                        }
                        for late_pop in [false, true] {
                            if late_pop && !thorough && !(polled && fed == 1) {
                                continue;
                            }
                            let mut l = vec![format!("mfd {drv} {fed}"), "msplice".to_string()];
                            if nb {
                                l.push("msplice".into());
                            }
                            if polled {
                                l.push("mpoll".into());
                            }
                            l.push(format!("mcancel 0 {route}"));
                            l.push("mpoll".into());
                            if !late_pop {
                                l.push("mpop 0".into());
                            }
                            l.push("mstate".into());
                            if fed == 0 {
                                l.push("mfeed".into());
                            }
                            l.push("mdrain".into());
                            l.push("mpoll".into());
                            l.push("mstate".into());
                            if nb {
                                l.push("mpop 1".into());
                            }
                            l.push("mpop 0".into());
                            l.push("mstate".into());
                            out.push(case(format!("multi/{drv}/fed{fed}/{route}/{polled}/{nb}/{late_pop}"), l));
                        }
                    }
                }
            }
        }
    }
}

const ROUTES: [&str; 3] = ["cancel", "token", "ccancel"];

fn cancel_lines(l: &mut Vec<String>, route: &str, i: usize) {
    match route {
        "cancel" => l.push(format!("cancel {i}")),
        "token" => {
            l.push(format!("token {i}"));
            l.push(format!("tcancel {i}"));
        }
        _ => l.push(format!("ccancel {i}")),
    }
}

/// n receives on ONE descriptor, a subset is cancelled (each by some route), before or after data for the
/// survivors arrives; survivors must finish with their data, the cancelled ones with ECANCELED or data
fn locality_family(out: &mut Vec<Case>, rng: &mut Rng, caps: &[u32], n: usize) {
    for drv in DRIVERS {
        for &cap in caps {
            for mask in 1u32..(1 << n) {
                for route in ROUTES {
                    // 0: cancel, poll, data, poll   1: data, cancel, poll   2: poll, cancel, data, poll, 3: cancel, data, poll
                    for order in 0..4 {
                        let mut l = vec![format!("cfg {drv} {cap}")];
                        for _ in 0..n {
                            l.push("push rd 0".into());
                        }
                        let cancels = |l: &mut Vec<String>| {
                            for i in 0..n {
                                if mask & (1 << i) != 0 {
                                    cancel_lines(l, route, i);
                                }
                            }
                        };
                        // io_uring wakes same-descriptor waiters in kernel order: always serve every waiter
                        let k = if drv == "iour" { n } else { n - mask.count_ones() as usize };
                        let data = |l: &mut Vec<String>| {
                            if k > 0 {
                                l.push(format!("ready 0 {k}"))
                            }
                        };
                        match order {
                            0 => {
                                cancels(&mut l);
                                l.push("poll".into());
                                data(&mut l);
                                l.push("poll".into());
                            }
                            1 => {
                                data(&mut l);
                                cancels(&mut l);
                                l.push("poll".into());
                            }
                            2 => {
                                l.push("poll".into());
                                cancels(&mut l);
                                data(&mut l);
                                l.push("poll".into());
                            }
                            _ => {
                                cancels(&mut l);
                                data(&mut l);
                                l.push("poll".into());
                            }
                        }
                        for i in 0..n {
                            l.push(format!("pop {i}"));
                        }
                        let ops: Vec<(&'static str, bool)> = (0..n).map(|_| ("rd", false)).collect();
                        epilogue(rng, &mut l, &ops, true, false);
                        out.push(case(format!("local/{drv}/{cap}/n{n}/m{mask}/{route}/o{order}"), l));
                    }
                }
            }
        }
    }
}

/// polling driver: n (3..=5) receives queued on ONE descriptor, some of them cancelled (each by some route), then the
/// descriptor becomes ready chunk by chunk: after every chunk exactly the OLDEST surviving waiter must complete, with
/// that chunk (the model predicts who; `C05:neighbour-reordered` decides it on the data)
fn order_family(out: &mut Vec<Case>, rng: &mut Rng, ns: &[usize], two_victims: bool) {
    for &n in ns {
        let mut victim_sets: Vec<Vec<usize>> = (0..n).map(|v| vec![v]).collect();
        if two_victims {
            for a in 0..n {
                for b in a + 1..n {
                    victim_sets.push(vec![a, b]);
                }
            }
        }
        for victims in victim_sets {
            for route in ROUTES {
                for poll_first in [false, true] {
                    let mut l = vec!["cfg poll 8".to_string()];
                    for _ in 0..n {
                        l.push("push rd 0".into());
                    }
                    if poll_first {
                        l.push("poll".into());
                    }
                    for &v in &victims {
                        cancel_lines(&mut l, route, v);
                    }
                    let survivors: Vec<usize> = (0..n).filter(|i| !victims.contains(i)).collect();
                    for _ in 0..survivors.len() {
                        l.push("ready 0 1".into());
                        l.push("poll".into());
                        // look at the youngest first: a survivor that overtook its elders shows up at once
                        for &i in survivors.iter().rev() {
                            l.push(format!("pop {i}"));
                        }
                    }
                    for &v in &victims {
                        l.push(format!("pop {v}"));
                    }
                    let ops: Vec<(&'static str, bool)> = (0..n).map(|_| ("rd", false)).collect();
                    epilogue(rng, &mut l, &ops, true, false);
                    let vs: Vec<String> = victims.iter().map(|v| v.to_string()).collect();
                    out.push(case(format!("order/n{n}/v{}/{route}/{poll_first}", vs.join("_")), l));
                }
            }
        }
    }
}

/// runtime level: real `Runtime` + `CancelToken` + `with_cancel` on both drivers; ops on never-ready sockets started before
/// and after the token fires (fired from inside between two ops, from outside while the future sleeps, after a cancelled
/// op), timeouts, data already waiting, a neighbour task that is not registered with the token
fn rt_family(out: &mut Vec<Case>, thorough: bool) {
    let mut progs: Vec<&str> = vec![
        "r", "r,r", "F,r", "F,k", "F,r,r", "X,r", "X,k,r", "r,k", "k,F,r", "k,X,r", "d,F,r", "F,d,r", "r,d,k", "s,X,s,r",
        "d,r,F,k", "k,r,r", "F,F,r", "r,X,r",
        // the other submit flavours (with_extra, multishot stream), registered before / after the token fires
        "e", "m", "F,e", "F,m", "X,e", "X,m", "F,E", "F,M", "E", "M", "e,m,r", "F,r,e,m", "k,X,E,M", "d,F,e",
    ];
    if thorough {
        progs.extend(["r,r,r,r", "k,k,F,k,k", "X,d,d,r,d", "d,d,F,d,k,r", "s,F,s,r,s,r", "r,F,X,r", "X,X,k", "k,d,X,d,r,k"]);
    }
    let caps: &[u32] = if thorough { &[16, 1024] } else { &[1024] };
    for drv in DRIVERS {
        for &cap in caps {
            for (i, p) in progs.iter().enumerate() {
                let nb = if i % 4 == 3 { 0 } else { 1 };
                out.push(case(format!("rt/{drv}/{cap}/{}/{nb}", p.replace(',', "")), vec![format!("rt {drv} {cap}"), format!("tok {p} {nb}")]));
            }
            // every order of `with_cancel` x `with_personality` around the same ops (the token must reach `Submit::poll`
            // through any stack of combinators)
            let nests: &[&str] = if thorough { &["pc", "cp", "pcp", "ppc", "cpp", "pcpp"] } else { &["pc", "cp", "pcp"] };
            let nprogs: &[&str] = if thorough { &["r", "F,r", "X,r", "r,r", "k,F,r", "d,F,k", "F,d,r,k"] } else { &["r", "F,r", "X,r", "k,F,r"] };
            for nest in nests {
                for p in nprogs {
                    out.push(case(format!("rtn/{drv}/{cap}/{nest}/{}", p.replace(',', "")), vec![format!("rt {drv} {cap}"), format!("tok {p} 1 {nest}")]));
                }
            }
        }
    }
}

/// cancelling twice, cancelling after completion, cancelling through several routes
fn repeat_family(out: &mut Vec<Case>, rng: &mut Rng) {
    for drv in DRIVERS {
        for cap in [4u32, 1024] {
            for first in ROUTES {
                for second in ["cancel", "tcancel", "ccancel", "tcancel2"] {
                    for completed in [false, true] {
                        for polled_between in [false, true] {
                            let mut l = vec![format!("cfg {drv} {cap}"), "push rd 1".into(), "token 0".into()];
                            if completed {
                                l.push("ready 1 1".into());
                                l.push("poll".into());
                            }
                            match first {
                                "cancel" => l.push("ccancel 0".into()), // keep the key for the second attempt
                                "token" => l.push("tcancel 0".into()),
                                _ => l.push("ccancel 0".into()),
                            }
                            if polled_between {
                                l.push("poll".into());
                            }
                            match second {
                                "cancel" => l.push("cancel 0".into()),
                                "tcancel" => l.push("tcancel 0".into()),
                                "ccancel" => l.push("ccancel 0".into()),
                                _ => {
                                    l.push("tcancel 0".into());
                                    l.push("tcancel 0".into());
                                }
                            }
                            l.push("poll".into());
                            l.push("pop 0".into());
                            l.push("tcancel 0".into());
                            epilogue(rng, &mut l, &[("rd", false)], true, false);
                            out.push(case(format!("repeat/{drv}/{cap}/{first}/{second}/{completed}/{polled_between}"), l));
                        }
                    }
                }
            }
        }
    }
}

/// regression family of finding F9 (repaired): the AsyncCancel SQE used to be dropped when the submission queue was full
fn f9_family(out: &mut Vec<Case>, rng: &mut Rng) {
    for cap in [1u32, 2, 4] {
        for route in ROUTES {
            for victim in 0..cap as usize {
                // fill the SQ with `cap` receives on never-ready descriptors (at most 3 distinct slots + reuse)
                let mut l = vec![format!("cfg iour {cap}")];
                let mut ops = vec![];
                for i in 0..cap as usize {
                    l.push(format!("push rd {}", i % 4));
                    ops.push(("rd", false));
                }
                cancel_lines(&mut l, route, victim);
                l.push("poll".into());
                l.push(format!("pop {victim}"));
                l.push("poll".into());
                l.push(format!("pop {victim}"));
                epilogue(rng, &mut l, &ops, true, false);
                out.push(case(format!("f9/full/{cap}/{route}/{victim}"), l));
                // the same with one poll before the cancel: the queue has room, the cancel must work
                let mut l = vec![format!("cfg iour {cap}")];
                for i in 0..cap as usize {
                    l.push(format!("push rd {}", i % 4));
                }
                l.push("poll".into());
                cancel_lines(&mut l, route, victim);
                l.push("poll".into());
                l.push(format!("pop {victim}"));
                epilogue(rng, &mut l, &ops, true, false);
                out.push(case(format!("f9/room/{cap}/{route}/{victim}"), l));
            }
        }
    }
}

/// every kind × every route × cancel before / after the first poll, with an unrelated neighbour that must survive
fn kinds_family(out: &mut Vec<Case>, rng: &mut Rng, caps: &[u32]) {
    let kinds: [(&'static str, usize); 4] = [("rd", 1), ("acc", 4), ("zc", 7), ("blk", 0)];
    for drv in DRIVERS {
        for &cap in caps {
            for (kind, slot) in kinds {
                if (kind == "acc" || kind == "zc") && drv == "iour" && cap < 4 {
                    continue;
                }
                for route in ROUTES {
                    for polled in [false, true] {
                        let mut l = vec![format!("cfg {drv} {cap}"), "push rd 0".into(), format!("push {kind} {slot}")];
                        if polled {
                            l.push("poll".into());
                        }
                        cancel_lines(&mut l, route, 1);
                        l.push("poll".into());
                        l.push("pop 1".into());
                        // the neighbour
                        l.push("pop 0".into());
                        l.push("ready 0 1".into());
                        l.push("poll".into());
                        l.push("pop 0".into());
                        epilogue(rng, &mut l, &[("rd", false), (kind, kind == "blk")], true, false);
                        out.push(case(format!("kinds/{drv}/{cap}/{kind}/{route}/{polled}"), l));
                    }
                }
            }
        }
    }
}

fn generate(tier: &str, rng: &mut Rng) -> Vec<Case> {
    let mut out = vec![];
    let thorough = tier == "thorough";
    f9_family(&mut out, rng);
    multi_family(&mut out, thorough);
    rt_family(&mut out, thorough);
    repeat_family(&mut out, rng);
    if thorough {
        order_family(&mut out, rng, &[3, 4, 5], true);
    } else {
        order_family(&mut out, rng, &[3, 4], false);
    }
    if thorough {
        kinds_family(&mut out, rng, &CAPS);
        locality_family(&mut out, rng, &CAPS, 2);
        locality_family(&mut out, rng, &CAPS, 3);
    } else {
        kinds_family(&mut out, rng, &[4]);
        locality_family(&mut out, rng, &[4], 2);
        locality_family(&mut out, rng, &[1024], 3);
    }
    let w = Weights { push: 10, ready: 7, poll: 9, flush: 1, pop: 7, popm: 1, cancel: 7, ccancel: 4, dropk: 1, token: 6, tcancel: 8, gate: 2, pdrop: 1 };
    let n = if thorough { 14_000 } else { 800 };
    for i in 0..n {
        let drv = *rng.pick(&DRIVERS);
        let cap = *rng.pick(&CAPS);
        // multishot accepts / zero-copy sends only where no `push_raw` overflow drain can race with their CQEs (c01.rs)
        let multi_ok = drv == "poll" || cap == 1024;
        let kinds: &[&'static str] = match rng.below(3) {
            0 => &["rd"],
            1 if !multi_ok => &["rd", "rd", "blk"],
            1 => &["rd", "rd", "acc", "blk"],
            _ if !multi_ok => &["rd", "blk"],
            _ => &["rd", "acc", "zc", "blk"],
        };
        let max_lines = if rng.chance(1, 3) { 24 } else { 14 };
        let l = random_program(rng, drv, cap, kinds, 3, max_lines, &w, true);
        out.push(case(format!("rand/{i}/{drv}/{cap}"), l));
    }
    out
}

fn main() {
    if std::env::var("KL_WORKER").is_ok() {
        return worker_main();
    }
    run_harness(
        generate,
        |c| exec_isolated(c),
        "an operation was pending in a driver and the storage status vector took at least 3 distinct values",
    );
}
