//! WebSocket half of the C15 harness: the real `compio_ws::WebSocketStream` (client and server role) on one
//! compio runtime. compio-ws is sealed to `PollFd` transports, so the transport is a Unix socketpair; with
//! `lim>0` a harness relay sits between two socketpairs and forwards at most `lim` bytes per read (for a plain
//! WebSocket only once both opening handshakes are done, see `pump`), yielding `gap` times between chunks (fragmentation of frames, partial writes through small chunks and full socket
//! buffers). `tls=ossl|rustls` puts the real compio-tls stream under the WebSocket (a buffering layer:
//! the TLS session holds written records until flushed).
//!
//! `sb=<c|s>` gives that endpoint's socket (and the relay socket that forwards its bytes) the kernel's minimum
//! send buffer: its replies are back-pressured as soon as the peer is not reading. A `burst` step then makes the
//! *other* side send `count` messages (pings mixed with text) before it reads a single pong: after a handful of
//! pongs the flush that `poll_next` performs before yielding returns `Pending` with the item parked, and every
//! message must still be yielded exactly once, in order.
//!
//! After every step both tasks meet at a barrier, so a reply that the layer must flush *before yielding the
//! item* (pong, close reply) cannot be pushed out by a later operation of the same task.

use std::{
    cell::{Cell, RefCell},
    future::Future,
    os::unix::net::UnixStream,
    pin::Pin,
    rc::Rc,
    task::{Context, Poll, Waker},
    time::Duration,
};

use compio_runtime::{Runtime, fd::PollFd};
use compio_tls::{TlsAcceptor, TlsConnector};
use compio_ws::{
    WebSocketStream, accept_async, client_async,
    tungstenite::{Error as WsError, Message},
};
use futures_util::{AsyncReadExt, AsyncWriteExt};
use hx_common::*;

use super::payload;

pub fn gen_ws(r: &mut Rng, thorough: bool) -> Vec<String> {
    let tls = *r.pick(&["none", "none", "ossl", "rustls"]);
    let lim = *r.pick(&[0usize, 1, 7, 4096, 65536]);
    let gap = r.below(3);
    let sb = *r.pick(&["none", "none", "c", "s"]);
    let mut lines = vec![format!("ws tls={tls} lim={lim} gap={gap} sb={sb}")];
    let maxlen: u64 = match (lim, thorough) {
        (1, false) => 600,
        (1, true) => 6_000,
        (7, false) => 5_000,
        (7, true) => 70_000,
        (_, false) => 70_000,
        (_, true) => 1 << 20,
    };
    let n = r.range(0, 5);
    for _ in 0..n {
        if sb != "none" && r.chance(1, 2) {
            // the burst goes towards the endpoint whose replies are back-pressured
            let dir = if sb == "s" { "c2s" } else { "s2c" };
            let count = *r.pick(&[8u64, 24, 48, 64]);
            lines.push(format!("burst {dir} {count} {} {}", r.range(8, 40), r.below(1000)));
            continue;
        }
        let dir = if r.chance(1, 2) { "c2s" } else { "s2c" };
        let kind = *r.pick(&["text", "bin", "bin", "ping"]);
        let len = if kind == "ping" {
            *r.pick(&[0u64, 1, 10, 124, 125])
        } else {
            match r.below(5) {
                0 => *r.pick(&[0u64, 1, 124, 125, 126, 127]),
                1 => *r.pick(&[65534u64, 65535, 65536, 65537]),
                2 => r.range(0, 300),
                _ => r.range(0, maxlen),
            }
            .min(maxlen)
        };
        lines.push(format!("msg {dir} {kind} {len} {}", r.below(1000)));
    }
    if r.chance(3, 4) {
        lines.push(format!("wsclose {}", if r.chance(1, 2) { "c" } else { "s" }));
    }
    lines
}

#[derive(Clone, Debug)]
enum Step {
    /// (this side sends?, count, len, seed): `count` messages back to back, then the pongs
    Burst(bool, usize, usize, u64),
    /// (this side sends?, kind, len, seed)
    Msg(bool, String, usize, u64),
    Close(bool),
}

#[derive(Clone, Debug, PartialEq)]
enum Res {
    NotReached,
    Running,
    Ok,
    Mismatch(String),
    Err(String),
}

fn body(kind: &str, len: usize, seed: u64) -> Vec<u8> {
    let mut v = payload(len, seed);
    if kind == "text" {
        for b in v.iter_mut() {
            *b = b'a' + (*b % 26);
        }
    }
    v
}

fn mk_msg(kind: &str, len: usize, seed: u64) -> Message {
    let b = body(kind, len, seed);
    match kind {
        "text" => Message::text(String::from_utf8(b).unwrap()),
        "bin" => Message::binary(b),
        "ping" => Message::Ping(b.into()),
        o => panic!("kind {o}"),
    }
}

/// the `i`-th message of a burst: mostly pings (each queues a pong at the reader), some text
pub fn burst_kind(seed: u64, i: usize) -> &'static str {
    if (seed + i as u64) % 4 == 3 { "text" } else { "ping" }
}

unsafe extern "C" {
    fn setsockopt(fd: i32, level: i32, name: i32, val: *const std::ffi::c_void, len: u32) -> i32;
}

/// SO_SNDBUF := kernel minimum (Linux: SOL_SOCKET = 1, SO_SNDBUF = 7)
fn tiny_sndbuf(s: &UnixStream) {
    use std::os::fd::AsRawFd;
    let one: i32 = 1;
    let rc = unsafe { setsockopt(s.as_raw_fd(), 1, 7, &one as *const i32 as *const _, 4) };
    assert_eq!(rc, 0, "setsockopt(SO_SNDBUF)");
}

fn same(m: &Message, kind: &str, want: &[u8]) -> bool {
    let k = match m {
        Message::Text(_) => "text",
        Message::Binary(_) => "bin",
        Message::Ping(_) => "ping",
        Message::Pong(_) => "pong",
        Message::Close(_) => "close",
        Message::Frame(_) => "frame",
    };
    k == kind && m.clone().into_data().as_ref() == want
}

fn short(m: &Result<Message, WsError>) -> String {
    match m {
        Ok(Message::Text(t)) => format!("text[{}]", t.len()),
        Ok(Message::Binary(b)) => format!("bin[{}]", b.len()),
        Ok(Message::Ping(b)) => format!("ping[{}]", b.len()),
        Ok(Message::Pong(b)) => format!("pong[{}]", b.len()),
        Ok(Message::Close(_)) => "close".into(),
        Ok(Message::Frame(_)) => "frame".into(),
        Err(e) => format!("err:{e}"),
    }
}

/// two-party barrier on one thread
#[derive(Default)]
struct Barrier {
    arrived: Cell<usize>,
    generation: Cell<u64>,
    waker: RefCell<Option<Waker>>,
}

impl Barrier {
    async fn wait(&self) {
        let my_gen = self.generation.get();
        if self.arrived.get() == 1 {
            self.arrived.set(0);
            self.generation.set(my_gen + 1);
            if let Some(w) = self.waker.borrow_mut().take() {
                w.wake();
            }
            return;
        }
        self.arrived.set(1);
        std::future::poll_fn(|cx| {
            if self.generation.get() != my_gen {
                Poll::Ready(())
            } else {
                *self.waker.borrow_mut() = Some(cx.waker().clone());
                Poll::Pending
            }
        })
        .await
    }
}

struct Yield(bool);
impl Future for Yield {
    type Output = ();

    fn poll(mut self: Pin<&mut Self>, cx: &mut Context<'_>) -> Poll<()> {
        if self.0 {
            Poll::Ready(())
        } else {
            self.0 = true;
            cx.waker().wake_by_ref();
            Poll::Pending
        }
    }
}

/// counts the polls of the wrapped future; gives up (spin) above the cap
struct Counted<F> {
    f: Pin<Box<F>>,
    polls: Rc<Cell<u64>>,
    cap: u64,
}

impl<F: Future<Output = ()>> Future for Counted<F> {
    type Output = bool; // false = spin

    fn poll(mut self: Pin<&mut Self>, cx: &mut Context<'_>) -> Poll<bool> {
        self.polls.set(self.polls.get() + 1);
        if self.polls.get() > self.cap {
            return Poll::Ready(false);
        }
        self.f.as_mut().poll(cx).map(|_| true)
    }
}

type Sock = PollFd<UnixStream>;

/// `coarse` : forward in large chunks while it returns true (plain WebSocket opening handshake: tungstenite
/// deliberately rejects an HTTP upgrade that arrives in many tiny packets, `Error::AttackAttempt`)
async fn pump(from: &Sock, to: &Sock, lim: usize, gap: u64, coarse: &dyn Fn() -> bool) {
    let mut buf = vec![0u8; lim.max(65536)];
    let (mut from, mut to) = (from, to);
    loop {
        let k = if coarse() { 65536 } else { lim };
        let n = match from.read(&mut buf[..k]).await {
            Ok(0) | Err(_) => break,
            Ok(n) => n,
        };
        if to.write_all(&buf[..n]).await.is_err() {
            break;
        }
        for _ in 0..gap {
            Yield(false).await;
        }
    }
    let _ = to.close().await;
}

async fn side(
    is_client: bool,
    sock: Sock,
    tls: String,
    conn: TlsConnector,
    acc: TlsAcceptor,
    steps: Vec<Step>,
    res: Rc<RefCell<Vec<Res>>>,
    barrier: Rc<Barrier>,
    ready: Rc<Cell<u32>>,
) {
    res.borrow_mut()[0] = Res::Running;
    let ws: Result<WebSocketStream<UnixStream>, String> = async {
        if tls == "none" {
            if is_client {
                client_async("ws://localhost/", sock).await.map(|x| x.0).map_err(|e| e.to_string())
            } else {
                accept_async(sock).await.map_err(|e| e.to_string())
            }
        } else if is_client {
            let t = conn.connect("localhost", sock).await.map_err(|e| format!("tls:{e}"))?;
            client_async("ws://localhost/", t).await.map(|x| x.0).map_err(|e| e.to_string())
        } else {
            let t = acc.accept(sock).await.map_err(|e| format!("tls:{e}"))?;
            accept_async(t).await.map_err(|e| e.to_string())
        }
    }
    .await;
    let mut ws = match ws {
        Ok(w) => w,
        Err(e) => {
            res.borrow_mut()[0] = Res::Err(e);
            return;
        }
    };
    res.borrow_mut()[0] = Res::Ok;
    ready.set(ready.get() + 1);
    barrier.wait().await;
    for (i, st) in steps.iter().enumerate() {
        let slot = i + 1;
        res.borrow_mut()[slot] = Res::Running;
        let r: Res = match st {
            Step::Msg(true, kind, len, seed) => match ws.send(mk_msg(kind, *len, *seed)).await {
                Err(e) => Res::Err(e.to_string()),
                Ok(()) if kind == "ping" => {
                    let m = ws.read().await;
                    match &m {
                        Ok(x) if same(x, "pong", &body(kind, *len, *seed)) => Res::Ok,
                        other => Res::Mismatch(format!("pinger got {}", short(other))),
                    }
                }
                Ok(()) => Res::Ok,
            },
            Step::Msg(false, kind, len, seed) => {
                let m = ws.read().await;
                match &m {
                    Ok(x) if same(x, kind, &body(kind, *len, *seed)) => Res::Ok,
                    Err(e) => Res::Err(e.to_string()),
                    other => Res::Mismatch(format!("reader got {}", short(other))),
                }
            }
            Step::Burst(true, count, len, seed) => {
                let mut r = Res::Ok;
                for i in 0..*count {
                    if let Err(e) = ws.send(mk_msg(burst_kind(*seed, i), *len, *seed + i as u64)).await {
                        r = Res::Err(e.to_string());
                        break;
                    }
                }
                if r == Res::Ok {
                    for i in (0..*count).filter(|i| burst_kind(*seed, *i) == "ping") {
                        let m = ws.read().await;
                        match &m {
                            Ok(x) if same(x, "pong", &body("ping", *len, *seed + i as u64)) => {}
                            other => {
                                r = Res::Mismatch(format!("burst sender: pong of item {i} expected, got {}", short(other)));
                                break;
                            }
                        }
                    }
                }
                r
            }
            Step::Burst(false, count, len, seed) => {
                // the message-sequence monitor: every message exactly once, in order
                let mut r = Res::Ok;
                for i in 0..*count {
                    let kind = burst_kind(*seed, i);
                    let m = ws.read().await;
                    match &m {
                        Ok(x) if same(x, kind, &body(kind, *len, *seed + i as u64)) => {}
                        Err(e) => {
                            r = Res::Err(e.to_string());
                            break;
                        }
                        other => {
                            r = Res::Mismatch(format!("burst reader: item {i} of {count} expected, got {}", short(other)));
                            break;
                        }
                    }
                }
                r
            }
            Step::Close(true) => match ws.close(None).await {
                Err(e) => Res::Err(e.to_string()),
                Ok(()) => {
                    let m = ws.read().await;
                    match &m {
                        Ok(Message::Close(_)) => Res::Ok,
                        other => Res::Mismatch(format!("closer got {}", short(other))),
                    }
                }
            },
            Step::Close(false) => {
                let m = ws.read().await;
                match &m {
                    Ok(Message::Close(_)) => Res::Ok,
                    other => Res::Mismatch(format!("close responder got {}", short(other))),
                }
            }
        };
        let bad = r != Res::Ok;
        res.borrow_mut()[slot] = r;
        if bad {
            return;
        }
        barrier.wait().await;
    }
    // both sides are past the last barrier: dropping the stream now is not part of the property
    drop(ws);
}

thread_local! {
    static RT: Runtime = Runtime::new().expect("compio runtime");
}

fn kv<'a>(toks: &'a [&'a str], k: &str) -> &'a str {
    toks.iter().find_map(|t| t.strip_prefix(k).and_then(|r| r.strip_prefix('='))).unwrap_or_else(|| panic!("missing {k}"))
}

pub fn exec_ws(ra: &TlsAcceptor, rc: &TlsConnector, oa: &TlsAcceptor, oc: &TlsConnector, case: &Case, ex: &mut Exec) {
    let t: Vec<&str> = case.lines[0].split_whitespace().collect();
    let tls = kv(&t, "tls").to_string();
    let lim: usize = kv(&t, "lim").parse().unwrap();
    let gap: u64 = kv(&t, "gap").parse().unwrap();
    let sb = t.iter().find_map(|x| x.strip_prefix("sb=")).unwrap_or("none").to_string();
    let (conn, acc) = if tls == "ossl" { (oc.clone(), oa.clone()) } else { (rc.clone(), ra.clone()) };
    let mut words = vec![];
    let mut csteps = vec![];
    let mut ssteps = vec![];
    let mut total = 0u64;
    for l in &case.lines[1..] {
        let w: Vec<&str> = l.split_whitespace().collect();
        match w[0] {
            "msg" => {
                let c2s = w[1] == "c2s";
                let len: usize = w[3].parse().unwrap();
                let seed: u64 = w[4].parse().unwrap();
                total += len as u64;
                words.push(format!("msg ok {} {}", w[2], len));
                csteps.push(Step::Msg(c2s, w[2].to_string(), len, seed));
                ssteps.push(Step::Msg(!c2s, w[2].to_string(), len, seed));
            }
            "burst" => {
                let c2s = w[1] == "c2s";
                let count: usize = w[2].parse().unwrap();
                let len: usize = w[3].parse().unwrap();
                let seed: u64 = w[4].parse().unwrap();
                total += (count * (len + 16)) as u64 * 64;
                words.push(format!("burst ok {count}"));
                csteps.push(Step::Burst(c2s, count, len, seed));
                ssteps.push(Step::Burst(!c2s, count, len, seed));
            }
            "wsclose" => {
                let c = w[1] == "c";
                words.push("wsclose ok".to_string());
                csteps.push(Step::Close(c));
                ssteps.push(Step::Close(!c));
            }
            o => panic!("bad ws line {o}"),
        }
    }
    let n = csteps.len();
    let resc = Rc::new(RefCell::new(vec![Res::NotReached; n + 1]));
    let ress = Rc::new(RefCell::new(vec![Res::NotReached; n + 1]));
    let pc = Rc::new(Cell::new(0u64));
    let ps = Rc::new(Cell::new(0u64));
    // every poll of a side is caused by a readiness event or a barrier wake; a side cannot need more
    // polls than bytes moved (lim >= 1) times a small constant
    let cap = 100_000 + 64 * (total + 4096 * (n as u64 + 2));
    let end: Result<(bool, bool), ()> = RT.with(|rt| {
        rt.block_on(async {
            let barrier = Rc::new(Barrier::default());
            let ready = Rc::new(Cell::new(0u32));
            let (a0, a1) = UnixStream::pair().unwrap();
            let relay: Pin<Box<dyn Future<Output = ()>>>;
            let (csock, ssock);
            if lim == 0 {
                match sb.as_str() {
                    "c" => tiny_sndbuf(&a0),
                    "s" => tiny_sndbuf(&a1),
                    _ => {}
                }
                csock = PollFd::new(a0).unwrap();
                ssock = PollFd::new(a1).unwrap();
                relay = Box::pin(std::future::pending());
            } else {
                let (b0, b1) = UnixStream::pair().unwrap();
                match sb.as_str() {
                    // the endpoint and the relay socket that forwards its bytes to the peer
                    "c" => {
                        tiny_sndbuf(&a0);
                        tiny_sndbuf(&b1);
                    }
                    "s" => {
                        tiny_sndbuf(&b0);
                        tiny_sndbuf(&a1);
                    }
                    _ => {}
                }
                csock = PollFd::new(a0).unwrap();
                ssock = PollFd::new(b0).unwrap();
                let ra = PollFd::new(a1).unwrap();
                let rb = PollFd::new(b1).unwrap();
                let (rdy, plain) = (ready.clone(), tls == "none");
                relay = Box::pin(async move {
                    let coarse = move || plain && rdy.get() < 2;
                    futures_util::future::join(pump(&ra, &rb, lim, gap, &coarse), pump(&rb, &ra, lim, gap, &coarse)).await;
                    std::future::pending::<()>().await
                });
            }
            let fc = Counted {
                f: Box::pin(side(true, csock, tls.clone(), conn.clone(), acc.clone(), csteps, resc.clone(), barrier.clone(), ready.clone())),
                polls: pc.clone(),
                cap,
            };
            let fs = Counted {
                f: Box::pin(side(false, ssock, tls.clone(), conn, acc, ssteps, ress.clone(), barrier, ready)),
                polls: ps.clone(),
                cap,
            };
            let main = futures_util::future::join(fc, fs);
            let both = futures_util::future::select(Box::pin(main), relay);
            match compio_runtime::time::timeout(Duration::from_secs(6), both).await {
                Ok(futures_util::future::Either::Left((r, _))) => Ok(r),
                _ => Err(()),
            }
        })
    });
    let resc = resc.borrow().clone();
    let ress = ress.borrow().clone();
    let detail = |what: &str| {
        format!(
            "{what} case=[{}] client={:?} server={:?} polls={}/{} cap={cap} end={:?}",
            case.lines.join(" | "),
            resc,
            ress,
            pc.get(),
            ps.get(),
            end
        )
    };
    let spun = matches!(end, Ok((a, b)) if !a || !b);
    let mut bad = false;
    for i in 0..=n {
        let okword = if i == 0 { "ws ok".to_string() } else { words[i - 1].clone() };
        let word = okword.split(' ').next().unwrap().to_string();
        let line = match (&resc[i], &ress[i]) {
            (Res::Ok, Res::Ok) => okword,
            (Res::Mismatch(_), _) | (_, Res::Mismatch(_)) => {
                // report the reader's observation when both sides noticed (the sender only sees the fallout)
                let m = match (&resc[i], &ress[i]) {
                    (Res::Mismatch(a), Res::Mismatch(b)) => if b.contains("reader") { b } else { a },
                    (Res::Mismatch(a), _) => a,
                    (_, Res::Mismatch(b)) => b,
                    _ => unreachable!(),
                };
                if !bad {
                    ex.fail(if word == "wsclose" { "C15:close" } else { "C15:data-mismatch" }, detail(&format!("step {i}: {m}")));
                }
                format!("{word} mismatch")
            }
            (Res::Err(e), _) | (_, Res::Err(e)) => {
                if !bad {
                    ex.fail("C15:error", detail(&format!("step {i}: {e}")));
                }
                format!("{word} err")
            }
            (Res::NotReached, Res::NotReached) if bad => format!("{word} skip"),
            _ => {
                if !bad {
                    ex.fail(if spun { "C15:spin" } else { "C15:stuck" }, detail(&format!("step {i}")));
                }
                if spun { format!("{word} spin") } else { format!("{word} stuck") }
            }
        };
        if !line.contains(" ok") {
            bad = true;
        }
        ex.out.push(line);
    }
    ex.tag(format!("ws:tls={tls}"));
    ex.tag(format!("ws:lim={lim}"));
    if sb != "none" {
        ex.tag("ws:backpressure");
    }
    ex.nontrivial = resc[0] == Res::Ok && n > 0;
    if std::env::var_os("C15_PROBE").is_some() {
        eprintln!("{}", detail("probe"));
    }
}
