//! WebSocket half of the C15 harness (stub, filled in below).
use compio_tls::{TlsAcceptor, TlsConnector};
use hx_common::*;

pub fn gen_ws(_r: &mut Rng, _thorough: bool) -> Vec<String> {
    vec!["ws tls=none lim=4096 gap=0".to_string()]
}

pub fn exec_ws(_ra: &TlsAcceptor, _rc: &TlsConnector, _oa: &TlsAcceptor, _oc: &TlsConnector, case: &Case, ex: &mut Exec) {
    for _ in &case.lines {
        ex.out.push("todo".into());
    }
}
