// probe: queued call when the actor stops
use std::{
    future::Future,
    num::NonZeroUsize,
    pin::pin,
    sync::{Arc, mpsc},
    task::{Context, Poll, Wake, Waker},
    thread,
    time::{Duration, Instant},
};

use compio_actor::{Actor, ActorExit, Call, Cluster, Handler, Mailbox, mailbox::CallError};
use compio_dispatcher::Dispatcher;

struct Th(thread::Thread);
impl Wake for Th {
    fn wake(self: Arc<Self>) {
        self.0.unpark()
    }
}
fn block_on_timeout<F: Future>(f: F, d: Duration) -> Option<F::Output> {
    let mut f = pin!(f);
    let w = Waker::from(Arc::new(Th(thread::current())));
    let mut cx = Context::from_waker(&w);
    let end = Instant::now() + d;
    loop {
        if let Poll::Ready(v) = f.as_mut().poll(&mut cx) {
            return Some(v);
        }
        let now = Instant::now();
        if now >= end {
            return None;
        }
        thread::park_timeout(end - now);
    }
}

struct Gate;
#[derive(Debug)]
struct Block;
#[derive(Debug, PartialEq)]
struct Q;
impl Actor for Gate {
    type Arguments = (mpsc::Sender<()>, mpsc::Receiver<()>);
    type Error = ();
    type State = Self::Arguments;

    async fn pre_start(&self, _m: &Mailbox<Self>, a: Self::Arguments) -> Result<Self::State, ()> {
        Ok(a)
    }
}
impl Handler<Block> for Gate {
    async fn handle(&self, _m: &Mailbox<Self>, _: Block, st: &mut Self::State) -> Result<(), ()> {
        st.0.send(()).unwrap();
        st.1.recv().unwrap();
        Ok(())
    }
}
impl Handler<Call<Q, u32>> for Gate {
    async fn handle(&self, _m: &Mailbox<Self>, c: Call<Q, u32>, _st: &mut Self::State) -> Result<(), ()> {
        c.reply(7).ok();
        Ok(())
    }
}

fn main() {
    let d = Dispatcher::builder().worker_threads(NonZeroUsize::new(1).unwrap()).build().unwrap();
    let cluster = Cluster::from_dispatcher(d);
    let (etx, erx) = mpsc::channel();
    let (rtx, rrx) = mpsc::channel();
    let (mb, handle) = block_on_timeout(
        cluster.spawn(|| Gate, (etx, rrx)).with_capacity(NonZeroUsize::new(4).unwrap()).into_future(),
        Duration::from_secs(2),
    )
    .unwrap()
    .unwrap();
    mb.send(Block).unwrap();
    erx.recv().unwrap();
    let mb2 = mb.clone();
    let caller = thread::spawn(move || block_on_timeout(mb2.call::<Q, u32>(Q), Duration::from_secs(2)));
    thread::sleep(Duration::from_millis(100));
    println!("stop -> {}", mb.stop());
    rtx.send(()).unwrap();
    let exit = block_on_timeout(handle, Duration::from_secs(2));
    println!("exit {:?}", exit.map(|e| e.map(|e| matches!(e, ActorExit::Stopped))));
    let r = caller.join().unwrap();
    match r {
        None => println!("call HUNG (watchdog 2s) after actor exit"),
        Some(Ok(v)) => println!("call ok {v}"),
        Some(Err(CallError::NoReply)) => println!("call NoReply"),
        Some(Err(e)) => println!("call err {e}"),
    }
}
