//! C19 correspondence harness: the real compio-actor (`Cluster`, `Mailbox`, `Call`, `ProcessGroup`,
//! supervisors, the name registry) driven by text operations (see lean/Drivers/C19.lean).
//!
//! Two kinds of cases:
//!
//! * **det** cases (`spawn`/`send`/`call`/`stop`/`run`/… lines): one worker thread which the harness
//!   keeps *frozen* (blocked inside a handler of a helper actor `Z`) while it performs mailbox / registry /
//!   group operations, and releases until quiescence on a `run` line. Every output line is predicted
//!   exactly by the Lean model (`World` in lean/Compio/Model/ActorWorld.lean).
//! * **conc** cases (`conc …` line followed by `hist …` lines): 1..4 workers, several sender threads,
//!   stops, failures, supervisors reacting, group traffic. The schedule is not controlled; the harness
//!   records what every entity observed (`hist` lines) and both the monitors here and the Lean trace
//!   acceptor (lean/Compio/Model/History.lean) judge the history.
//!
//! Property monitors (implementation-only oracles) live in `monitors_det` and `judge_hist`.

use std::{
    collections::{BTreeMap, BTreeSet, HashMap},
    future::Future,
    num::NonZeroUsize,
    pin::{Pin, pin},
    sync::{
        Arc, Mutex,
        atomic::{AtomicU64, Ordering},
        mpsc,
    },
    task::{Context, Poll, Wake, Waker},
    thread,
    time::{Duration, Instant},
};

use compio_actor::{
    Actor, ActorExit, ActorHandle, Call, Cluster, Handler, Mailbox,
    cluster::{SpawnError, SpawnFuture},
    mailbox::{CallError, DeliverError},
    process_group::{Membership, ProcessGroup},
    supervisor::SupervisionEvent,
};
use compio_dispatcher::Dispatcher;
use futures_channel::oneshot;
use hx_common::*;

// ---------------------------------------------------------------------------------------------
// small executor pieces

struct ThreadWaker(thread::Thread);
impl Wake for ThreadWaker {
    fn wake(self: Arc<Self>) {
        self.0.unpark()
    }
}

/// drive a future on the current thread for at most `d`
fn block_on_timeout<F: Future>(f: F, d: Duration) -> Option<F::Output> {
    let mut f = pin!(f);
    let w = Waker::from(Arc::new(ThreadWaker(thread::current())));
    let mut cx = Context::from_waker(&w);
    let end = Instant::now() + d;
    loop {
        if let Poll::Ready(v) = f.as_mut().poll(&mut cx) {
            return Some(v);
        }
        let now = Instant::now();
        if now >= end {
            return None;
        }
        thread::park_timeout(end - now);
    }
}

fn poll_once<F: Future + ?Sized>(f: Pin<&mut F>) -> Poll<F::Output> {
    let w = futures_util::task::noop_waker();
    let mut cx = Context::from_waker(&w);
    f.poll(&mut cx)
}

// ---------------------------------------------------------------------------------------------
// observation log shared by all actors of one case

#[derive(Clone, Copy, Debug, PartialEq, Eq)]
enum Obs {
    Hook(u8, bool), // 0 pre_start 1 post_start 2 pre_stop 3 post_stop
    Hs(u32),
    He(u32, bool),
    Sup(u8, u32), // supervisor saw event kind (0 started 1 terminated 2 failed) of child key
    /// a stop hook found its own mailbox still open to new messages (never expected)
    Open(u8),
    /// `Mailbox::stop()` called from inside a stop hook (the actor is already stopping: the stop token was
    /// consumed or a handler / `post_start` failed) returned `true` (never expected: at most one `stop()`
    /// per actor life may report that it requested the stop, and none once the stop phase has begun)
    Granted(u8),
}

impl Obs {
    fn show(&self) -> String {
        match *self {
            Obs::Hook(h, ok) => format!("{}{}", ["ps", "po", "pr", "pt"][h as usize], if ok { '+' } else { '-' }),
            Obs::Hs(m) => format!("h{m}"),
            Obs::He(m, ok) => format!("e{m}{}", if ok { '+' } else { '-' }),
            Obs::Sup(k, c) => format!("S{c}.{k}"),
            Obs::Open(h) => format!("open{h}"),
            Obs::Granted(h) => format!("stopgranted{h}"),
        }
    }
}

#[derive(Default)]
struct Log {
    /// (actor, observation, global sequence number)
    events: Mutex<Vec<(u32, Obs, u64)>>,
    counter: AtomicU64,
}

impl Log {
    fn push(&self, actor: u32, o: Obs) {
        let mut ev = self.events.lock().unwrap();
        let seq = self.counter.fetch_add(1, Ordering::SeqCst);
        ev.push((actor, o, seq));
    }

    fn of(&self, actor: u32) -> Vec<Obs> {
        self.events.lock().unwrap().iter().filter(|e| e.0 == actor).map(|e| e.1).collect()
    }

    fn of_seq(&self, actor: u32) -> Vec<(Obs, u64)> {
        self.events.lock().unwrap().iter().filter(|e| e.0 == actor).map(|e| (e.1, e.2)).collect()
    }

    fn count(&self) -> u64 {
        self.counter.load(Ordering::SeqCst)
    }
}

// ---------------------------------------------------------------------------------------------
// the actors

#[derive(Debug)]
struct Msg {
    id: u32,
    kind: u8, // n f s x
}

#[derive(Debug)]
struct Ask {
    id: u32,
    kind: u8, // r i q d
}

struct TestActor {
    id: u32,
    hooks: [bool; 4],
    log: Arc<Log>,
    /// conc cases: what a handler does besides logging
    extra: Option<Arc<ConcShared>>,
    /// parks `pre_start` (name reserved, not yet activated) until released
    gate: Option<StartGate>,
    /// makes dropping the actor value slow: `Drop` reports that it began and blocks until released
    drop_gate: Option<DropGate>,
}

struct DropGate {
    entered: mpsc::Sender<()>,
    release: Mutex<mpsc::Receiver<()>>,
}

impl Drop for TestActor {
    fn drop(&mut self) {
        if let Some(g) = &self.drop_gate {
            g.entered.send(()).ok();
            if let Ok(rx) = g.release.lock() {
                rx.recv_timeout(LONG).ok();
            }
        }
    }
}

struct StartGate {
    entered: mpsc::Sender<()>,
    release: Mutex<Option<oneshot::Receiver<()>>>,
}

impl Actor for TestActor {
    type Arguments = ();
    type Error = u32;
    type State = u32; // number of messages handled

    async fn pre_start(&self, _m: &Mailbox<Self>, (): ()) -> Result<u32, u32> {
        self.log.push(self.id, Obs::Hook(0, self.hooks[0]));
        if let Some(g) = &self.gate {
            g.entered.send(()).ok();
            let rx = g.release.lock().unwrap().take();
            if let Some(rx) = rx {
                rx.await.ok();
            }
        }
        if self.hooks[0] { Ok(0) } else { Err(1) }
    }

    async fn post_start(&self, _m: &Mailbox<Self>, _s: &mut u32) -> Result<(), u32> {
        self.log.push(self.id, Obs::Hook(1, self.hooks[1]));
        if self.hooks[1] { Ok(()) } else { Err(2) }
    }

    async fn pre_stop(&self, m: &Mailbox<Self>, _s: &mut u32) -> Result<(), u32> {
        if !m.is_closed() {
            self.log.push(self.id, Obs::Open(2));
        }
        // a stop request issued while the actor is already in its stop phase (slow `pre_stop`, or `finish`
        // after a failure, receiver still alive) must report `false`; on the real code this is a no-op
        if m.stop() {
            self.log.push(self.id, Obs::Granted(2));
        }
        self.log.push(self.id, Obs::Hook(2, self.hooks[2]));
        if self.hooks[2] { Ok(()) } else { Err(3) }
    }

    async fn post_stop(&self, m: &Mailbox<Self>, _s: &mut u32) -> Result<(), u32> {
        if !m.is_closed() {
            self.log.push(self.id, Obs::Open(3));
        }
        if m.stop() {
            self.log.push(self.id, Obs::Granted(3));
        }
        self.log.push(self.id, Obs::Hook(3, self.hooks[3]));
        if self.hooks[3] { Ok(()) } else { Err(4) }
    }
}

/// yield to the executor once
struct YieldNow(bool);
impl Future for YieldNow {
    type Output = ();

    fn poll(mut self: Pin<&mut Self>, cx: &mut Context<'_>) -> Poll<()> {
        if self.0 {
            Poll::Ready(())
        } else {
            self.0 = true;
            cx.waker().wake_by_ref();
            Poll::Pending
        }
    }
}

impl Handler<Msg> for TestActor {
    async fn handle(&self, myself: &Mailbox<Self>, m: Msg, st: &mut u32) -> Result<(), u32> {
        *st += 1;
        self.log.push(self.id, Obs::Hs(m.id));
        if let Some(x) = &self.extra {
            x.in_handler(self.id, m.id).await;
        }
        if m.kind == b's' || m.kind == b'x' {
            myself.stop();
        }
        let ok = m.kind == b'n' || m.kind == b's';
        self.log.push(self.id, Obs::He(m.id, ok));
        if ok { Ok(()) } else { Err(100 + m.id) }
    }
}

impl Handler<Call<Ask, u32>> for TestActor {
    async fn handle(&self, _myself: &Mailbox<Self>, c: Call<Ask, u32>, st: &mut u32) -> Result<(), u32> {
        *st += 1;
        let (id, kind) = (c.message().id, c.message().kind);
        self.log.push(self.id, Obs::Hs(id));
        if let Some(x) = &self.extra {
            x.in_handler(self.id, id).await;
        }
        if kind == b'r' || kind == b'q' {
            c.reply(*st).ok();
        } else {
            drop(c);
        }
        let ok = kind == b'r' || kind == b'i';
        self.log.push(self.id, Obs::He(id, ok));
        if ok { Ok(()) } else { Err(100 + id) }
    }
}

/// supervisor: records the events it handles; children are told apart by (name, capacity)
struct Sup {
    id: u32,
    log: Arc<Log>,
    children: Arc<Mutex<Vec<((Option<String>, usize), u32)>>>,
    /// conc cases: stop a child as soon as it reports `started`
    stop_on_start: bool,
    /// keep the `Mailbox` of every child heard of in the actor state (a supervisor holding references)
    keep: bool,
    respawn: Option<Arc<RespawnStats>>,
}

impl Actor for Sup {
    type Arguments = ();
    type Error = u32;
    type State = Vec<Mailbox<TestActor>>;

    async fn pre_start(&self, _m: &Mailbox<Self>, (): ()) -> Result<Self::State, u32> {
        Ok(vec![])
    }
}

impl Handler<SupervisionEvent<TestActor>> for Sup {
    async fn handle(&self, myself: &Mailbox<Self>, ev: SupervisionEvent<TestActor>, st: &mut Self::State) -> Result<(), u32> {
        let k = match &ev {
            SupervisionEvent::ActorStarted(_) => 0,
            SupervisionEvent::ActorTerminated(_) => 1,
            SupervisionEvent::ActorFailed(_) => 2,
        };
        let mb = ev.actor();
        let key = (mb.name().map(str::to_string), mb.capacity().get());
        let child = self.children.lock().unwrap().iter().find(|c| c.0 == key).map(|c| c.1).unwrap_or(u32::MAX);
        self.log.push(self.id, Obs::Sup(k, child));
        if self.keep {
            st.push(mb.clone());
        }
        if self.stop_on_start && k == 0 {
            mb.stop();
        }
        if let (Some(rs), true, Some(name)) = (&self.respawn, k != 0 && child < 5000, mb.name()) {
            if name.starts_with('r') {
                let (name, cap, new_id) = (name.to_string(), mb.capacity().get() + 10, child + 5000);
                self.children.lock().unwrap().push(((Some(name.clone()), cap), new_id));
                rs.attempts.fetch_add(1, Ordering::SeqCst);
                let log = self.log.clone();
                let r = Cluster::current()
                    .spawn(move || TestActor { id: new_id, hooks: [true; 4], log, extra: None, gate: None, drop_gate: None }, ())
                    .with_name(name.clone())
                    .with_capacity(NonZeroUsize::new(cap).unwrap())
                    .with_supervisor(myself)
                    .await;
                match r {
                    Ok((m, _h)) => {
                        rs.ids.lock().unwrap().push((new_id, name));
                        m.send(Msg { id: 4_000_000 + new_id, kind: b's' }).ok();
                    }
                    Err(SpawnError::NameTaken(_)) => {
                        rs.taken.fetch_add(1, Ordering::SeqCst);
                    }
                    Err(_) => {}
                }
            }
        }
        Ok(())
    }
}

/// the freezer: its handler blocks the (single) worker thread until released
struct Freezer {
    log: Arc<Log>,
}

enum Ctl {
    Ping(oneshot::Sender<()>),
    Entered,
}

struct Gate {
    ctl: mpsc::Sender<Ctl>,
    release: mpsc::Receiver<()>,
}

impl std::fmt::Debug for Gate {
    fn fmt(&self, f: &mut std::fmt::Formatter<'_>) -> std::fmt::Result {
        f.write_str("Gate")
    }
}

impl Actor for Freezer {
    type Arguments = ();
    type Error = u32;
    type State = ();

    async fn pre_start(&self, _m: &Mailbox<Self>, (): ()) -> Result<(), u32> {
        Ok(())
    }
}

impl Handler<Gate> for Freezer {
    async fn handle(&self, _m: &Mailbox<Self>, g: Gate, _s: &mut ()) -> Result<(), u32> {
        // Let every other task of this worker run until nothing moves any more. Each round is a
        // round trip through the harness thread, so it spans a whole executor tick (remote wakes are
        // drained, the dispatcher loop is polled); the world is quiescent when the observation counter
        // did not move for several consecutive rounds.
        let mut last = self.log.count();
        let mut stable = 0;
        while stable < 4 {
            let (tx, rx) = oneshot::channel();
            if g.ctl.send(Ctl::Ping(tx)).is_err() {
                break;
            }
            rx.await.ok();
            YieldNow(false).await;
            let c = self.log.count();
            if c == last {
                stable += 1;
            } else {
                stable = 0;
                last = c;
            }
        }
        g.ctl.send(Ctl::Entered).ok();
        g.release.recv().ok();
        Ok(())
    }
}

fn make_cluster(workers: usize) -> Cluster {
    let d = Dispatcher::builder()
        .worker_threads(NonZeroUsize::new(workers).unwrap())
        .build()
        .expect("dispatcher");
    Cluster::from_dispatcher(d)
}

const LONG: Duration = Duration::from_secs(10);

// ---------------------------------------------------------------------------------------------
// det cases: the frozen world

type CallFut = Pin<Box<dyn Future<Output = Result<u32, CallError<Ask>>> + Send>>;

enum Slot {
    Test {
        fut: Option<SpawnFuture<TestActor>>,
        mailbox: Option<Mailbox<TestActor>>,
        handle: Option<ActorHandle<u32>>,
    },
    Sup {
        fut: Option<SpawnFuture<Sup>>,
        mailbox: Option<Mailbox<Sup>>,
        handle: Option<ActorHandle<u32>>,
        children: Arc<Mutex<Vec<((Option<String>, usize), u32)>>>,
    },
}

struct ActorSlot {
    slot: Slot,
    exit: Option<String>,
    reported: usize,
    name: Option<String>,
    hooks: [bool; 4],
    started: bool,
}

enum GroupSlot {
    Msgs(ProcessGroup<Msg>, BTreeMap<u64, Membership<Msg>>, u64),
    Calls(ProcessGroup<Call<Ask, u32>>, BTreeMap<u64, Membership<Call<Ask, u32>>>, u64),
}

struct CallSlot {
    fut: Option<CallFut>,
    result: Option<String>,
    /// actor the call was addressed to (direct calls only)
    target: Option<u32>,
}

struct Det {
    cluster: Option<Cluster>,
    log: Arc<Log>,
    z: Mailbox<Freezer>,
    release: Option<mpsc::Sender<()>>,
    actors: BTreeMap<u32, ActorSlot>,
    groups: BTreeMap<u32, GroupSlot>,
    calls: BTreeMap<u32, CallSlot>,
    /// harness-side bookkeeping for the monitors: (id, direct target, accepted?) in program order
    sends: Vec<(u32, Option<u32>, bool)>,
    /// names seen by `lookup` lines: (name, found, seq at the time)
    stops_requested: BTreeSet<u32>,
    /// actors for which some `stop()` of the harness returned `true`
    stops_granted: BTreeSet<u32>,
    quiesce_failed: bool,
    /// group -> membership id -> actor (as joined by the harness, minus explicit leaves)
    gmembers: BTreeMap<u32, BTreeMap<u64, u32>>,
    /// monitor failures raised while executing operations
    mon: Vec<(String, String)>,
}

/// `queued` as the mailbox reports it (`impl Debug for Mailbox`)
fn queued_of(m: &Mailbox<TestActor>) -> usize {
    let d = format!("{m:?}");
    d.split("queued: ").nth(1).and_then(|r| r.split(|c: char| !c.is_ascii_digit()).next()).and_then(|n| n.parse().ok()).unwrap_or(usize::MAX)
}

fn show_call(r: &Result<u32, CallError<Ask>>) -> String {
    match r {
        Ok(v) => format!("reply {v}"),
        Err(CallError::NoReply) => "noreply".into(),
        Err(CallError::Full(_)) => "full".into(),
        Err(CallError::Closed(_)) => "closed".into(),
    }
}

impl Det {
    fn new() -> Det {
        let cluster = make_cluster(1);
        let log = Arc::new(Log::default());
        let zl = log.clone();
        let (z, _zh) = block_on_timeout(cluster.spawn(move || Freezer { log: zl }, ()).into_future(), LONG)
            .expect("freezer start")
            .ok()
            .expect("freezer spawn");
        let mut d = Det {
            cluster: Some(cluster),
            log,
            z,
            release: None,
            actors: BTreeMap::new(),
            groups: BTreeMap::new(),
            calls: BTreeMap::new(),
            sends: vec![],
            stops_requested: BTreeSet::new(),
            stops_granted: BTreeSet::new(),
            quiesce_failed: false,
            gmembers: BTreeMap::new(),
            mon: vec![],
        };
        d.freeze();
        d
    }

    /// queue a new gate behind everything `Z` has, release the current one, wait until the new one is entered
    fn freeze(&mut self) {
        let (ctx, crx) = mpsc::channel();
        let (rtx, rrx) = mpsc::channel();
        self.z.send(Gate { ctl: ctx, release: rrx }).expect("gate accepted");
        if let Some(r) = self.release.take() {
            r.send(()).ok();
        }
        let end = Instant::now() + LONG;
        loop {
            match crx.recv_timeout(end.saturating_duration_since(Instant::now())) {
                Ok(Ctl::Ping(tx)) => {
                    tx.send(()).ok();
                }
                Ok(Ctl::Entered) => break,
                Err(_) => {
                    self.quiesce_failed = true;
                    break;
                }
            }
        }
        self.release = Some(rtx);
    }

    fn delta(&mut self) -> String {
        let mut parts = vec![];
        for (id, a) in self.actors.iter_mut() {
            let l = self.log.of(*id);
            let d = &l[a.reported.min(l.len())..];
            a.reported = l.len();
            if d.is_empty() {
                continue;
            }
            if matches!(a.slot, Slot::Sup { .. }) {
                let mut evs: Vec<(u32, u8)> =
                    d.iter().filter_map(|o| if let Obs::Sup(k, c) = o { Some((*c, *k)) } else { None }).collect();
                evs.sort_by_key(|e| e.0); // stable: per child in handling order
                if evs.is_empty() {
                    continue;
                }
                let s: Vec<String> = evs.iter().map(|(c, k)| format!("S{c}.{k}")).collect();
                parts.push(format!("a{id}:{}", s.join(",")));
            } else {
                let s: Vec<String> = d.iter().map(Obs::show).collect();
                parts.push(format!("a{id}:{}", s.join(",")));
            }
        }
        if parts.is_empty() { "-".into() } else { parts.join(" ") }
    }

    /// an actor spawned under `name` that still holds it: its spawn was accepted and it has neither failed to
    /// start nor finished `post_stop` (the worker is frozen, so the log is exact)
    fn holder_of(&self, name: &str) -> Option<u32> {
        self.actors.iter().find(|(a, s)| {
            s.name.as_deref() == Some(name) && {
                let l = self.log.of(**a);
                !l.iter().any(|o| matches!(o, Obs::Hook(3, _) | Obs::Hook(0, false)))
            }
        }).map(|(a, _)| *a)
    }

    /// `NameTaken` exactly when somebody holds the name
    fn name_monitor(&mut self, a: u32, name: &Option<String>, holder: Option<u32>, out: &str) {
        let Some(n) = name else { return };
        match (holder, out) {
            (Some(h), "pending") => self.mon.push((
                "C19:two-live-actors-one-name".into(),
                format!("spawn of actor {a} under name {n} accepted while actor {h} holds that name (reserved or alive)"),
            )),
            (None, "nametaken") => self.mon.push((
                "C19:name-not-released".into(),
                format!("spawn of actor {a} under name {n} refused although no actor holds that name"),
            )),
            _ => {}
        }
    }

    fn test_mailbox(&self, a: u32) -> Option<Mailbox<TestActor>> {
        match self.actors.get(&a).map(|s| &s.slot) {
            Some(Slot::Test { mailbox: Some(m), .. }) => Some(m.clone()),
            _ => None,
        }
    }

    fn op(&mut self, w: &[&str]) -> String {
        let num = |s: &str| s.parse::<u32>().ok();
        match w {
            ["spawn", a, name, cap, sup, hooks] => {
                let (Some(a), Some(cap)) = (num(a), cap.parse::<usize>().ok().and_then(NonZeroUsize::new)) else {
                    return "bad-op".into();
                };
                if self.actors.contains_key(&a) {
                    return "dup".into();
                }
                let hb: Vec<bool> = hooks.bytes().map(|b| b == b'+').collect();
                if hb.len() != 4 {
                    return "bad-op".into();
                }
                let hooks = [hb[0], hb[1], hb[2], hb[3]];
                let log = self.log.clone();
                let cluster = self.cluster.as_ref().unwrap();
                let mut sp = cluster
                    .spawn(move || TestActor { id: a, hooks, log, extra: None, gate: None, drop_gate: None }, ())
                    .with_capacity(cap);
                let name = if *name == "-" { None } else { Some(name.to_string()) };
                if let Some(n) = &name {
                    sp = sp.with_name(n.clone());
                }
                if let Some(s) = num(sup) {
                    if let Some(ActorSlot { slot: Slot::Sup { mailbox: Some(m), children, .. }, .. }) = self.actors.get(&s) {
                        children.lock().unwrap().push(((name.clone(), cap.get()), a));
                        sp = sp.with_supervisor(m);
                    }
                }
                let holder = name.as_deref().and_then(|n| self.holder_of(n));
                let name_c = name.clone();
                let mut fut = sp.into_future();
                let out: String = match poll_once(Pin::new(&mut fut)) {
                    Poll::Ready(Err(SpawnError::NameTaken(_))) => "nametaken".into(),
                    Poll::Ready(Err(SpawnError::Unavailable)) => "unavailable".into(),
                    Poll::Ready(_) => "early".into(),
                    Poll::Pending => {
                        self.actors.insert(a, ActorSlot {
                            slot: Slot::Test { fut: Some(fut), mailbox: None, handle: None },
                            exit: None,
                            reported: 0,
                            name,
                            hooks,
                            started: false,
                        });
                        "pending".into()
                    }
                };
                self.name_monitor(a, &name_c, holder, &out);
                out
            }
            ["spawnsup", a, name, cap, rest @ ..] if rest.is_empty() || *rest == ["keep"] => {
                let keep = !rest.is_empty();
                let (Some(a), Some(cap)) = (num(a), cap.parse::<usize>().ok().and_then(NonZeroUsize::new)) else {
                    return "bad-op".into();
                };
                if self.actors.contains_key(&a) {
                    return "dup".into();
                }
                let log = self.log.clone();
                let children = Arc::new(Mutex::new(vec![]));
                let ch = children.clone();
                let cluster = self.cluster.as_ref().unwrap();
                let mut sp = cluster
                    .spawn(move || Sup { id: a, log, children: ch, stop_on_start: false, keep, respawn: None }, ())
                    .with_capacity(cap);
                let name = if *name == "-" { None } else { Some(name.to_string()) };
                if let Some(n) = &name {
                    sp = sp.with_name(n.clone());
                }
                let holder = name.as_deref().and_then(|n| self.holder_of(n));
                let name_c = name.clone();
                let mut fut = sp.into_future();
                let out: String = match poll_once(Pin::new(&mut fut)) {
                    Poll::Ready(Err(SpawnError::NameTaken(_))) => "nametaken".into(),
                    Poll::Ready(Err(SpawnError::Unavailable)) => "unavailable".into(),
                    Poll::Ready(_) => "early".into(),
                    Poll::Pending => {
                        self.actors.insert(a, ActorSlot {
                            slot: Slot::Sup { fut: Some(fut), mailbox: None, handle: None, children },
                            exit: None,
                            reported: 0,
                            name,
                            hooks: [true; 4],
                            started: false,
                        });
                        "pending".into()
                    }
                };
                self.name_monitor(a, &name_c, holder, &out);
                out
            }
            ["await", a] => {
                let Some(s) = num(a).and_then(|a| self.actors.get_mut(&a)) else { return "nofuture".into() };
                macro_rules! aw {
                    ($fut:ident, $mailbox:ident, $handle:ident) => {{
                        let Some(f) = $fut.as_mut() else { return "nofuture".into() };
                        match poll_once(Pin::new(f)) {
                            Poll::Pending => "pending".into(),
                            Poll::Ready(r) => {
                                *$fut = None;
                                match r {
                                    Ok((m, h)) => {
                                        *$mailbox = Some(m);
                                        *$handle = Some(h);
                                        s.started = true;
                                        "started".into()
                                    }
                                    Err(SpawnError::Start(_)) => "startfail".into(),
                                    Err(SpawnError::WorkerStopped) => "workerstopped".into(),
                                    Err(_) => "spawnerr".into(),
                                }
                            }
                        }
                    }};
                }
                match &mut s.slot {
                    Slot::Test { fut, mailbox, handle } => aw!(fut, mailbox, handle),
                    Slot::Sup { fut, mailbox, handle, .. } => aw!(fut, mailbox, handle),
                }
            }
            ["dropfut", a] => {
                let Some(s) = num(a).and_then(|a| self.actors.get_mut(&a)) else { return "nofuture".into() };
                let had = match &mut s.slot {
                    Slot::Test { fut, .. } => fut.take().is_some(),
                    Slot::Sup { fut, .. } => fut.take().is_some(),
                };
                if had { "ok".into() } else { "nofuture".into() }
            }
            ["send", a, id, k] => {
                let (Some(a), Some(id)) = (num(a), num(id)) else { return "bad-op".into() };
                let Some(m) = self.test_mailbox(a) else { return "nomailbox".into() };
                let r = m.send(Msg { id, kind: k.as_bytes()[0] });
                self.sends.push((id, Some(a), r.is_ok()));
                match r {
                    Ok(()) => "ok".into(),
                    Err(DeliverError::Full(_)) => "full".into(),
                    Err(DeliverError::Closed(_)) => "closed".into(),
                }
            }
            ["call", a, id, k] => {
                let (Some(a), Some(id)) = (num(a), num(id)) else { return "bad-op".into() };
                let Some(m) = self.test_mailbox(a) else { return "nomailbox".into() };
                let kind = k.as_bytes()[0];
                let mut fut: CallFut = Box::pin(async move { m.call::<Ask, u32>(Ask { id, kind }).await });
                self.first_poll(id, Some(a), &mut fut).map(|r| (self.calls.insert(id, CallSlot { fut: None, result: Some(r.clone()), target: Some(a) }), r).1).unwrap_or_else(|| {
                    self.calls.insert(id, CallSlot { fut: Some(fut), result: None, target: Some(a) });
                    "sent".into()
                })
            }
            ["poll", id] => {
                let Some(c) = num(id).and_then(|i| self.calls.get_mut(&i)) else { return "nocall".into() };
                if let Some(r) = &c.result {
                    return r.clone();
                }
                match poll_once(c.fut.as_mut().unwrap().as_mut()) {
                    Poll::Pending => "pending".into(),
                    Poll::Ready(r) => {
                        let s = show_call(&r);
                        c.fut = None;
                        c.result = Some(s.clone());
                        s
                    }
                }
            }
            ["stop", a] => {
                let Some(a) = num(a) else { return "bad-op".into() };
                let r = match self.actors.get(&a).map(|s| &s.slot) {
                    Some(Slot::Test { mailbox: Some(m), .. }) => m.stop(),
                    Some(Slot::Sup { mailbox: Some(m), .. }) => m.stop(),
                    _ => return "nomailbox".into(),
                };
                self.stops_requested.insert(a);
                if r && !self.stops_granted.insert(a) {
                    self.mon.push(("C19:stop-granted-twice".to_string(), format!("actor {a}: a second stop() returned true")));
                }
                r.to_string()
            }
            ["drop", a] => {
                // the harness gives up its `Mailbox` (it keeps the `ActorHandle`)
                match num(a).and_then(|a| self.actors.get_mut(&a)).map(|s| &mut s.slot) {
                    Some(Slot::Test { mailbox, .. }) if mailbox.is_some() => {
                        *mailbox = None;
                        "ok".into()
                    }
                    Some(Slot::Sup { mailbox, .. }) if mailbox.is_some() => {
                        *mailbox = None;
                        "ok".into()
                    }
                    _ => "nomailbox".into(),
                }
            }
            ["isclosed", a] => match num(a).and_then(|a| self.actors.get(&a)).map(|s| &s.slot) {
                Some(Slot::Test { mailbox: Some(m), .. }) => m.is_closed().to_string(),
                Some(Slot::Sup { mailbox: Some(m), .. }) => m.is_closed().to_string(),
                _ => "nomailbox".into(),
            },
            ["lookup", n] => match self.cluster.as_ref().unwrap().lookup::<TestActor, _>(n.to_string()) {
                None => "none".into(),
                Some(m) => format!("some cap={} closed={}", m.capacity(), m.is_closed()),
            },
            ["exit", a] => {
                let Some(s) = num(a).and_then(|a| self.actors.get_mut(&a)) else { return "nomailbox".into() };
                if let Some(e) = &s.exit {
                    return e.clone();
                }
                let h = match &mut s.slot {
                    Slot::Test { handle, .. } => handle,
                    Slot::Sup { handle, .. } => handle,
                };
                let Some(hd) = h.as_mut() else { return "nomailbox".into() };
                match poll_once(Pin::new(hd)) {
                    Poll::Pending => "pending".into(),
                    Poll::Ready(r) => {
                        *h = None;
                        let e = match r {
                            Ok(ActorExit::Stopped) => "stopped".to_string(),
                            Ok(ActorExit::Failed(c)) => format!("failed {c}"),
                            Err(_) => "lost".to_string(),
                        };
                        s.exit = Some(e.clone());
                        e
                    }
                }
            }
            ["run"] => {
                self.freeze();
                self.delta()
            }
            ["gnew", g, t] => {
                let Some(g) = num(g) else { return "bad-op".into() };
                if self.groups.contains_key(&g) {
                    return "dup".into();
                }
                match *t {
                    "m" => self.groups.insert(g, GroupSlot::Msgs(ProcessGroup::new(), BTreeMap::new(), 0)),
                    "c" => self.groups.insert(g, GroupSlot::Calls(ProcessGroup::new(), BTreeMap::new(), 0)),
                    _ => return "bad-op".into(),
                };
                "ok".into()
            }
            ["gjoin", g, a] => {
                let (Some(g), Some(a)) = (num(g), num(a)) else { return "bad-op".into() };
                let mb = self.test_mailbox(a);
                match (self.groups.get_mut(&g), mb) {
                    (Some(GroupSlot::Msgs(pg, ms, next)), Some(m)) => {
                        let id = *next;
                        *next += 1;
                        ms.insert(id, pg.join(m.broker::<Msg>()));
                        self.gmembers.entry(g).or_default().insert(id, a);
                        format!("m{id}")
                    }
                    (Some(GroupSlot::Calls(pg, ms, next)), Some(m)) => {
                        let id = *next;
                        *next += 1;
                        ms.insert(id, pg.join(m.broker::<Call<Ask, u32>>()));
                        self.gmembers.entry(g).or_default().insert(id, a);
                        format!("m{id}")
                    }
                    _ => "nomailbox".into(),
                }
            }
            ["gleave", g, m] => {
                let (Some(g), Some(m)) = (num(g), m.parse::<u64>().ok()) else { return "bad-op".into() };
                if let Some(gm) = self.gmembers.get_mut(&g) {
                    gm.remove(&m);
                }
                match self.groups.get_mut(&g) {
                    Some(GroupSlot::Msgs(_, ms, _)) => {
                        if let Some(x) = ms.remove(&m) {
                            x.leave();
                        }
                        "ok".into()
                    }
                    Some(GroupSlot::Calls(_, ms, _)) => {
                        if let Some(x) = ms.remove(&m) {
                            x.leave();
                        }
                        "ok".into()
                    }
                    None => "nogroup".into(),
                }
            }
            ["glen", g] => match num(g).and_then(|g| self.groups.get(&g)) {
                Some(GroupSlot::Msgs(pg, ..)) => catch(|| pg.len()).map(|n| n.to_string()).unwrap_or_else(|_| "panic".into()),
                Some(GroupSlot::Calls(pg, ..)) => catch(|| pg.len()).map(|n| n.to_string()).unwrap_or_else(|_| "panic".into()),
                None => "nogroup".into(),
            },
            ["gsend", g, id, k] => {
                let (Some(g), Some(id)) = (num(g), num(id)) else { return "bad-op".into() };
                match self.groups.get(&g) {
                    Some(GroupSlot::Msgs(pg, ..)) => {
                        let pg = pg.clone();
                        let before = self.group_snapshot(g);
                        let len_before = catch(|| pg.len()).unwrap_or(0);
                        let r = catch(|| pg.send(Msg { id, kind: k.as_bytes()[0] }));
                        match r {
                            Err(e) => {
                                self.mon.push(("C19:group-panic".into(), format!("group {g} send {id}: {e}")));
                                "panic".into()
                            }
                            Ok(r) => {
                                self.sends.push((id, None, r.is_ok()));
                                let out = match r {
                                    Ok(()) => "ok",
                                    Err(DeliverError::Full(_)) => "full",
                                    Err(DeliverError::Closed(_)) => "closed",
                                };
                                self.group_monitor(g, id, out, &before, len_before, catch(|| pg.len()).unwrap_or(0));
                                out.into()
                            }
                        }
                    }
                    Some(_) => "bad-op".into(),
                    None => "nogroup".into(),
                }
            }
            ["gcall", g, id, k] => {
                let (Some(g), Some(id)) = (num(g), num(id)) else { return "bad-op".into() };
                match self.groups.get(&g) {
                    Some(GroupSlot::Calls(pg, ..)) => {
                        let pg = pg.clone();
                        let kind = k.as_bytes()[0];
                        let pg2 = pg.clone();
                        let before = self.group_snapshot(g);
                        let len_before = catch(|| pg.len()).unwrap_or(0);
                        let mut fut: CallFut = Box::pin(async move { pg2.call(Ask { id, kind }).await });
                        let out = match self.first_poll(id, None, &mut fut) {
                            Some(r) => {
                                self.calls.insert(id, CallSlot { fut: None, result: Some(r.clone()), target: None });
                                r
                            }
                            None => {
                                self.calls.insert(id, CallSlot { fut: Some(fut), result: None, target: None });
                                "sent".into()
                            }
                        };
                        let seen = if out == "sent" { "ok" } else { out.as_str() };
                        let len_after = match self.groups.get(&g) {
                            Some(GroupSlot::Calls(pg, ..)) => catch(|| pg.len()).unwrap_or(0),
                            _ => 0,
                        };
                        self.group_monitor(g, id, seen, &before, len_before, len_after);
                        out
                    }
                    Some(_) => "bad-op".into(),
                    None => "nogroup".into(),
                }
            }
            _ => "bad-op".into(),
        }
    }

    /// (actor, closed, queued, capacity) of every current member of group `g`, one entry per membership
    fn group_snapshot(&self, g: u32) -> Vec<(u32, bool, usize, usize)> {
        let mut v = vec![];
        if let Some(ms) = self.gmembers.get(&g) {
            for a in ms.values() {
                match self.test_mailbox(*a) {
                    Some(m) => v.push((*a, m.is_closed(), queued_of(&m), m.capacity().get())),
                    // the harness gave its handle away: this member cannot be inspected, no verdict
                    None => v.push((*a, false, usize::MAX, 0)),
                }
            }
        }
        v
    }

    /// Routing oracle (the worker is frozen, so the statuses cannot change during the call): the message goes
    /// to exactly one member iff some member is open and not full, otherwise it comes back as `Full` when a
    /// member is open (hence full) and `Closed` when none is; only closed members may be evicted.
    fn group_monitor(&mut self, g: u32, id: u32, out: &str, before: &[(u32, bool, usize, usize)], len_before: usize, len_after: usize) {
        if before.iter().any(|x| x.2 == usize::MAX) {
            return;
        }
        let after = self.group_snapshot(g);
        let distinct = |v: &[(u32, bool, usize, usize)]| -> BTreeMap<u32, usize> { v.iter().map(|x| (x.0, x.2)).collect() };
        let (qb, qa) = (distinct(before), distinct(&after));
        let grown: usize = qa.iter().map(|(a, q)| q.saturating_sub(*qb.get(a).unwrap_or(q))).sum();
        let available = before.iter().any(|x| !x.1 && x.2 < x.3);
        let open = before.iter().any(|x| !x.1);
        let detail = format!("group {g} message {id} -> {out}; members before (actor, closed, queued, cap) {before:?}, len {len_before} -> {len_after}");
        match out {
            "ok" => {
                if !available {
                    self.mon.push(("C19:group-delivered-to-unavailable".into(), detail.clone()));
                }
                if grown != 1 {
                    self.mon.push(("C19:group-not-exactly-one".into(), detail.clone()));
                }
            }
            "full" | "closed" => {
                if available {
                    self.mon.push(("C19:group-handed-back-despite-available-member".into(), detail.clone()));
                }
                if grown != 0 {
                    self.mon.push(("C19:group-handed-back-and-delivered".into(), detail.clone()));
                }
                if !available && (out == "full") != open {
                    self.mon.push(("C19:group-error-kind".into(), detail.clone()));
                }
            }
            _ => {}
        }
        // memberships the harness knows of that are not closed can never be evicted
        let live = before.iter().filter(|x| !x.1).count();
        if len_after > len_before || len_after < live {
            self.mon.push(("C19:group-evicted-live-member".into(), detail));
        }
    }

    /// first poll of a call future performs the send; `Some(result)` when it was rejected at once
    fn first_poll(&mut self, id: u32, target: Option<u32>, fut: &mut CallFut) -> Option<String> {
        match catch(|| poll_once(fut.as_mut())) {
            Err(_) => Some("panic".into()),
            Ok(Poll::Pending) => {
                self.sends.push((id, target, true));
                None
            }
            Ok(Poll::Ready(r)) => {
                self.sends.push((id, target, false));
                Some(show_call(&r))
            }
        }
    }
}

/// automaton of the documented lifecycle (same table as `lifeStep` in Model/Actor.lean, written independently)
#[derive(Clone, Copy, PartialEq, Eq, Debug)]
enum Life {
    Fresh,
    DeadStart,
    Started,
    Running,
    In(u32),
    Closing,
    Stopped1,
    Done,
}

fn life_run(log: &[Obs]) -> Option<Life> {
    let mut l = Life::Fresh;
    for o in log {
        l = match (l, *o) {
            (Life::Fresh, Obs::Hook(0, true)) => Life::Started,
            (Life::Fresh, Obs::Hook(0, false)) => Life::DeadStart,
            (Life::Started, Obs::Hook(1, true)) => Life::Running,
            (Life::Started, Obs::Hook(1, false)) => Life::Closing,
            (Life::Started, Obs::Hook(2, _)) => Life::Stopped1,
            (Life::Running, Obs::Hs(m)) => Life::In(m),
            (Life::Running, Obs::Hook(2, _)) => Life::Stopped1,
            (Life::In(m), Obs::He(m2, ok)) if m == m2 => {
                if ok {
                    Life::Running
                } else {
                    Life::Closing
                }
            }
            (Life::Closing, Obs::Hook(2, _)) => Life::Stopped1,
            (Life::Stopped1, Obs::Hook(3, _)) => Life::Done,
            _ => return None,
        };
    }
    Some(l)
}

fn handled_of(log: &[Obs]) -> Vec<u32> {
    log.iter().filter_map(|o| if let Obs::Hs(m) = o { Some(*m) } else { None }).collect()
}

/// teardown of a det case + the implementation-only property monitors
fn finish_det(d: &mut Det, ex: &mut Exec) {
    for (sig, detail) in d.mon.drain(..) {
        ex.fail(sig, detail);
    }
    if d.quiesce_failed {
        ex.fail("C19:harness-quiesce", "worker did not become quiescent within 10 s");
    }
    // 1. let everything accepted so far be handled
    d.freeze();
    let alive_before: Vec<u32> = d
        .actors
        .iter()
        .filter(|(_, s)| match &s.slot {
            Slot::Test { mailbox: Some(m), .. } => !m.is_closed(),
            _ => false,
        })
        .map(|(a, _)| *a)
        .collect();
    // completeness: an actor that is still open was never stopped and never failed:
    // every message it accepted directly must have been handled by now
    for a in &alive_before {
        let handled = handled_of(&d.log.of(*a));
        let accepted: Vec<u32> = d.sends.iter().filter(|s| s.1 == Some(*a) && s.2).map(|s| s.0).collect();
        if handled.iter().filter(|m| accepted.contains(m)).count() != accepted.len() {
            ex.fail("C19:accepted-not-handled", format!("actor {a} open and idle, accepted {accepted:?}, handled {handled:?}"));
        }
    }
    // 2. resolve the spawn futures still pending, stop everything we can reach
    let ids: Vec<u32> = d.actors.keys().copied().collect();
    let mut asked: BTreeSet<u32> = d.stops_requested.clone();
    for a in &ids {
        let s = d.actors.get_mut(a).unwrap();
        match &mut s.slot {
            Slot::Test { fut, mailbox, handle } => {
                if let Some(f) = fut.as_mut() {
                    if let Poll::Ready(r) = poll_once(Pin::new(f)) {
                        *fut = None;
                        if let Ok((m, h)) = r {
                            *mailbox = Some(m);
                            *handle = Some(h);
                            s.started = true;
                        }
                    }
                }
                if mailbox.is_none() && s.started {
                    // the harness dropped its handle: a live named actor can still be reached through the registry
                    if let Some(n) = &s.name {
                        if let Some(m) = d.cluster.as_ref().unwrap().lookup::<TestActor, _>(n.clone()) {
                            *mailbox = Some(m);
                        }
                    }
                }
                if let Some(m) = mailbox {
                    m.stop();
                    asked.insert(*a);
                }
            }
            Slot::Sup { .. } => {}
        }
    }
    d.freeze();
    for a in &ids {
        let s = d.actors.get_mut(a).unwrap();
        if let Slot::Sup { fut, mailbox, handle, .. } = &mut s.slot {
            if let Some(f) = fut.as_mut() {
                if let Poll::Ready(r) = poll_once(Pin::new(f)) {
                    *fut = None;
                    if let Ok((m, h)) = r {
                        *mailbox = Some(m);
                        *handle = Some(h);
                        s.started = true;
                    }
                }
            }
            if let Some(m) = mailbox {
                m.stop();
                asked.insert(*a);
            }
        }
    }
    d.freeze();
    // 3. exits
    let mut exited: BTreeSet<u32> = BTreeSet::new();
    for a in &ids {
        let s = d.actors.get_mut(a).unwrap();
        if s.exit.is_some() {
            exited.insert(*a);
            continue;
        }
        let h = match &mut s.slot {
            Slot::Test { handle, .. } => handle,
            Slot::Sup { handle, .. } => handle,
        };
        if let Some(hd) = h.as_mut() {
            match poll_once(Pin::new(hd)) {
                Poll::Ready(_) => {
                    exited.insert(*a);
                }
                Poll::Pending if !asked.contains(a) => {} // unreachable for the harness: nobody asked it to stop
                Poll::Pending => {
                    ex.fail("C19:actor-did-not-exit", format!("actor {a} stopped but its handle is pending, log {:?}", d.log.of(*a)));
                }
            }
        }
    }
    // 4. per-actor logs: lifecycle order, serial handlers, FIFO, at most once
    let mut seen_global: HashMap<u32, u32> = HashMap::new();
    for a in &ids {
        let s = &d.actors[a];
        if matches!(s.slot, Slot::Sup { .. }) {
            continue;
        }
        let mut log = d.log.of(*a);
        if log.iter().any(|o| matches!(o, Obs::Granted(_))) {
            ex.fail(
                "C19:stop-granted-while-stopping",
                format!("actor {a}: stop() inside a stop hook returned true: {}", log.iter().map(Obs::show).collect::<Vec<_>>().join(",")),
            );
            log.retain(|o| !matches!(o, Obs::Granted(_)));
        }
        match life_run(&log) {
            None => ex.fail("C19:lifecycle-order", format!("actor {a}: {}", log.iter().map(Obs::show).collect::<Vec<_>>().join(","))),
            Some(l) => {
                if exited.contains(a) && l != Life::Done {
                    ex.fail("C19:lifecycle-incomplete", format!("actor {a} exited in {l:?}: {}", log.iter().map(Obs::show).collect::<Vec<_>>().join(",")));
                }
                if !s.hooks[0] && l != Life::DeadStart && l != Life::Fresh {
                    ex.fail("C19:lifecycle-order", format!("actor {a} failed pre_start but went on: {l:?}"));
                }
            }
        }
        let handled = handled_of(&log);
        for m in &handled {
            if let Some(other) = seen_global.insert(*m, *a) {
                ex.fail("C19:handled-twice", format!("message {m} handled by actor {other} and actor {a}"));
            }
            match d.sends.iter().find(|x| x.0 == *m) {
                None => ex.fail("C19:handled-unsent", format!("actor {a} handled {m} which was never sent")),
                Some((_, _, false)) => ex.fail("C19:handled-rejected", format!("actor {a} handled {m} whose send was rejected")),
                Some((_, Some(t), true)) if t != a => ex.fail("C19:misdelivered", format!("message {m} sent to actor {t} handled by actor {a}")),
                _ => {}
            }
        }
        // FIFO: handled order follows the (single-threaded) acceptance order; direct sends form a prefix
        let order: Vec<usize> = handled.iter().filter_map(|m| d.sends.iter().position(|x| x.0 == *m)).collect();
        if order.windows(2).any(|w| w[0] >= w[1]) {
            ex.fail("C19:fifo", format!("actor {a} handled {handled:?} against acceptance order"));
        }
        let direct: Vec<u32> = d.sends.iter().filter(|x| x.1 == Some(*a) && x.2).map(|x| x.0).collect();
        let hd: Vec<u32> = handled.iter().copied().filter(|m| direct.contains(m)).collect();
        if direct.len() < hd.len() || direct[..hd.len()] != hd[..] {
            ex.fail("C19:fifo-prefix", format!("actor {a}: handled {hd:?} is not a prefix of accepted {direct:?}"));
        }
    }
    // 5. calls: a reply needs a handler; once the target is gone the call must be over
    let call_ids: Vec<u32> = d.calls.keys().copied().collect();
    let mut grace_done = false;
    for c in call_ids {
        let slot = d.calls.get_mut(&c).unwrap();
        if slot.result.is_none() {
            if let Poll::Ready(r) = poll_once(slot.fut.as_mut().unwrap().as_mut()) {
                slot.result = Some(show_call(&r));
                slot.fut = None;
            }
        }
        let handled_by = seen_global.get(&c).copied();
        match slot.result.as_deref() {
            Some(r) if r.starts_with("reply") || r == "noreply" => {
                // (a call routed by a group is answered NoReply without a handler when the channel holding its
                // envelope is destroyed: the group's broker was the last sender)
                if handled_by.is_none() && !(r == "noreply" && slot.target.is_none()) {
                    ex.fail("C19:reply-without-handler", format!("call {c} -> {r} but no handler ran"));
                }
            }
            Some("full") | Some("closed") => {
                if handled_by.is_some() {
                    ex.fail("C19:rejected-call-handled", format!("call {c} rejected but handled"));
                }
            }
            Some(_) => {}
            None => {
                // still pending: every actor that could hold it has exited (all reachable actors were stopped)
                let target_gone = match slot.target {
                    Some(t) => exited.contains(&t),
                    None => true,
                };
                if target_gone {
                    if !grace_done {
                        thread::sleep(Duration::from_millis(20));
                        grace_done = true;
                    }
                    if let Poll::Pending = poll_once(slot.fut.as_mut().unwrap().as_mut()) {
                        ex.tag("f14-stranded-call");
                        ex.fail(
                            "F14:call-stranded-at-exit",
                            format!(
                                "call {c} to actor {:?} still pending after the actor exited (handled by {:?}): its envelope was queued when the receiver was dropped",
                                slot.target, handled_by
                            ),
                        );
                    }
                }
            }
        }
    }
    // 6. names: observed lifetimes [pre_start ok .. post_stop] of actors sharing a name never overlap
    let mut by_name: BTreeMap<String, Vec<(u32, u64, u64)>> = BTreeMap::new();
    for a in &ids {
        let s = &d.actors[a];
        let Some(n) = &s.name else { continue };
        let l = d.log.of_seq(*a);
        let start = l.iter().find(|e| e.0 == Obs::Hook(0, true)).map(|e| e.1);
        let end = l.iter().find(|e| matches!(e.0, Obs::Hook(3, _))).map(|e| e.1).unwrap_or(u64::MAX);
        if let Some(st) = start {
            by_name.entry(n.clone()).or_default().push((*a, st, end));
        }
    }
    for (n, ivs) in &by_name {
        for i in 0..ivs.len() {
            for j in i + 1..ivs.len() {
                let (a, b) = (ivs[i], ivs[j]);
                if !(a.2 < b.1 || b.2 < a.1) {
                    ex.fail("C19:name-shared", format!("name {n}: actors {} and {} alive at the same time", a.0, b.0));
                }
            }
        }
    }
    // after everything exited no name we used may still resolve
    let names: BTreeSet<String> = d.actors.values().filter_map(|s| s.name.clone()).collect();
    let unreachable_named = d.actors.values().any(|s| s.name.is_some() && !s.started && s.hooks[0]);
    if !unreachable_named {
        for n in names {
            let owners_all_exited = d.actors.iter().all(|(a, s)| s.name.as_ref() != Some(&n) || exited.contains(a) || !s.hooks[0] || !s.started);
            if owners_all_exited && d.cluster.as_ref().unwrap().lookup::<TestActor, _>(n.clone()).is_some() {
                ex.fail("C19:name-not-released", format!("name {n} still registered after its actors exited"));
            }
        }
    }
    // a name whose holders are all gone (exited, or failed to start) can be reserved again
    let names: BTreeSet<String> = d.actors.values().filter_map(|s| s.name.clone()).collect();
    for n in names {
        let all_gone = d.actors.iter().filter(|(_, s)| s.name.as_ref() == Some(&n)).all(|(a, s)| {
            exited.contains(a) || (!s.hooks[0] && d.log.of(*a).contains(&Obs::Hook(0, false)))
        });
        if all_gone {
            let log = d.log.clone();
            let mut probe = d
                .cluster
                .as_ref()
                .unwrap()
                .spawn(move || TestActor { id: 999_999, hooks: [true; 4], log, extra: None, gate: None, drop_gate: None }, ())
                .with_name(n.clone())
                .into_future();
            if let Poll::Ready(Err(SpawnError::NameTaken(_))) = poll_once(Pin::new(&mut probe)) {
                ex.fail("C19:name-not-released", format!("name {n}: every holder exited or failed to start, yet a new spawn gets NameTaken"));
            }
        }
    }
    // 7. shut the cluster down
    d.z.stop();
    if let Some(r) = d.release.take() {
        r.send(()).ok();
    }
    d.groups.clear();
    d.calls.clear();
    d.actors.clear();
    if let Some(c) = d.cluster.take() {
        if block_on_timeout(c.join(), LONG).is_none() {
            ex.fail("C19:harness-join", "cluster.join() did not finish within 10 s");
        }
    }
}

fn exec_det(case: &Case) -> Exec {
    let mut ex = Exec::new();
    let mut d = Det::new();
    for line in &case.lines {
        let w: Vec<&str> = line.split_whitespace().collect();
        let out = if w.first() == Some(&"hist") { judge_hist(&w[1..]) } else { d.op(&w) };
        // a call future that has its answer gives up the `Mailbox` it owns as soon as it is polled
        for c in d.calls.values_mut() {
            if let Some(f) = c.fut.as_mut() {
                if let Poll::Ready(r) = poll_once(f.as_mut()) {
                    c.result = Some(show_call(&r));
                    c.fut = None;
                }
            }
        }
        if let Some(t) = w.first() {
            ex.tag(format!("op:{t}"));
        }
        match out.as_str() {
            "full" => ex.tag("res:full"),
            "closed" => ex.tag("res:closed"),
            "nametaken" => ex.tag("res:nametaken"),
            "startfail" => ex.tag("res:startfail"),
            "noreply" => ex.tag("res:noreply"),
            _ => {}
        }
        ex.out.push(out);
    }
    finish_det(&mut d, &mut ex);
    ex.nontrivial = case.lines.iter().any(|l| l == "run") && case.lines.len() >= 4;
    ex
}

// ---------------------------------------------------------------------------------------------
// conc cases: uncontrolled schedules, judged as histories

/// widens the race windows inside handlers (deterministic per (actor, message))
struct ConcShared {
    salt: u64,
    /// global logical clock for invocation / response stamps
    clock: AtomicU64,
}

impl ConcShared {
    fn tick(&self) -> u64 {
        self.clock.fetch_add(1, Ordering::SeqCst)
    }
}

/// a supervisor that restarts: on `terminated` / `failed` of a child named `r<id>` it spawns a replacement under
/// the same name (the old registration must be gone by then), which stops itself at once
#[derive(Default)]
struct RespawnStats {
    attempts: AtomicU64,
    taken: AtomicU64,
    /// (replacement id, name)
    ids: Mutex<Vec<(u32, String)>>,
}

impl ConcShared {
    async fn in_handler(&self, actor: u32, msg: u32) {
        let mut h = Rng::new(self.salt ^ ((actor as u64) << 32) ^ msg as u64);
        let x = h.next();
        for _ in 0..(x % 3) {
            YieldNow(false).await;
        }
        if x % 11 == 0 {
            thread::yield_now();
        }
    }
}

#[derive(Clone, Debug)]
struct ConcSpec {
    workers: usize,
    seed: u64,
    actors: u32,
    senders: u32,
    msgs: u32,
    sup: bool,
    churn: bool,
}

impl ConcSpec {
    fn line(&self) -> String {
        format!(
            "conc {} {} {} {} {} {} {}",
            self.workers, self.seed, self.actors, self.senders, self.msgs, self.sup as u8, self.churn as u8
        )
    }

    fn parse(w: &[&str]) -> Option<ConcSpec> {
        if w.len() != 8 || w[0] != "conc" {
            return None;
        }
        Some(ConcSpec {
            workers: w[1].parse().ok().filter(|x| (1..=8).contains(x))?,
            seed: w[2].parse().ok()?,
            actors: w[3].parse().ok().filter(|x| (1..=16).contains(x))?,
            senders: w[4].parse().ok().filter(|x| (1..=8).contains(x))?,
            msgs: w[5].parse().ok().filter(|x| *x <= 2000)?,
            sup: w[6] == "1",
            churn: w[7] == "1",
        })
    }
}

/// what one sender thread did: (message id, direct target or None for a group, accepted?)
struct SenderLog {
    /// casts through the message group: (id, stamp before, stamp after, accepted)
    gsends: Vec<(u32, u64, u64, bool)>,
    sends: Vec<(u32, Option<u32>, bool)>,
    /// calls: id, direct target, future (None once resolved), result letter
    calls: Vec<(u32, Option<u32>, Option<CallFut>, char)>,
}

fn call_letter(r: &Result<u32, CallError<Ask>>) -> char {
    match r {
        Ok(_) => 'r',
        Err(CallError::NoReply) => 'n',
        Err(CallError::Full(_)) => 'f',
        Err(CallError::Closed(_)) => 'c',
    }
}

fn join_ids(v: &[u32]) -> String {
    if v.is_empty() { "-".into() } else { v.iter().map(|x| x.to_string()).collect::<Vec<_>>().join(",") }
}

/// run one concurrent scenario on a real cluster; returns the `hist` lines
fn run_conc(spec: &ConcSpec) -> Vec<String> {
    let mut rng = Rng::new(spec.seed);
    let cluster = make_cluster(spec.workers);
    let log = Arc::new(Log::default());
    let shared = Arc::new(ConcShared { salt: spec.seed, clock: AtomicU64::new(1) });
    let names = ["a", "b", "c"];
    let mut hist: Vec<String> = vec![];
    // options of this scenario
    let opt_respawn = rng.chance(1, 2);
    let opt_early_sup_stop = rng.chance(1, 4);
    let opt_sink = rng.chance(1, 2);
    let opt_gchurn = rng.chance(2, 3);
    let respawn_stats = Arc::new(RespawnStats::default());

    // supervisor
    let children = Arc::new(Mutex::new(vec![]));
    let sup = if spec.sup {
        let (l, ch) = (log.clone(), children.clone());
        let r = block_on_timeout(
            cluster
                .spawn(
                    {
                        let rs = if opt_respawn { Some(respawn_stats.clone()) } else { None };
                        move || Sup { id: 1000, log: l, children: ch, stop_on_start: false, keep: false, respawn: rs }
                    },
                    (),
                )
                .with_capacity(NonZeroUsize::new(4096).unwrap())
                .into_future(),
            LONG,
        );
        match r {
            Some(Ok(x)) => Some(x),
            _ => None,
        }
    } else {
        None
    };

    // actors
    struct A {
        id: u32,
        name: Option<String>,
        hooks: [bool; 4],
        supervised: bool,
        mailbox: Option<Mailbox<TestActor>>,
        handle: Option<ActorHandle<u32>>,
        fate: char, // X exited, F start failed, L unknown, T name taken
        exit: Option<ActorExit<u32>>,
    }
    let mut actors: Vec<A> = vec![];
    let mut used_keys: BTreeSet<(Option<String>, usize)> = BTreeSet::new();
    for i in 0..spec.actors {
        let id = i + 1;
        let name = if rng.chance(1, 3) { Some(rng.pick(&names).to_string()) } else { None };
        let cap = rng.range(1, 6) as usize;
        let hooks = if rng.chance(1, 10) {
            let k = rng.below(4) as usize;
            [k != 0, k != 1, k != 2, k != 3]
        } else {
            [true; 4]
        };
        let mut name = name;
        let restartable = sup.is_some() && opt_respawn && rng.chance(1, 2);
        if restartable {
            name = Some(format!("r{id}"));
        }
        let supervised = restartable || (sup.is_some() && rng.chance(1, 2) && used_keys.insert((name.clone(), cap)));
        if restartable {
            used_keys.insert((name.clone(), cap));
        }
        let (l, x) = (log.clone(), shared.clone());
        let mut sp = cluster
            .spawn(move || TestActor { id, hooks, log: l, extra: Some(x), gate: None, drop_gate: None }, ())
            .with_capacity(NonZeroUsize::new(cap).unwrap());
        if let Some(n) = &name {
            sp = sp.with_name(n.clone());
        }
        if supervised {
            children.lock().unwrap().push(((name.clone(), cap), id));
            sp = sp.with_supervisor(&sup.as_ref().unwrap().0);
        }
        let r = block_on_timeout(sp.into_future(), LONG);
        let mut a = A { id, name, hooks, supervised, mailbox: None, handle: None, fate: 'L', exit: None };
        match r {
            Some(Ok((m, h))) => {
                a.mailbox = Some(m);
                a.handle = Some(h);
            }
            Some(Err(SpawnError::Start(_))) => a.fate = 'F',
            Some(Err(SpawnError::NameTaken(_))) => a.fate = 'T',
            _ => a.fate = '?',
        }
        actors.push(a);
    }
    let boxes: Vec<(u32, Mailbox<TestActor>)> =
        actors.iter().filter_map(|a| a.mailbox.clone().map(|m| (a.id, m))).collect();

    // groups over random subsets
    let gm: ProcessGroup<Msg> = ProcessGroup::new();
    let gc: ProcessGroup<Call<Ask, u32>> = ProcessGroup::new();
    let mut memberships_m = vec![];
    let mut memberships_c = vec![];
    // membership intervals per actor in `gm`: (stamp before join, stamp after leave or MAX)
    let mut windows: Vec<(u32, u64, u64)> = vec![];
    // a member that is always live and never full: while it is there no group cast may be handed back
    let sink = if opt_sink {
        let l = log.clone();
        match block_on_timeout(
            cluster
                .spawn(move || TestActor { id: 3301, hooks: [true; 4], log: l, extra: None, gate: None, drop_gate: None }, ())
                .with_capacity(NonZeroUsize::new(8192).unwrap())
                .into_future(),
            LONG,
        ) {
            Some(Ok((m, h))) => {
                memberships_m.push(gm.join(m.broker()));
                windows.push((3301, 0, u64::MAX / 2));
                Some((m, h))
            }
            _ => None,
        }
    } else {
        None
    };
    for (a, m) in &boxes {
        if rng.chance(1, 2) {
            memberships_m.push(gm.join(m.broker()));
            windows.push((*a, 0, u64::MAX / 2));
        }
        if rng.chance(1, 2) {
            memberships_c.push(gc.join(m.broker()));
        }
    }

    // sender threads
    let mut threads = vec![];
    for t in 0..spec.senders {
        let boxes = boxes.clone();
        let (gm, gc) = (gm.clone(), gc.clone());
        let mut r = rng.fork();
        let msgs = spec.msgs;
        let sh = shared.clone();
        threads.push(thread::spawn(move || {
            let mut sl = SenderLog { gsends: vec![], sends: vec![], calls: vec![] };
            if boxes.is_empty() {
                return sl;
            }
            for i in 0..msgs {
                let id = (t + 1) * 100_000 + i;
                let (a, mb) = &boxes[r.below(boxes.len() as u64) as usize];
                match r.below(100) {
                    0..=64 => {
                        let kind = match r.below(40) {
                            0 => b'f',
                            1 => b's',
                            2 => b'x',
                            _ => b'n',
                        };
                        let ok = mb.send(Msg { id, kind }).is_ok();
                        sl.sends.push((id, Some(*a), ok));
                    }
                    65..=76 => {
                        let t0 = sh.tick();
                        let ok = gm.send(Msg { id, kind: b'n' }).is_ok();
                        let t1 = sh.tick();
                        sl.gsends.push((id, t0, t1, ok));
                        sl.sends.push((id, None, ok));
                    }
                    77..=90 => {
                        let kind = *r.pick(&[b'r', b'r', b'r', b'i', b'q', b'd']);
                        let m2 = mb.clone();
                        let mut fut: CallFut = Box::pin(async move { m2.call::<Ask, u32>(Ask { id, kind }).await });
                        match poll_once(fut.as_mut()) {
                            Poll::Ready(res) => {
                                // answered within the first poll: accepted unless Full / Closed
                                let l = call_letter(&res);
                                sl.sends.push((id, Some(*a), l == 'r' || l == 'n'));
                                sl.calls.push((id, Some(*a), None, l));
                            }
                            Poll::Pending => {
                                sl.sends.push((id, Some(*a), true));
                                sl.calls.push((id, Some(*a), Some(fut), 'p'));
                            }
                        }
                    }
                    91..=95 => {
                        let g2 = gc.clone();
                        let mut fut: CallFut = Box::pin(async move { g2.call(Ask { id, kind: b'r' }).await });
                        match poll_once(fut.as_mut()) {
                            Poll::Ready(res) => {
                                let l = call_letter(&res);
                                sl.sends.push((id, None, l == 'r' || l == 'n'));
                                sl.calls.push((id, None, None, l));
                            }
                            Poll::Pending => {
                                sl.sends.push((id, None, true));
                                sl.calls.push((id, None, Some(fut), 'p'));
                            }
                        }
                    }
                    96..=97 => {
                        mb.stop();
                    }
                    _ => thread::yield_now(),
                }
                if r.chance(1, 8) {
                    thread::yield_now();
                }
            }
            sl
        }));
    }

    // membership churn: join / leave the cast group while casts are being routed
    let gchurn = if opt_gchurn && !boxes.is_empty() {
        let (boxes, gm, sh) = (boxes.clone(), gm.clone(), shared.clone());
        let mut r = rng.fork();
        let rounds = (spec.msgs / 2).clamp(4, 100);
        Some(thread::spawn(move || {
            let mut w: Vec<(u32, u64, u64)> = vec![];
            for _ in 0..rounds {
                let (a, mb) = &boxes[r.below(boxes.len() as u64) as usize];
                let t0 = sh.tick();
                let m = gm.join(mb.broker());
                for _ in 0..r.below(4) {
                    thread::yield_now();
                }
                if r.chance(1, 2) {
                    m.leave();
                } else {
                    drop(m);
                }
                let t1 = sh.tick();
                w.push((*a, t0, t1));
            }
            w
        }))
    } else {
        None
    };
    // a supervisor that stops while its children are running / starting / failing
    if opt_early_sup_stop {
        if let Some((smb, _)) = &sup {
            for _ in 0..rng.below(20) {
                thread::yield_now();
            }
            smb.stop();
        }
    }

    // name churn: one thread per name spawns short-lived actors under that name, one after the other
    let mut churn_threads = vec![];
    if spec.churn {
        for (k, n) in ["x", "y"].iter().enumerate() {
            let (cl, l) = (cluster.clone(), log.clone());
            let rounds = (spec.msgs / 4).clamp(3, 40);
            churn_threads.push(thread::spawn(move || {
                let mut taken = 0u32;
                let mut ids = vec![];
                for j in 0..rounds {
                    let id = 2000 + (k as u32) * 500 + j;
                    let l2 = l.clone();
                    let r = block_on_timeout(
                        cl.spawn(move || TestActor { id, hooks: [true; 4], log: l2, extra: None, gate: None, drop_gate: None }, ())
                            .with_name(*n)
                            .into_future(),
                        LONG,
                    );
                    match r {
                        Some(Ok((m, h))) => {
                            ids.push(id);
                            if cl.lookup::<TestActor, _>(*n).is_none() {
                                taken += 1000; // registered actor not visible
                            }
                            m.send(Msg { id: 3_000_000 + id, kind: b's' }).ok();
                            if block_on_timeout(h, LONG).is_none() {
                                taken += 100_000;
                            }
                        }
                        Some(Err(SpawnError::NameTaken(_))) => taken += 1,
                        _ => taken += 1_000_000,
                    }
                }
                (n.to_string(), taken, ids)
            }));
        }
    }

    // overlapping spawns under one name: the second arrives while the first is parked inside `pre_start`
    // (name reserved, not activated); both orders of completion
    let mut z_ids: Vec<u32> = vec![];
    {
        let (etx, erx) = mpsc::channel();
        let (rtx, rrx) = oneshot::channel();
        let l = log.clone();
        let gate = StartGate { entered: etx, release: Mutex::new(Some(rrx)) };
        let mut fut1 = cluster
            .spawn(move || TestActor { id: 3001, hooks: [true; 4], log: l, extra: None, gate: Some(gate), drop_gate: None }, ())
            .with_name("z")
            .with_capacity(NonZeroUsize::new(7).unwrap())
            .into_future();
        let _ = poll_once(Pin::new(&mut fut1));
        let entered = erx.recv_timeout(LONG).is_ok();
        let hidden = cluster.lookup::<TestActor, _>("z").is_none();
        let l = log.clone();
        let r2 = block_on_timeout(
            cluster
                .spawn(move || TestActor { id: 3002, hooks: [true; 4], log: l, extra: None, gate: None, drop_gate: None }, ())
                .with_name("z")
                .with_capacity(NonZeroUsize::new(9).unwrap())
                .into_future(),
            LONG,
        );
        let taken = matches!(r2, Some(Err(SpawnError::NameTaken(_))));
        rtx.send(()).ok();
        let r1 = block_on_timeout(fut1, LONG);
        let found = cluster.lookup::<TestActor, _>("z");
        let visible = found.is_some();
        let first = found.map(|m| m.capacity().get() == 7).unwrap_or(false);
        let mut live: Vec<(Mailbox<TestActor>, ActorHandle<u32>)> = vec![];
        if let Some(Ok(x)) = r1 {
            z_ids.push(3001);
            live.push(x);
        }
        if let Some(Ok(x)) = r2 {
            z_ids.push(3002);
            live.push(x);
        }
        if rng.chance(1, 2) {
            live.reverse();
        }
        let mut all_exited = entered;
        for (m, h) in live {
            m.stop();
            all_exited &= block_on_timeout(h, LONG).is_some();
        }
        // free again: invisible, and a fresh spawn under the name succeeds
        let mut free = all_exited && cluster.lookup::<TestActor, _>("z").is_none();
        let l = log.clone();
        match block_on_timeout(
            cluster
                .spawn(move || TestActor { id: 3003, hooks: [true; 4], log: l, extra: None, gate: None, drop_gate: None }, ())
                .with_name("z")
                .into_future(),
            LONG,
        ) {
            Some(Ok((m, h))) => {
                z_ids.push(3003);
                m.stop();
                free &= block_on_timeout(h, LONG).is_some();
            }
            _ => free = false,
        }
        hist.push(format!(
            "hist overlap {} {} {} {} {}",
            taken as u8, hidden as u8, visible as u8, first as u8, free as u8
        ));
    }

    // failed start followed at once by a respawn under the same name, while the failed actor value is still
    // being dropped on the worker (slow `Drop`): the spawner has seen `SpawnError::Start`, so the name must be free
    {
        let (etx, erx) = mpsc::channel();
        let (rtx, rrx) = mpsc::channel();
        let l = log.clone();
        let dg = DropGate { entered: etx, release: Mutex::new(rrx) };
        let r1 = block_on_timeout(
            cluster
                .spawn(
                    move || TestActor { id: 3101, hooks: [false, true, true, true], log: l, extra: None, gate: None, drop_gate: Some(dg) },
                    (),
                )
                .with_name("w")
                .into_future(),
            LONG,
        );
        let failed = matches!(r1, Some(Err(SpawnError::Start(_))));
        // the spawner knows of the failure; the worker may still be inside the failed task (dropping the actor)
        let l = log.clone();
        let mut fut2 = cluster
            .spawn(move || TestActor { id: 3102, hooks: [true; 4], log: l, extra: None, gate: None, drop_gate: None }, ())
            .with_name("w")
            .into_future();
        let first = poll_once(Pin::new(&mut fut2));
        let refused = matches!(first, Poll::Ready(Err(SpawnError::NameTaken(_))));
        let in_drop = erx.recv_timeout(LONG).is_ok();
        rtx.send(()).ok();
        let r2 = match first {
            Poll::Ready(r) => Some(r),
            Poll::Pending => block_on_timeout(fut2, LONG),
        };
        let mut respawned = false;
        if let Some(Ok((m, h))) = r2 {
            z_ids.push(3102);
            m.stop();
            respawned = block_on_timeout(h, LONG).is_some();
        }
        hist.push(format!("hist refail {} {} {}", (failed && in_drop) as u8, !refused as u8, respawned as u8));
    }

    let mut slogs: Vec<SenderLog> = threads.into_iter().map(|t| t.join().expect("sender thread")).collect();
    if let Some(t) = gchurn {
        windows.extend(t.join().expect("group churn thread"));
    }
    // every handle of a running actor dropped while messages are queued and a call is in flight: the task keeps
    // its own mailbox, so it must go on serving (and the call must be answered)
    let orphan_call: Option<CallFut>;
    let mut orphan_accepted: Vec<u32> = vec![];
    {
        let l = log.clone();
        match block_on_timeout(
            cluster
                .spawn(move || TestActor { id: 3201, hooks: [true; 4], log: l, extra: None, gate: None, drop_gate: None }, ())
                .with_capacity(NonZeroUsize::new(16).unwrap())
                .into_future(),
            LONG,
        ) {
            Some(Ok((m, h))) => {
                for i in 0..rng.range(1, 8) as u32 {
                    let id = 3_200_000 + i;
                    if m.send(Msg { id, kind: b'n' }).is_ok() {
                        orphan_accepted.push(id);
                    }
                }
                let m2 = m.clone();
                let mut fut: CallFut = Box::pin(async move { m2.call::<Ask, u32>(Ask { id: 3_200_100, kind: b'r' }).await });
                if poll_once(fut.as_mut()).is_pending() {
                    orphan_accepted.push(3_200_100);
                }
                orphan_call = Some(fut);
                drop(m);
                drop(h);
            }
            _ => orphan_call = None,
        }
    }
    let churned: Vec<(String, u32, Vec<u32>)> = churn_threads.into_iter().map(|t| t.join().expect("churn thread")).collect();

    // barrier: an actor that answers a call sent after all senders finished was alive all along
    let mut complete: BTreeSet<u32> = BTreeSet::new();
    for (a, mb) in &boxes {
        let id = 9_000_000 + a;
        let m2 = mb.clone();
        let mut fut: CallFut = Box::pin(async move { m2.call::<Ask, u32>(Ask { id, kind: b'r' }).await });
        let end = Instant::now() + LONG;
        loop {
            match poll_once(fut.as_mut()) {
                Poll::Ready(Ok(_)) => {
                    complete.insert(*a);
                    break;
                }
                Poll::Ready(Err(CallError::Full(_))) => {
                    // mailbox full of earlier messages: try again with a fresh call
                    if mb.is_closed() || Instant::now() > end {
                        break;
                    }
                    let m3 = mb.clone();
                    fut = Box::pin(async move { m3.call::<Ask, u32>(Ask { id, kind: b'r' }).await });
                    thread::yield_now();
                }
                Poll::Ready(Err(_)) => break,
                Poll::Pending => {
                    if mb.is_closed() || Instant::now() > end {
                        break;
                    }
                    thread::sleep(Duration::from_micros(50));
                }
            }
        }
    }

    // stop everything, wait for the exits
    for (_, mb) in &boxes {
        mb.stop();
    }
    for a in actors.iter_mut() {
        if let Some(h) = a.handle.take() {
            match block_on_timeout(h, LONG) {
                Some(Ok(e)) => {
                    a.fate = 'X';
                    a.exit = Some(e);
                }
                Some(Err(_)) => a.fate = 'L',
                None => a.fate = 'H', // stopped but never exited
            }
        }
    }
    // the sink and the orphan
    let mut extra_life: Vec<(u32, char)> = vec![];
    if let Some((m, h)) = sink {
        m.stop();
        extra_life.push((3301, if block_on_timeout(h, LONG).is_some() { 'X' } else { 'H' }));
    }
    if orphan_call.is_some() {
        // nobody can stop the orphan; it must have served everything it accepted
        let end = Instant::now() + LONG;
        while handled_of(&log.of(3201)).len() < orphan_accepted.len() && Instant::now() < end {
            thread::sleep(Duration::from_micros(200));
        }
        extra_life.push((3201, 'L'));
    }
    // the supervisor has everything once it saw one exit event per supervised child that exited, and the two
    // events of every replacement it spawned
    let mut sup_events: Vec<(u32, u8)> = vec![];
    if let Some((smb, sh)) = sup {
        if !opt_early_sup_stop {
            let base: usize = actors
                .iter()
                .filter(|a| a.supervised && a.fate == 'X')
                .map(|a| 1 + log.of(a.id).contains(&Obs::Hook(1, true)) as usize)
                .sum();
            let restarts = if opt_respawn {
                actors.iter().filter(|a| a.supervised && a.fate == 'X' && a.name.as_deref().is_some_and(|n| n.starts_with('r'))).count() as u64
            } else {
                0
            };
            let end = Instant::now() + LONG;
            loop {
                let ok_spawns = respawn_stats.ids.lock().unwrap().len();
                let done = respawn_stats.attempts.load(Ordering::SeqCst) >= restarts
                    && ok_spawns as u64 + respawn_stats.taken.load(Ordering::SeqCst) >= restarts
                    && log.of(1000).len() >= base + 2 * ok_spawns;
                if done || Instant::now() > end {
                    break;
                }
                thread::sleep(Duration::from_micros(200));
            }
        }
        smb.stop();
        block_on_timeout(sh, LONG);
        sup_events = log.of(1000).iter().filter_map(|o| if let Obs::Sup(k, c) = o { Some((*c, *k)) } else { None }).collect();
    }
    // give dropped reply senders a moment, then look at the calls a last time
    thread::sleep(Duration::from_millis(5));
    for sl in slogs.iter_mut() {
        for c in sl.calls.iter_mut() {
            if let Some(f) = c.2.as_mut() {
                if let Poll::Ready(r) = poll_once(f.as_mut()) {
                    c.3 = call_letter(&r);
                    c.2 = None;
                }
            }
        }
    }

    // ---- the history -------------------------------------------------------------------------
    let mut handled_by: HashMap<u32, u32> = HashMap::new();
    let mut all_handled: Vec<u32> = vec![];
    let gen1: Vec<(u32, String)> = respawn_stats.ids.lock().unwrap().clone();
    let mut every_id: Vec<u32> = actors.iter().map(|a| a.id).collect();
    every_id.extend(extra_life.iter().map(|x| x.0));
    every_id.extend(gen1.iter().map(|x| x.0));
    for a in &every_id {
        for m in handled_of(&log.of(*a)) {
            handled_by.entry(m).or_insert(*a);
            all_handled.push(m);
        }
    }
    // sink, orphan, replacements: lifecycle; the orphan served everything although nobody held it
    for (id, fate) in &extra_life {
        let shown: Vec<String> = log.of(*id).iter().map(Obs::show).collect();
        hist.push(format!("hist life {} {}", if *fate == 'X' { "X" } else { "L" }, shown.join(" ")).trim_end().to_string());
        if *fate == 'H' {
            hist.push(format!("hist stuck {id}"));
        }
    }
    if let Some(mut f) = orphan_call {
        let handled = handled_of(&log.of(3201));
        hist.push(format!("hist fifo C {} {}", join_ids(&handled), join_ids(&orphan_accepted)));
        let r = match poll_once(f.as_mut()) {
            Poll::Ready(r) => call_letter(&r),
            Poll::Pending => 'p',
        };
        // the orphan lives: a pending call would be a hang (it accepted the call and is idle)
        hist.push(format!("hist calls X {} 3200100:{}", join_ids(&handled), if r == 'p' && orphan_accepted.contains(&3_200_100) { 'h' } else { r }));
    }
    for (id, _) in &gen1 {
        let l = log.of(*id);
        let shown: Vec<String> = l.iter().map(Obs::show).collect();
        hist.push(format!("hist life L {}", shown.join(" ")).trim_end().to_string());
        if !opt_early_sup_stop {
            let seen: Vec<u32> = sup_events.iter().filter(|e| e.0 == *id).map(|e| e.1 as u32).collect();
            let po = l.contains(&Obs::Hook(1, true)) as u8;
            let ex = if l.iter().any(|o| matches!(o, Obs::Hook(3, _))) { "S" } else { "N" };
            hist.push(format!("hist sup {po} {ex} {}", join_ids(&seen)));
        }
    }
    if opt_respawn {
        hist.push(format!(
            "hist respawn {} {}",
            respawn_stats.attempts.load(Ordering::SeqCst),
            respawn_stats.taken.load(Ordering::SeqCst)
        ));
    }
    // casts under membership change: whoever handled a cast was a member at some moment between the cast's
    // invocation and its response; with the sink present no cast is handed back
    {
        let mut gs: Vec<(u32, u64, u64, bool)> = vec![];
        for sl in &slogs {
            gs.extend(sl.gsends.iter().copied());
        }
        let mut who: BTreeSet<u32> = windows.iter().map(|w| w.0).collect();
        who.extend(gs.iter().filter_map(|g| handled_by.get(&g.0).copied()));
        for a in who {
            let ivs: Vec<String> = windows.iter().filter(|w| w.0 == a).map(|w| format!("{}:{}", w.1, w.2)).collect();
            let ms: Vec<String> =
                gs.iter().filter(|g| handled_by.get(&g.0) == Some(&a)).map(|g| format!("{}:{}", g.1, g.2)).collect();
            if !ms.is_empty() {
                hist.push(format!("hist gwindow {} {}", if ivs.is_empty() { "-".to_string() } else { ivs.join(",") }, ms.join(",")));
            }
        }
        if opt_sink && windows.iter().any(|w| w.0 == 3301) {
            hist.push(format!("hist gsink {} {}", gs.len(), gs.iter().filter(|g| g.3).count()));
        }
    }
    for a in &actors {
        if a.fate == 'T' {
            continue;
        }
        let l = log.of(a.id);
        let fate = match a.fate {
            'X' => "X",
            'F' => "F",
            _ => "L",
        };
        let shown: Vec<String> = l.iter().map(Obs::show).collect();
        hist.push(format!("hist life {fate} {}", shown.join(" ")).trim_end().to_string());
        if a.fate == 'H' {
            hist.push(format!("hist stuck {}", a.id));
        }
        if a.fate == 'F' || !a.hooks[0] {
            continue;
        }
        let handled: Vec<u32> = handled_of(&l).into_iter().filter(|m| *m < 9_000_000).collect();
        // per sender: accepted direct sends to this actor, plus accepted group sends this actor handled
        let mut per: Vec<String> = vec![];
        for sl in &slogs {
            let acc: Vec<u32> = sl
                .sends
                .iter()
                .filter(|s| s.2 && (s.1 == Some(a.id) || (s.1.is_none() && handled_by.get(&s.0) == Some(&a.id))))
                .map(|s| s.0)
                .collect();
            per.push(join_ids(&acc));
        }
        let c = if complete.contains(&a.id) { "C" } else { "P" };
        hist.push(format!("hist fifo {c} {} {}", join_ids(&handled), per.join(";")));
        // calls addressed to this actor (or routed to it by the call group)
        let mut cs: Vec<String> = vec![];
        for sl in &slogs {
            for c in &sl.calls {
                if c.1 == Some(a.id) || (c.1.is_none() && handled_by.get(&c.0) == Some(&a.id)) {
                    cs.push(format!("{}:{}", c.0, c.3));
                }
            }
        }
        if !cs.is_empty() {
            hist.push(format!("hist calls {} {} {}", if a.fate == 'X' { "X" } else { "L" }, join_ids(&handled), cs.join(" ")));
        }
        if a.supervised {
            let seen: Vec<u32> = sup_events.iter().filter(|e| e.0 == a.id).map(|e| e.1 as u32).collect();
            let po = l.contains(&Obs::Hook(1, true)) as u8;
            let ex = match (&a.exit, a.fate) {
                (Some(ActorExit::Stopped), _) => "S",
                (Some(ActorExit::Failed(_)), _) => "E",
                _ => "N",
            };
            hist.push(format!("hist {} {po} {ex} {}", if opt_early_sup_stop { "supp" } else { "sup" }, join_ids(&seen)));
        }
    }
    // group calls nobody handled: must have been rejected or be stranded
    let mut orphan: Vec<String> = vec![];
    for sl in &slogs {
        for c in &sl.calls {
            if c.1.is_none() && !handled_by.contains_key(&c.0) {
                orphan.push(format!("{}:{}", c.0, c.3));
            }
        }
    }
    if !orphan.is_empty() {
        hist.push(format!("hist calls L - {}", orphan.join(" ")));
    }
    // a message whose send was rejected is never handled; nothing is handled twice
    let rejected: Vec<u32> = slogs.iter().flat_map(|sl| sl.sends.iter().filter(|s| !s.2).map(|s| s.0)).collect();
    let bad: Vec<u32> = rejected.into_iter().filter(|m| handled_by.contains_key(m)).collect();
    hist.push(format!("hist rejected {}", join_ids(&bad)));
    hist.push(format!("hist once {}", join_ids(&all_handled)));
    // names: observed lifetimes never overlap; a name is free again once its holder's handle resolved
    let mut by_name: BTreeMap<String, Vec<(u64, u64)>> = BTreeMap::new();
    let mut named: Vec<(String, u32)> = actors.iter().filter_map(|a| a.name.clone().map(|n| (n, a.id))).collect();
    for (n, _, ids) in &churned {
        for i in ids {
            named.push((n.clone(), *i));
        }
    }
    for (id, n) in &gen1 {
        named.push((n.clone(), *id));
    }
    for i in &z_ids {
        named.push(((if *i >= 3100 { "w" } else { "z" }).to_string(), *i));
    }
    for (n, id) in named {
        let l = log.of_seq(id);
        if let Some(st) = l.iter().find(|e| e.0 == Obs::Hook(0, true)).map(|e| e.1) {
            let en = l.iter().find(|e| matches!(e.0, Obs::Hook(3, _))).map(|e| e.1).unwrap_or(u64::MAX / 2);
            by_name.entry(n).or_default().push((st, en));
        }
    }
    for (n, ivs) in by_name {
        let s: Vec<String> = ivs.iter().map(|(a, b)| format!("{a}:{b}")).collect();
        hist.push(format!("hist names {}", s.join(" ")));
        let _ = n;
    }
    for (_, taken, _) in &churned {
        hist.push(format!("hist reuse {taken}"));
    }

    drop(memberships_m);
    drop(memberships_c);
    drop(slogs);
    if block_on_timeout(cluster.join(), LONG).is_none() {
        hist.push("hist stuck 0".into());
    }
    hist
}

fn parse_obs(t: &str) -> Option<Obs> {
    let b = t.as_bytes();
    if b.len() == 3 && b[0] == b'p' && (b[2] == b'+' || b[2] == b'-') {
        let h = match b[1] {
            b's' => 0,
            b'o' => 1,
            b'r' => 2,
            b't' => 3,
            _ => return None,
        };
        return Some(Obs::Hook(h, b[2] == b'+'));
    }
    if b.first() == Some(&b'h') && b.len() > 1 {
        return t[1..].parse().ok().map(Obs::Hs);
    }
    if b.first() == Some(&b'e') && b.len() > 2 {
        let ok = match b[b.len() - 1] {
            b'+' => true,
            b'-' => false,
            _ => return None,
        };
        return t[1..t.len() - 1].parse().ok().map(|m| Obs::He(m, ok));
    }
    None
}

fn nat_list(s: &str) -> Option<Vec<u64>> {
    if s == "-" {
        return Some(vec![]);
    }
    s.split(',').map(|x| if x.is_empty() || !x.bytes().all(|b| b.is_ascii_digit()) { None } else { x.parse().ok() }).collect()
}

/// The Rust acceptor of `hist` lines (the property monitors of conc cases). Returns the verdict and,
/// for a rejected or F14 line, the monitor signature.
fn judge(w: &[&str]) -> (String, Option<(&'static str, String)>) {
    let bad = || ("bad-op".to_string(), None);
    let verdict = |ok: bool, why: &'static str, sig: &'static str, detail: String| {
        if ok { ("accept".to_string(), None) } else { (format!("reject {why}"), Some((sig, detail))) }
    };
    match w {
        ["life", _, toks @ ..] if toks.iter().any(|t| t.starts_with("stopgranted")) => {
            // a stop() issued inside a stop hook reported that it requested the stop
            verdict(false, "lifecycle", "C19:stop-granted-while-stopping", w.join(" "))
        }
        ["life", _, toks @ ..] if toks.iter().any(|t| t.starts_with("open")) => {
            // a stop hook saw its own mailbox open
            verdict(false, "lifecycle", "C19:conc-lifecycle", w.join(" "))
        }
        ["life", fate, toks @ ..] => {
            let Some(log) = toks.iter().map(|t| parse_obs(t)).collect::<Option<Vec<Obs>>>() else { return bad() };
            let ok = match (life_run(&log), *fate) {
                (None, "X" | "F" | "L") => false,
                (Some(l), "X") => l == Life::Done,
                (Some(l), "F") => l == Life::DeadStart,
                (Some(_), "L") => true,
                _ => return bad(),
            };
            verdict(ok, "lifecycle", "C19:conc-lifecycle", w.join(" "))
        }
        ["fifo", c, handled, senders] => {
            let (Some(h), Some(ss)) = (nat_list(handled), senders.split(';').map(nat_list).collect::<Option<Vec<_>>>()) else {
                return bad();
            };
            let complete = match *c {
                "C" => true,
                "P" => false,
                _ => return bad(),
            };
            let mut ok = true;
            let set: BTreeSet<u64> = h.iter().copied().collect();
            ok &= set.len() == h.len();
            ok &= h.iter().all(|m| ss.iter().any(|s| s.contains(m)));
            for acc in &ss {
                let mine: Vec<u64> = h.iter().copied().filter(|m| acc.contains(m)).collect();
                ok &= mine.len() <= acc.len() && acc[..mine.len()] == mine[..];
                ok &= !complete || mine.len() == acc.len();
            }
            verdict(ok, "fifo", "C19:conc-fifo", w.join(" "))
        }
        ["once", ids] => {
            let Some(l) = nat_list(ids) else { return bad() };
            let set: BTreeSet<u64> = l.iter().copied().collect();
            verdict(set.len() == l.len(), "handled-twice", "C19:conc-handled-twice", w.join(" "))
        }
        ["rejected", ids] => {
            let Some(l) = nat_list(ids) else { return bad() };
            verdict(l.is_empty(), "rejected-handled", "C19:conc-rejected-handled", w.join(" "))
        }
        ["calls", x, handled, cs @ ..] => {
            let Some(h) = nat_list(handled) else { return bad() };
            let exited = match *x {
                "X" => true,
                "L" => false,
                _ => return bad(),
            };
            let mut ok = true;
            let mut stranded = vec![];
            let mut hangs: Vec<u64> = vec![];
            for c in cs {
                let Some((i, r)) = c.split_once(':') else { return bad() };
                if i.is_empty() || !i.bytes().all(|b| b.is_ascii_digit()) {
                    return bad();
                }
                let Ok(i) = i.parse::<u64>() else { return bad() };
                let was = h.contains(&i);
                match r {
                    "r" | "n" => ok &= was,
                    "f" | "c" => ok &= !was,
                    // accepted by an actor that is alive and idle, never answered
                    "h" => hangs.push(i),
                    "p" => {
                        ok &= !exited || !was;
                        if exited && !was {
                            stranded.push(i);
                        }
                    }
                    _ => return bad(),
                }
            }
            if !hangs.is_empty() {
                return (
                    "reject call-hangs".into(),
                    Some(("C19:call-hangs", format!("calls {hangs:?} accepted by a live idle actor were never answered: {}", w.join(" ")))),
                );
            }
            if ok && !stranded.is_empty() {
                return (
                    "accept".into(),
                    Some((
                        "F14:call-stranded-at-exit",
                        format!("calls {stranded:?} still pending after the actor exited (handled by None): envelopes queued when the receiver was dropped"),
                    )),
                );
            }
            verdict(ok, "call", "C19:conc-call", w.join(" "))
        }
        ["names", ivs @ ..] => {
            let mut l = vec![];
            for iv in ivs {
                let Some((a, b)) = iv.split_once(':') else { return bad() };
                let ok_num = |s: &str| !s.is_empty() && s.bytes().all(|b| b.is_ascii_digit());
                if !ok_num(a) || !ok_num(b) {
                    return bad();
                }
                let (Ok(a), Ok(b)) = (a.parse::<u64>(), b.parse::<u64>()) else { return bad() };
                l.push((a, b));
            }
            let mut ok = true;
            for i in 0..l.len() {
                for j in i + 1..l.len() {
                    ok &= l[i].1 < l[j].0 || l[j].1 < l[i].0;
                }
            }
            verdict(ok, "name-overlap", "C19:conc-name-shared", w.join(" "))
        }
        ["reuse", n] => {
            if n.is_empty() || !n.bytes().all(|b| b.is_ascii_digit()) {
                return bad();
            }
            verdict(*n == "0", "name-not-free", "C19:conc-name-not-free", w.join(" "))
        }
        ["sup", po, ex, seen] => {
            let Some(s) = nat_list(seen) else { return bad() };
            let mut expect: Vec<u64> = vec![];
            match *po {
                "1" => expect.push(0),
                "0" => {}
                _ => return bad(),
            }
            match *ex {
                "S" => expect.push(1),
                "E" => expect.push(2),
                "N" => {}
                _ => return bad(),
            }
            verdict(s == expect, "supervision", "C19:conc-supervision", w.join(" "))
        }
        ["stuck", _] => ("reject stuck".into(), Some(("C19:conc-stuck", w.join(" ")))),
        ["abort"] => (
            "reject abort".into(),
            Some(("C19:abort", "the process running this scenario on the real code was aborted (panic in a no-unwind context)".into())),
        ),
        ["hang"] => ("reject hang".into(), Some(("C19:hang", "the process running this scenario made no progress".into()))),
        ["panic", ..] => ("reject panic".into(), Some(("C19:harness-panic", w.join(" ")))),
        ["supp", po, ex, seen] => {
            // the supervisor stopped at some point: it saw a prefix of what the child told it
            let Some(s) = nat_list(seen) else { return bad() };
            let mut expect: Vec<u64> = vec![];
            match *po {
                "1" => expect.push(0),
                "0" => {}
                _ => return bad(),
            }
            match *ex {
                "S" => expect.push(1),
                "E" => expect.push(2),
                "N" => {}
                _ => return bad(),
            }
            verdict(s.len() <= expect.len() && expect[..s.len()] == s[..], "supervision", "C19:conc-supervision", w.join(" "))
        }
        ["respawn", n, t] => {
            let num = |x: &str| if !x.is_empty() && x.bytes().all(|b| b.is_ascii_digit()) { x.parse::<u64>().ok() } else { None };
            let (Some(n), Some(t)) = (num(n), num(t)) else { return bad() };
            verdict(t == 0 && t <= n, "respawn-name-taken", "C19:name-not-released", w.join(" "))
        }
        ["gwindow", ivs, ms] => {
            let parse = |x: &str| -> Option<Vec<(u64, u64)>> {
                if x == "-" {
                    return Some(vec![]);
                }
                x.split(',')
                    .map(|p| {
                        let (a, b) = p.split_once(':')?;
                        let ok = |s: &str| !s.is_empty() && s.bytes().all(|b| b.is_ascii_digit());
                        if !ok(a) || !ok(b) {
                            return None;
                        }
                        Some((a.parse().ok()?, b.parse().ok()?))
                    })
                    .collect()
            };
            let (Some(ivs), Some(ms)) = (parse(ivs), parse(ms)) else { return bad() };
            let ok = ms.iter().all(|(si, sr)| ivs.iter().any(|(ji, lr)| ji < sr && si < lr));
            verdict(ok, "routed-to-non-member", "C19:group-routed-to-departed-member", w.join(" "))
        }
        ["gsink", n, k] => {
            let num = |x: &str| if !x.is_empty() && x.bytes().all(|b| b.is_ascii_digit()) { x.parse::<u64>().ok() } else { None };
            let (Some(n), Some(k)) = (num(n), num(k)) else { return bad() };
            verdict(n == k, "cast-lost", "C19:group-cast-lost-despite-available-member", w.join(" "))
        }
        ["refail", flags @ ..] if flags.len() == 3 && flags.iter().all(|f| *f == "0" || *f == "1") => {
            // start failure observed (and the failed actor still being dropped) / respawn under the same name
            // accepted at once / the respawned actor ran and exited
            verdict(flags.iter().all(|f| *f == "1"), "name-not-released", "C19:name-not-released", w.join(" "))
        }
        ["overlap", flags @ ..] if flags.len() == 5 && flags.iter().all(|f| *f == "0" || *f == "1") => {
            // second spawn refused / name hidden while starting / visible once started / resolves to the first /
            // free after both are gone
            verdict(flags.iter().all(|f| *f == "1"), "overlapping-spawn", "C19:two-live-actors-one-name", w.join(" "))
        }
        _ => bad(),
    }
}

fn judge_hist(w: &[&str]) -> String {
    judge(w).0
}

thread_local! {
    /// conc cases already executed by the generator in this process (their history is in the case)
    static RAN: std::cell::RefCell<BTreeSet<String>> = const { std::cell::RefCell::new(BTreeSet::new()) };
}

fn exec_conc(case: &Case, fresh: bool) -> Exec {
    let mut ex = Exec::new();
    for line in &case.lines {
        let w: Vec<&str> = line.split_whitespace().collect();
        match w.first().copied() {
            Some("conc") => match ConcSpec::parse(&w) {
                Some(spec) => {
                    ex.tag(format!("conc:workers={}", spec.workers));
                    if fresh {
                        // replay / corpus: run the scenario again on the real code and judge what it does now
                        for h in run_conc(&spec) {
                            let hw: Vec<&str> = h.split_whitespace().collect();
                            if let (_, Some((sig, detail))) = judge(&hw[1..]) {
                                ex.fail(sig, format!("(re-run) {detail}"));
                            }
                        }
                    }
                    ex.nontrivial = spec.senders >= 2;
                    ex.out.push("ran".into());
                }
                None => ex.out.push("bad-op".into()),
            },
            Some("judge") => {
                // differential test of the two acceptors only: no monitor attached
                ex.tag(format!("judge:{}", w.get(1).copied().unwrap_or("?")));
                let v = judge(&w[1..]).0;
                if v != "accept" {
                    ex.tag("judge-verdict:not-accept");
                }
                ex.nontrivial = true;
                ex.out.push(v);
            }
            Some("hist") => {
                let (v, f) = judge(&w[1..]);
                ex.tag(format!("hist:{}", w.get(1).copied().unwrap_or("?")));
                if let Some((sig, detail)) = f {
                    if sig.starts_with("F14") {
                        ex.tag("f14-stranded-call");
                    }
                    ex.fail(sig, detail);
                }
                ex.out.push(v);
            }
            _ => ex.out.push("bad-op".into()),
        }
    }
    ex
}

fn gen_conc(rng: &mut Rng, i: usize, big: bool) -> Case {
    let spec = ConcSpec {
        workers: rng.range(1, 4) as usize,
        seed: rng.next() % 1_000_000_007,
        actors: rng.range(1, if big { 8 } else { 5 }) as u32,
        senders: rng.range(1, 4) as u32,
        msgs: rng.range(5, if big { 400 } else { 80 }) as u32,
        sup: rng.chance(1, 2),
        churn: rng.chance(1, 3),
    };
    let name = format!("conc-{i}");
    let mut lines = vec![spec.line()];
    lines.extend(worker_conc(&spec));
    RAN.with(|r| r.borrow_mut().insert(name.clone()));
    Case { name, lines }
}

// ---------------------------------------------------------------------------------------------
// generators

fn kind_of(rng: &mut Rng, call: bool) -> char {
    if call {
        *rng.pick(&['r', 'r', 'r', 'r', 'i', 'q', 'd'])
    } else {
        *rng.pick(&['n', 'n', 'n', 'n', 'n', 'n', 'f', 's', 'x'])
    }
}

fn gen_det(rng: &mut Rng, n_ops: usize) -> Vec<String> {
    let mut l: Vec<String> = vec![];
    let mut next_actor = 1u32;
    let mut next_msg = 1u32;
    let mut actors: Vec<u32> = vec![];
    let mut sups: Vec<u32> = vec![];
    let mut groups: Vec<(u32, bool, u64)> = vec![];
    let mut calls: Vec<u32> = vec![];
    let names = ["a", "b", "c"];
    let mut sup_keys: BTreeSet<(u32, String, u64)> = BTreeSet::new();
    let spawn = |rng: &mut Rng, l: &mut Vec<String>, next_actor: &mut u32, actors: &mut Vec<u32>, sups: &[u32], sup_keys: &mut BTreeSet<(u32, String, u64)>| {
        let a = *next_actor;
        *next_actor += 1;
        let name = if rng.chance(1, 2) { rng.pick(&names).to_string() } else { "-".to_string() };
        let cap = rng.range(1, 4);
        let mut sup = "-".to_string();
        if !sups.is_empty() && rng.chance(1, 2) {
            let s = *rng.pick(sups);
            if sup_keys.insert((s, name.clone(), cap)) {
                sup = s.to_string();
            }
        }
        let hooks = if rng.chance(1, 5) {
            let i = rng.below(4) as usize;
            (0..4).map(|j| if i == j { '-' } else { '+' }).collect::<String>()
        } else if rng.chance(1, 12) {
            (0..4).map(|_| if rng.chance(1, 2) { '-' } else { '+' }).collect::<String>()
        } else {
            "++++".to_string()
        };
        l.push(format!("spawn {a} {name} {cap} {sup} {hooks}"));
        actors.push(a);
        a
    };
    // opening: maybe a supervisor, a few actors
    if rng.chance(1, 2) {
        let s = next_actor;
        next_actor += 1;
        l.push(format!("spawnsup {s} {} 64{}", if rng.chance(1, 4) { "sup" } else { "-" }, if rng.chance(1, 3) { " keep" } else { "" }));
        l.push("run".into());
        l.push(format!("await {s}"));
        sups.push(s);
    }
    for _ in 0..rng.range(1, 3) {
        let a = spawn(rng, &mut l, &mut next_actor, &mut actors, &sups, &mut sup_keys);
        if rng.chance(4, 5) {
            l.push("run".into());
            l.push(format!("await {a}"));
        }
    }
    while l.len() < n_ops {
        let a = *rng.pick(&actors);
        match rng.below(100) {
            0..=29 => {
                l.push(format!("send {a} {next_msg} {}", kind_of(rng, false)));
                next_msg += 1;
            }
            30..=41 => {
                l.push(format!("call {a} {next_msg} {}", kind_of(rng, true)));
                calls.push(next_msg);
                next_msg += 1;
            }
            42..=47 => l.push(format!("stop {a}")),
            48..=60 => l.push("run".into()),
            61..=66 => {
                if let Some(c) = calls.last() {
                    let c = if rng.chance(1, 2) { *c } else { *rng.pick(&calls) };
                    l.push(format!("poll {c}"));
                }
            }
            67..=72 => {
                let a = spawn(rng, &mut l, &mut next_actor, &mut actors, &sups, &mut sup_keys);
                if rng.chance(3, 4) {
                    l.push("run".into());
                    l.push(format!("await {a}"));
                } else if rng.chance(1, 3) {
                    l.push(format!("dropfut {a}"));
                }
            }
            73..=76 => l.push(format!("await {a}")),
            77..=82 => l.push(format!("lookup {}", rng.pick(&names))),
            83 => l.push(format!("isclosed {a}")),
            84 => l.push(format!("drop {a}")),
            85..=88 => l.push(format!("exit {a}")),
            89..=99 => {
                if groups.is_empty() || rng.chance(1, 8) {
                    let g = groups.len() as u32 + 1;
                    let c = rng.chance(1, 3);
                    l.push(format!("gnew {g} {}", if c { "c" } else { "m" }));
                    groups.push((g, c, 0));
                    for _ in 0..rng.range(1, 3) {
                        l.push(format!("gjoin {g} {}", rng.pick(&actors)));
                        groups.last_mut().unwrap().2 += 1;
                    }
                } else {
                    let gi = rng.below(groups.len() as u64) as usize;
                    let (g, c, joined) = groups[gi];
                    match rng.below(10) {
                        0..=5 => {
                            if c {
                                l.push(format!("gcall {g} {next_msg} {}", kind_of(rng, true)));
                                calls.push(next_msg);
                            } else {
                                l.push(format!("gsend {g} {next_msg} {}", kind_of(rng, false)));
                            }
                            next_msg += 1;
                        }
                        6 => {
                            l.push(format!("gjoin {g} {a}"));
                            groups[gi].2 += 1;
                        }
                        7 => {
                            if joined > 0 {
                                l.push(format!("gleave {g} {}", rng.below(joined)));
                            }
                        }
                        _ => l.push(format!("glen {g}")),
                    }
                }
            }
            _ => unreachable!(),
        }
    }
    // closing: look at everything
    l.push("run".into());
    for c in &calls {
        l.push(format!("poll {c}"));
    }
    for a in &actors {
        l.push(format!("exit {a}"));
    }
    for n in names {
        l.push(format!("lookup {n}"));
    }
    l
}

/// Differential test of the real `ProcessGroup::send` routing: groups of `n` members whose mailboxes are
/// deliberately ok / full / closed, for every status vector and every cursor position (exhaustive up to
/// `max_n`, sampled above), through the public API on a real (frozen) cluster.
fn gen_routing(rng: &mut Rng, max_n: usize, samples_above: usize) -> Vec<Case> {
    let mut combos: Vec<(Vec<u8>, usize)> = vec![];
    for n in 1..=max_n {
        for code in 0..3usize.pow(n as u32) {
            let st: Vec<u8> = (0..n).map(|i| b"ofc"[(code / 3usize.pow(i as u32)) % 3]).collect();
            for cur in 0..n {
                combos.push((st.clone(), cur));
            }
        }
    }
    for _ in 0..samples_above {
        let n = rng.range(max_n as u64 + 1, 6) as usize;
        let st: Vec<u8> = (0..n).map(|_| *rng.pick(b"ofc")).collect();
        // cursors beyond n exercise `cursor % len`
        combos.push((st, rng.below(2 * n as u64 + 1) as usize));
    }
    let mut cases = vec![];
    for (ci, chunk) in combos.chunks(40).enumerate() {
        let mut l: Vec<String> = vec![];
        // pool: 1,2 ok (large), 3 full (cap 1), 4 full (cap 2), 5 closed (stop requested), 6 closed (exited)
        for (a, cap) in [(1, 4096), (2, 4096), (3, 1), (4, 2), (5, 3), (6, 3)] {
            l.push(format!("spawn {a} - {cap} - ++++"));
        }
        l.push("run".into());
        for a in 1..=6 {
            l.push(format!("await {a}"));
        }
        l.push("stop 6".into());
        l.push("run".into());
        l.push("exit 6".into());
        l.push("send 3 900001 n".into());
        l.push("send 4 900002 n".into());
        l.push("send 4 900003 n".into());
        l.push("stop 5".into());
        let mut msg = 1u32;
        for (gi, (st, cur)) in chunk.iter().enumerate() {
            let g = gi as u32 + 1;
            l.push(format!("gnew {g} m"));
            // advance the cursor: a lone full member rejects every send, the cursor still moves
            if *cur > 0 {
                l.push(format!("gjoin {g} 3"));
                for _ in 0..*cur {
                    l.push(format!("gsend {g} {msg} n"));
                    msg += 1;
                }
                l.push(format!("gleave {g} 0"));
            }
            for (i, s) in st.iter().enumerate() {
                let a = match s {
                    b'o' => 1 + (i % 2),
                    b'f' => 3 + (i % 2),
                    _ => 5 + (i % 2),
                };
                l.push(format!("gjoin {g} {a}"));
            }
            for _ in 0..3 {
                l.push(format!("gsend {g} {msg} n"));
                msg += 1;
                l.push(format!("glen {g}"));
            }
        }
        l.push("run".into());
        cases.push(Case { name: format!("route-{ci}"), lines: l });
    }
    cases
}

/// random / mutated histories: the Rust acceptor and the Lean acceptor must give the same verdict on
/// accepted *and* rejected inputs (no monitor is attached to `judge` lines)
fn gen_judge(rng: &mut Rng, lines: usize) -> Vec<String> {
    let mut out = vec![];
    let ids = |rng: &mut Rng, n: u64, max: u64| -> String {
        let v: Vec<u32> = (0..n).map(|_| rng.range(1, max) as u32).collect();
        join_ids(&v)
    };
    for _ in 0..lines {
        match rng.below(6) {
            0 => {
                // a valid lifecycle word, then mutated
                let mut w: Vec<String> = vec![];
                if rng.chance(1, 8) {
                    w.push("ps-".into());
                } else {
                    w.push("ps+".into());
                    let run = !rng.chance(1, 6);
                    if run {
                        let po = !rng.chance(1, 6);
                        w.push(format!("po{}", if po { '+' } else { '-' }));
                        if po {
                            for i in 0..rng.below(4) {
                                let ok = !rng.chance(1, 6);
                                w.push(format!("h{}", i + 1));
                                w.push(format!("e{}{}", i + 1, if ok { '+' } else { '-' }));
                                if !ok {
                                    break;
                                }
                            }
                        }
                    }
                    w.push(format!("pr{}", if rng.chance(1, 4) { '-' } else { '+' }));
                    w.push(format!("pt{}", if rng.chance(1, 4) { '-' } else { '+' }));
                }
                for _ in 0..rng.below(3) {
                    if w.is_empty() {
                        break;
                    }
                    let i = rng.below(w.len() as u64) as usize;
                    match rng.below(4) {
                        0 => {
                            w.remove(i);
                        }
                        1 => {
                            let x = w[i].clone();
                            w.insert(i, x);
                        }
                        2 => {
                            let j = rng.below(w.len() as u64) as usize;
                            w.swap(i, j);
                        }
                        _ => w[i] = rng.pick(&["h1", "e1+", "e2-", "po+", "pr+", "pt-", "ps+", "open2", "zz", "h", "e+"]).to_string(),
                    }
                }
                if rng.chance(1, 3) {
                    let k = rng.below(w.len() as u64 + 1) as usize;
                    w.truncate(k);
                }
                out.push(format!("judge life {} {}", rng.pick(&["X", "F", "L", "Q"]), w.join(" ")).trim_end().to_string());
            }
            1 => {
                let n = rng.below(6);
                let acc: Vec<u32> = (1..=n as u32).collect();
                // split the accepted ids over 1..3 senders, keep order; handled = prefix, then maybe mutated
                let k = rng.range(1, 3) as usize;
                let mut ss: Vec<Vec<u32>> = vec![vec![]; k];
                for a in &acc {
                    ss[rng.below(k as u64) as usize].push(*a);
                }
                let mut h: Vec<u32> = acc[..rng.below(n + 1) as usize].to_vec();
                if rng.chance(1, 3) && h.len() >= 2 {
                    let i = rng.below(h.len() as u64 - 1) as usize;
                    h.swap(i, i + 1);
                }
                if rng.chance(1, 6) {
                    h.push(rng.range(1, 8) as u32);
                }
                let per: Vec<String> = ss.iter().map(|v| join_ids(v)).collect();
                out.push(format!("judge fifo {} {} {}", rng.pick(&["C", "P", "P", "x"]), join_ids(&h), per.join(";")));
            }
            2 => {
                let n = rng.below(5);
                out.push(format!("judge once {}", ids(rng, n, 6)));
                let n = rng.below(3);
                out.push(format!("judge rejected {}", ids(rng, n, 6)));
            }
            3 => {
                let n = rng.below(4);
                let h = ids(rng, n, 5);
                let cs: Vec<String> =
                    (0..rng.range(1, 4)).map(|_| format!("{}:{}", rng.range(1, 5), rng.pick(&["r", "n", "f", "c", "p", "z"]))).collect();
                out.push(format!("judge calls {} {h} {}", rng.pick(&["X", "L", "L", "Y"]), cs.join(" ")));
            }
            4 => {
                let ivs: Vec<String> = (0..rng.below(4))
                    .map(|_| {
                        let a = rng.below(30);
                        format!("{a}:{}", a + rng.below(10))
                    })
                    .collect();
                out.push(format!("judge names {}", ivs.join(" ")).trim_end().to_string());
                out.push(format!("judge reuse {}", rng.pick(&["0", "0", "1", "1000", "x"])));
            }
            _ => {
                let n = rng.below(3);
                let seen: Vec<u32> = (0..n).map(|_| rng.below(3) as u32).collect();
                out.push(format!(
                    "judge {} {} {} {}",
                    rng.pick(&["sup", "supp"]),
                    rng.pick(&["0", "1", "2"]),
                    rng.pick(&["S", "E", "N", "Q"]),
                    join_ids(&seen)
                ));
                out.push(format!("judge respawn {} {}", rng.below(4), rng.pick(&["0", "0", "1", "x"])));
                let iv = |rng: &mut Rng| {
                    let a = rng.below(20);
                    format!("{a}:{}", a + rng.below(8))
                };
                let ivs: Vec<String> = (0..rng.below(3)).map(|_| iv(rng)).collect();
                let ms: Vec<String> = (0..rng.range(1, 3)).map(|_| iv(rng)).collect();
                out.push(format!("judge gwindow {} {}", if ivs.is_empty() { "-".into() } else { ivs.join(",") }, ms.join(",")));
                out.push(format!("judge gsink {} {}", rng.below(3), rng.below(3)));
                out.push(format!("judge calls {} 1,2 1:{} 3:{}", rng.pick(&["X", "L"]), rng.pick(&["r", "h", "p"]), rng.pick(&["h", "c", "q"])));
            }
        }
    }
    out
}

fn generate(tier: &str, rng: &mut Rng) -> Vec<Case> {
    let thorough = tier == "thorough";
    let mut cases = if thorough { gen_routing(rng, 5, 1000) } else { gen_routing(rng, 3, 200) };
    let n_det = if thorough { 3000 } else { 500 };
    for i in 0..n_det {
        let n_ops = rng.range(6, if i % 5 == 0 { 60 } else { 30 }) as usize;
        cases.push(Case { name: format!("det-{i}"), lines: gen_det(rng, n_ops) });
    }
    for i in 0..(if thorough { 200 } else { 30 }) {
        cases.push(Case { name: format!("judge-{i}"), lines: gen_judge(rng, 40) });
    }
    let n_conc = if thorough { 600 } else { 80 };
    for i in 0..n_conc {
        cases.push(gen_conc(rng, i, thorough && i % 4 == 0));
    }
    cases
}

/// run one case in this process
fn exec_local(case: &Case, fresh: bool) -> Exec {
    if case.lines.first().map(|l| l.starts_with("conc ") || l.starts_with("judge ")).unwrap_or(false) {
        exec_conc(case, fresh)
    } else {
        exec_det(case)
    }
}

// ---------------------------------------------------------------------------------------------
// process isolation: the real code can abort the process (a panic while unwinding, e.g. a poisoned registry
// mutex locked again by `Drop for Registration`). Every case therefore runs in a worker child process
// (`c19 --worker`, one long-lived child, restarted after a crash); a worker that dies or hangs while
// executing a case turns into the monitor failure `C19:abort` / `C19:hang` with that case as replay.

struct Worker {
    child: std::process::Child,
    stdin: std::process::ChildStdin,
    lines: mpsc::Receiver<String>,
}

thread_local! {
    static WORKER: std::cell::RefCell<Option<Worker>> = const { std::cell::RefCell::new(None) };
}

const CASE_TIMEOUT: Duration = Duration::from_secs(180);

fn start_worker() -> Worker {
    use std::io::BufRead;
    let exe = std::env::current_exe().expect("current_exe");
    let mut child = std::process::Command::new(exe)
        .arg("--worker")
        .stdin(std::process::Stdio::piped())
        .stdout(std::process::Stdio::piped())
        .stderr(std::process::Stdio::null())
        .spawn()
        .expect("spawn worker");
    let stdin = child.stdin.take().unwrap();
    let stdout = child.stdout.take().unwrap();
    let (tx, rx) = mpsc::channel();
    thread::spawn(move || {
        for l in std::io::BufReader::new(stdout).lines() {
            match l {
                Ok(l) => {
                    if tx.send(l).is_err() {
                        break;
                    }
                }
                Err(_) => break,
            }
        }
    });
    Worker { child, stdin, lines: rx }
}

/// send a request, collect the answer lines up to `DONE`; `Err(why)` when the worker died or hung
fn worker_request(req: &str) -> Result<Vec<String>, String> {
    use std::io::Write;
    WORKER.with(|w| {
        let mut w = w.borrow_mut();
        if w.is_none() {
            *w = Some(start_worker());
        }
        let wk = w.as_mut().unwrap();
        let sent = wk.stdin.write_all(req.as_bytes()).and_then(|_| wk.stdin.flush());
        let mut out = vec![];
        let mut err = None;
        if sent.is_err() {
            err = Some("abort");
        }
        while err.is_none() {
            match wk.lines.recv_timeout(CASE_TIMEOUT) {
                Ok(l) if l == "DONE" => break,
                Ok(l) => out.push(l),
                Err(mpsc::RecvTimeoutError::Timeout) => err = Some("hang"),
                Err(mpsc::RecvTimeoutError::Disconnected) => err = Some("abort"),
            }
        }
        match err {
            None => Ok(out),
            Some(kind) => {
                let mut wk = w.take().unwrap();
                wk.child.kill().ok();
                let status = wk.child.wait().map(|s| s.to_string()).unwrap_or_else(|e| e.to_string());
                Err(format!("{kind}: worker process {status}"))
            }
        }
    })
}

fn stop_worker() {
    WORKER.with(|w| {
        if let Some(mut wk) = w.borrow_mut().take() {
            drop(wk.stdin);
            wk.child.wait().ok();
        }
    });
}

/// run the scenario of a conc case in the worker; its `hist` lines
fn worker_conc(spec: &ConcSpec) -> Vec<String> {
    match worker_request(&format!("CONC\t{}\n", spec.line())) {
        Ok(l) => l.into_iter().filter_map(|x| x.strip_prefix("H ").map(str::to_string)).collect(),
        Err(why) => vec![format!("hist {}", if why.starts_with("hang") { "hang" } else { "abort" })],
    }
}

fn exec(case: &Case) -> Exec {
    let fresh = !RAN.with(|r| r.borrow().contains(&case.name));
    let mut req = format!("CASE\t{}\t{}\n", fresh as u8, case.name.replace(['\t', '\n'], " "));
    for l in &case.lines {
        req.push_str("L ");
        req.push_str(&l.replace('\n', " "));
        req.push('\n');
    }
    req.push_str("END\n");
    let mut ex = Exec::new();
    match worker_request(&req) {
        Ok(lines) => {
            for l in lines {
                if let Some(o) = l.strip_prefix("O ") {
                    ex.out.push(o.to_string());
                } else if l == "O" {
                    ex.out.push(String::new());
                } else if let Some(f) = l.strip_prefix("F ") {
                    let (sig, detail) = f.split_once('\t').unwrap_or((f, ""));
                    ex.fail(sig, detail);
                } else if let Some(t) = l.strip_prefix("T ") {
                    ex.tag(t);
                } else if l == "N 1" {
                    ex.nontrivial = true;
                }
            }
            if ex.out.len() != case.lines.len() {
                ex.fail("C19:harness-protocol", format!("worker answered {} lines for {}", ex.out.len(), case.lines.len()));
                ex.out.resize(case.lines.len(), "lost".into());
            }
        }
        Err(why) => {
            let kind = if why.starts_with("hang") { "hang" } else { "abort" };
            ex.out = vec![kind.to_string(); case.lines.len()];
            ex.tag(format!("worker:{kind}"));
            ex.fail(
                format!("C19:{kind}"),
                format!("the process running this case on the real code {why} (a panic in a no-unwind context aborts the whole process; a hang means no progress for {} s)", CASE_TIMEOUT.as_secs()),
            );
        }
    }
    ex
}

fn worker_main() {
    use std::io::{BufRead, Write};
    std::panic::set_hook(Box::new(|_| {}));
    let stdin = std::io::stdin();
    let mut out = std::io::BufWriter::new(std::io::stdout());
    let mut it = stdin.lock().lines();
    while let Some(Ok(head)) = it.next() {
        let parts: Vec<&str> = head.split('\t').collect();
        match parts.as_slice() {
            ["CONC", spec] => {
                let w: Vec<&str> = spec.split_whitespace().collect();
                if let Some(spec) = ConcSpec::parse(&w) {
                    match catch(|| run_conc(&spec)) {
                        Ok(h) => {
                            for l in h {
                                writeln!(out, "H {l}").ok();
                            }
                        }
                        Err(e) => {
                            writeln!(out, "H hist panic {}", e.replace(['\n', '\t'], " ")).ok();
                        }
                    }
                }
            }
            ["CASE", fresh, name] => {
                let mut lines = vec![];
                for l in it.by_ref() {
                    let Ok(l) = l else { break };
                    if l == "END" {
                        break;
                    }
                    lines.push(l.strip_prefix("L ").unwrap_or(&l).to_string());
                }
                let case = Case { name: name.to_string(), lines };
                let n = case.lines.len();
                let ex = match catch(|| exec_local(&case, *fresh == "1")) {
                    Ok(ex) => ex,
                    Err(e) => {
                        let mut ex = Exec::new();
                        ex.out = vec!["panic".into(); n];
                        ex.fail("C19:harness-panic", e);
                        ex
                    }
                };
                for o in &ex.out {
                    writeln!(out, "O {}", o.replace('\n', " ")).ok();
                }
                for f in &ex.failures {
                    writeln!(out, "F {}\t{}", f.sig, f.detail.replace(['\n', '\t'], " ")).ok();
                }
                for t in &ex.tags {
                    writeln!(out, "T {t}").ok();
                }
                writeln!(out, "N {}", ex.nontrivial as u8).ok();
            }
            _ => {}
        }
        writeln!(out, "DONE").ok();
        out.flush().ok();
    }
}

fn main() {
    if std::env::args().any(|a| a == "--worker") {
        worker_main();
        return;
    }
    run_harness(
        generate,
        exec,
        "a det case is non-trivial when it has at least 4 operations and at least one `run` (the actors really executed); a conc case when at least two threads sent to the same actor; a judge case always",
    );
    stop_worker();
}
