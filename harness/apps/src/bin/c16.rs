//! C16 — QUIC streams and datagrams: ordered, exactly-once, never stranded.
//!
//! Real compio-quic client + server endpoints over UDP loopback inside ONE compio runtime.
//!
//! Two case families (first word of every line):
//!
//! `T` transfer cases: `T conn <transport>` then any number of CONCURRENT `T uni|bi|dgram …` activities,
//!     then `T end`. Every stream line names its payload (len, seed), the writer's API + chunking, the
//!     reader's API + buffer size and the reader's pacing. Output: byte count + FNV-1a of what the READER got,
//!     end-of-stream seen after `finish`, end-of-stream again on a second read.
//! `C` close/event cases: `C conn …`, `C stream k …` (pre-established streams), `C pend side kind [k]`
//!     (a task whose future must be observed `Pending`), `C act side what …` (something that makes quinn-proto
//!     emit one event at the peer; output = which pending futures completed and how), `C close side how`
//!     (output = how every still-pending future completed, and which did not within the watchdog).
//!
//! `E` endpoint cases: `E ep zero|drained|live` (a server endpoint with no connection ever / one that is already
//!     drained / a live one), `E pend` (a task in `wait_incoming()`), `E act connect` (a connection attempt: exactly
//!     one waiter gets it), `E close` (`Endpoint::close`: every waiter must yield `None`), `E shutdown`.
//!
//! Monitors (implementation only): `C16:stream-mismatch`, `C16:read-contract`, `C16:eos`,
//! `C16:dgram-corrupt`, `C16:dgram-dup`, `C16:stranded-future` (with `kind=…`),
//! `F160:accepted-0rtt-waker-overwritten`, `F161:closed-cancel-kills-worker`, `F162:closed-twice-panic`.

use std::{
    any::Any,
    cell::{Cell, RefCell},
    collections::{BTreeMap, HashMap, HashSet},
    future::{Future, poll_fn},
    pin::Pin,
    rc::Rc,
    sync::Arc,
    task::{Context, Poll, Waker},
    time::Duration,
};

use compio_buf::{BufResult, bytes::Bytes};
use compio_io::{AsyncRead, AsyncWrite, AsyncWriteExt};
use compio_quic::{
    ClientBuilder, ClientConfig, Connecting, Connection, ConnectionError, Endpoint, ReadError, RecvStream,
    SendStream, ServerBuilder, ServerConfig, StoppedError, TransportConfig, VarInt, WriteError,
};
use compio_runtime::{
    JoinHandle,
    time::{sleep, timeout},
};
use hx_common::{Case, Exec, Rng, run_harness};

// ------------------------------------------------------------------------------------------- plumbing

fn configs(server_t: TransportConfig, client_t: TransportConfig) -> (ServerConfig, ClientConfig) {
    let rcgen::CertifiedKey { cert, signing_key } =
        rcgen::generate_simple_self_signed(vec!["localhost".into()]).unwrap();
    let cert = cert.der().clone();
    let key_der = signing_key.serialize_der().try_into().unwrap();
    let mut sc = ServerBuilder::new_with_single_cert(vec![cert.clone()], key_der).unwrap().build();
    let mut cc = ClientBuilder::new_with_empty_roots()
        .with_custom_certificate(cert)
        .unwrap()
        .with_no_crls()
        .build();
    sc.transport_config(Arc::new(server_t));
    cc.transport_config(Arc::new(client_t));
    (sc, cc)
}

#[derive(Default)]
struct Notify {
    waker: RefCell<Option<Waker>>,
}

impl Notify {
    fn notify(&self) {
        if let Some(w) = self.waker.borrow_mut().take() {
            w.wake()
        }
    }

    /// wait until `cond()` holds (re-evaluated at every `notify`), at most `dur`
    async fn wait_until(&self, mut cond: impl FnMut() -> bool, dur: Duration) -> bool {
        let fut = poll_fn(|cx| {
            if cond() {
                Poll::Ready(())
            } else {
                *self.waker.borrow_mut() = Some(cx.waker().clone());
                Poll::Pending
            }
        });
        timeout(dur, fut).await.is_ok()
    }
}

/// records the first `Pending` of the wrapped future
struct Probe<F> {
    inner: Pin<Box<F>>,
    seen: Rc<Cell<bool>>,
    notify: Rc<Notify>,
}

impl<F: Future> Future for Probe<F> {
    type Output = F::Output;

    fn poll(mut self: Pin<&mut Self>, cx: &mut Context<'_>) -> Poll<F::Output> {
        match self.inner.as_mut().poll(cx) {
            Poll::Pending => {
                if !self.seen.get() {
                    self.seen.set(true);
                    self.notify.notify();
                }
                Poll::Pending
            }
            r => r,
        }
    }
}

fn probe<F: Future>(f: F, seen: &Rc<Cell<bool>>, notify: &Rc<Notify>) -> Probe<F> {
    Probe { inner: Box::pin(f), seen: seen.clone(), notify: notify.clone() }
}

fn payload(seed: u64, len: usize) -> Vec<u8> {
    (0..len)
        .map(|i| {
            let x = (seed as u32).wrapping_add(i as u32).wrapping_mul(2654435761);
            (x >> 13) as u8
        })
        .collect()
}

fn fnv(data: &[u8]) -> u32 {
    let mut h: u32 = 0x811c_9dc5;
    for b in data {
        h ^= *b as u32;
        h = h.wrapping_mul(0x0100_0193);
    }
    h
}

fn conn_err(e: &ConnectionError) -> &'static str {
    match e {
        ConnectionError::VersionMismatch => "VersionMismatch",
        ConnectionError::TransportError(_) => "TransportError",
        ConnectionError::ConnectionClosed(_) => "ConnectionClosed",
        ConnectionError::ApplicationClosed(_) => "ApplicationClosed",
        ConnectionError::Reset => "Reset",
        ConnectionError::TimedOut => "TimedOut",
        ConnectionError::LocallyClosed => "LocallyClosed",
        ConnectionError::CidsExhausted => "CidsExhausted",
    }
}

fn read_err(e: &ReadError) -> String {
    match e {
        ReadError::Reset(_) => "err:StreamReset".into(),
        ReadError::ConnectionLost(e) => format!("err:{}", conn_err(e)),
        ReadError::ClosedStream => "err:ClosedStream".into(),
        ReadError::IllegalOrderedRead => "err:IllegalOrderedRead".into(),
        ReadError::ZeroRttRejected => "err:ZeroRttRejected".into(),
    }
}

fn write_err(e: &WriteError) -> String {
    match e {
        WriteError::Stopped(_) => "err:Stopped".into(),
        WriteError::ConnectionLost(e) => format!("err:{}", conn_err(e)),
        WriteError::ClosedStream => "err:ClosedStream".into(),
        WriteError::ZeroRttRejected => "err:ZeroRttRejected".into(),
    }
}

fn kv(words: &[&str], key: &str) -> Option<String> {
    words.iter().find_map(|w| w.strip_prefix(key).and_then(|r| r.strip_prefix('=')).map(|s| s.to_string()))
}

fn kvn(words: &[&str], key: &str, default: u64) -> u64 {
    kv(words, key).and_then(|s| s.parse().ok()).unwrap_or(default)
}

struct Pair {
    eps: [Endpoint; 2], // 0 = client, 1 = server
    conns: [Connection; 2],
    cc: ClientConfig,
}

async fn establish(server_t: TransportConfig, client_t: TransportConfig) -> Result<Pair, String> {
    let (sc, cc) = configs(server_t, client_t);
    let mut server = Endpoint::server("127.0.0.1:0", sc).await.map_err(|e| format!("bind: {e}"))?;
    let mut client = Endpoint::client("127.0.0.1:0").await.map_err(|e| format!("bind: {e}"))?;
    server.default_client_config = Some(cc.clone());
    client.default_client_config = Some(cc.clone());
    let addr = server.local_addr().unwrap();
    let connecting = client.connect(addr, "localhost", None).map_err(|e| format!("connect: {e}"))?;
    let sconn = async {
        let inc = server.wait_incoming().await.ok_or("no incoming")?;
        inc.await.map_err(|e| format!("accept: {e}"))
    };
    let (c, s) = futures_util::join!(timeout(Duration::from_secs(10), connecting), timeout(Duration::from_secs(10), sconn));
    let c = c.map_err(|_| "connect timeout")?.map_err(|e| format!("connect: {e}"))?;
    let s = s.map_err(|_| "accept timeout")??;
    Ok(Pair { eps: [client, server], conns: [c, s], cc })
}

fn retire(eps: Vec<Endpoint>) {
    for ep in eps {
        ep.close(0u32.into(), b"");
        compio_runtime::spawn(async move {
            let _ = timeout(Duration::from_secs(5), ep.shutdown()).await;
        })
        .detach();
    }
}

type Fails = Rc<RefCell<Vec<(String, String)>>>;

static T_STALLS: std::sync::atomic::AtomicUsize = std::sync::atomic::AtomicUsize::new(0);

// ------------------------------------------------------------------------------------------- T cases

#[derive(Clone, Debug)]
struct StreamSpec {
    len: usize,
    seed: u64,
    w: String,
    r: String,
    /// `api:param:n`: read about `n` bytes through another API first (`none` = no prefix)
    pre: String,
    slow: usize,
}

fn stream_spec(words: &[&str], prefix: &str) -> StreamSpec {
    StreamSpec {
        len: kvn(words, &format!("{prefix}len"), 0) as usize,
        seed: kvn(words, &format!("{prefix}seed"), 0),
        w: kv(words, &format!("{prefix}w")).unwrap_or_else(|| "all:1000".into()),
        r: kv(words, &format!("{prefix}r")).unwrap_or_else(|| "read:1000".into()),
        pre: kv(words, &format!("{prefix}pre")).unwrap_or_else(|| "none".into()),
        slow: kvn(words, &format!("{prefix}slow"), 0) as usize,
    }
}

async fn write_stream(s: &mut SendStream, data: &[u8], mode: &str) -> Result<(), String> {
    let parts: Vec<&str> = mode.split(':').collect();
    let c = parts.get(1).and_then(|x| x.parse::<usize>().ok()).unwrap_or(1000).max(1);
    let k = parts.get(2).and_then(|x| x.parse::<usize>().ok()).unwrap_or(4).max(1);
    match parts[0] {
        "write" => {
            for piece in data.chunks(c) {
                let mut off = 0;
                while off < piece.len() {
                    let BufResult(r, _) = s.write(piece[off..].to_vec()).await;
                    let n = r.map_err(|e| format!("write:{e}"))?;
                    if n == 0 || n > piece.len() - off {
                        return Err(format!("write returned {n} for {} bytes", piece.len() - off));
                    }
                    off += n;
                }
            }
        }
        "all" => {
            for piece in data.chunks(c) {
                let BufResult(r, _) = s.write_all(piece.to_vec()).await;
                r.map_err(|e| format!("write_all:{e}"))?;
            }
        }
        "chunks" => {
            let pieces: Vec<&[u8]> = data.chunks(c).collect();
            for group in pieces.chunks(k) {
                let mut bufs: Vec<Bytes> = group.iter().map(|p| Bytes::copy_from_slice(p)).collect();
                s.write_all_chunks(&mut bufs).await.map_err(|e| write_err(&e))?;
            }
        }
        "wchunks" => {
            let pieces: Vec<&[u8]> = data.chunks(c).collect();
            for group in pieces.chunks(k) {
                let mut bufs: Vec<Bytes> = group.iter().map(|p| Bytes::copy_from_slice(p)).collect();
                let mut done = 0;
                while done < bufs.len() {
                    let w = s.write_chunks(&mut bufs[done..]).await.map_err(|e| write_err(&e))?;
                    if w.chunks == 0 && w.bytes == 0 {
                        return Err("write_chunks made no progress".into());
                    }
                    done += w.chunks;
                }
            }
        }
        other => return Err(format!("bad write mode {other}")),
    }
    Ok(())
}

struct ReadOutcome {
    data: Vec<u8>,
    eos: bool,
    post_eos: bool,
    contract: Option<String>,
}

async fn read_stream(r: RecvStream, mode: &str, pre: &str, slow: usize, limit: usize) -> Result<ReadOutcome, String> {
    use compio_buf::{IntoInner, bytes::BufMut};
    let mut r = r;
    let parts: Vec<&str> = mode.split(':').collect();
    let p = parts.get(1).and_then(|x| x.parse::<usize>().ok()).unwrap_or(1000).max(1);
    let mut out = ReadOutcome { data: vec![], eos: false, post_eos: false, contract: None };
    let mut reads = 0usize;
    // --- a prefix of the stream through a different API (the APIs share one read position)
    let pp: Vec<&str> = pre.split(':').collect();
    if pp[0] != "none" {
        let q = pp.get(1).and_then(|x| x.parse::<usize>().ok()).unwrap_or(100).max(1);
        let want = pp.get(2).and_then(|x| x.parse::<usize>().ok()).unwrap_or(0);
        while out.data.len() < want && !out.eos {
            match pp[0] {
                "read" => {
                    let BufResult(res, buf) = r.read(Vec::with_capacity(q)).await;
                    let n = res.map_err(|e| format!("read:{e}"))?;
                    if n == 0 {
                        out.eos = true;
                    }
                    out.data.extend_from_slice(&buf[..n.min(buf.len())]);
                }
                "chunk" | "uchunk" => match r.read_chunk(q, pp[0] == "chunk").await.map_err(|e| read_err(&e))? {
                    None => out.eos = true,
                    Some(ch) => {
                        if ch.bytes.is_empty() || ch.bytes.len() > q || ch.offset != out.data.len() as u64 {
                            out.contract = Some(format!(
                                "prefix read_chunk({q}) gave {} bytes at offset {} after {} bytes",
                                ch.bytes.len(),
                                ch.offset,
                                out.data.len()
                            ));
                        }
                        out.data.extend_from_slice(&ch.bytes);
                    }
                },
                "chunks" => {
                    let mut bufs: Vec<Bytes> = (0..q).map(|_| Bytes::new()).collect();
                    match r.read_chunks(&mut bufs).await.map_err(|e| read_err(&e))? {
                        None => out.eos = true,
                        Some(n) => {
                            for b in &bufs[..n.min(q)] {
                                out.data.extend_from_slice(b);
                            }
                        }
                    }
                }
                other => return Err(format!("bad prefix mode {other}")),
            }
        }
    }
    macro_rules! pace {
        () => {
            if out.data.len() > limit {
                // a stream that keeps growing (duplicated data): give up instead of eating memory
                return Err(format!("overrun: {} bytes and no end of stream", out.data.len()));
            }
            reads += 1;
            if slow > 0 && reads % slow == 0 {
                sleep(Duration::from_millis(1)).await;
            }
        };
    }
    match parts[0] {
        "read" => loop {
            let buf = Vec::with_capacity(p);
            let cap = buf.capacity();
            let BufResult(res, buf) = r.read(buf).await;
            let n = res.map_err(|e| format!("read:{e}"))?;
            if n == 0 {
                out.eos = true;
                break;
            }
            if n > cap || buf.len() != n {
                out.contract = Some(format!("read returned {n} (len {}) into a {cap}-byte buffer", buf.len()));
            }
            out.data.extend_from_slice(&buf[..n.min(buf.len())]);
            pace!();
        },
        "chunk" => loop {
            match r.read_chunk(p, true).await.map_err(|e| read_err(&e))? {
                None => {
                    out.eos = true;
                    break;
                }
                Some(ch) => {
                    if ch.bytes.is_empty() || ch.bytes.len() > p || ch.offset != out.data.len() as u64 {
                        out.contract = Some(format!(
                            "read_chunk({p}) gave {} bytes at offset {} after {} bytes",
                            ch.bytes.len(),
                            ch.offset,
                            out.data.len()
                        ));
                    }
                    out.data.extend_from_slice(&ch.bytes);
                }
            }
            pace!();
        },
        "chunks" => loop {
            let mut bufs: Vec<Bytes> = (0..p).map(|_| Bytes::new()).collect();
            match r.read_chunks(&mut bufs).await.map_err(|e| read_err(&e))? {
                None => {
                    out.eos = true;
                    break;
                }
                Some(n) => {
                    if n == 0 || n > p {
                        out.contract = Some(format!("read_chunks gave {n} of {p} buffers"));
                    }
                    for b in &bufs[..n.min(p)] {
                        if b.is_empty() {
                            out.contract = Some("read_chunks gave an empty chunk".into());
                        }
                        out.data.extend_from_slice(b);
                    }
                }
            }
            pace!();
        },
        "end" => {
            let BufResult(res, buf) = r.read_to_end(Vec::new()).await;
            let n = res.map_err(|e| format!("read_to_end:{e}"))?;
            if n != buf.len() {
                out.contract = Some(format!("read_to_end returned {n}, buffer holds {}", buf.len()));
            }
            // the buffer holds what was NOT yet returned by the prefix reads: the concatenation is the stream
            out.data.extend_from_slice(&buf);
            out.eos = true;
        }
        // the `io-compat` wrappers: `CompatRecvStream::{read, read_exact}` and futures' `AsyncRead`
        "cread" | "cexact" | "fread" | "fend" => {
            let mut c = r.into_compat();
            match parts[0] {
                "cread" => loop {
                    let mut v: Vec<u8> = Vec::with_capacity(p);
                    match c.read((&mut v).limit(p)).await.map_err(|e| read_err(&e))? {
                        None => {
                            out.eos = true;
                            break;
                        }
                        Some(n) => {
                            if n == 0 || n > p || v.len() != n {
                                out.contract = Some(format!("compat read returned {n} (len {}) with limit {p}", v.len()));
                            }
                            out.data.extend_from_slice(&v);
                        }
                    }
                    pace!();
                },
                "cexact" => loop {
                    let mut v: Vec<u8> = Vec::with_capacity(p);
                    match c.read_exact((&mut v).limit(p)).await {
                        Ok(()) => {
                            if v.len() != p {
                                out.contract = Some(format!("read_exact({p}) filled {}", v.len()));
                            }
                            out.data.extend_from_slice(&v);
                        }
                        Err(compio_quic::ReadExactError::FinishedEarly(rem)) => {
                            if v.len() + rem != p {
                                out.contract = Some(format!("read_exact({p}): {} bytes and {rem} missing", v.len()));
                            }
                            out.data.extend_from_slice(&v);
                            out.eos = true;
                            break;
                        }
                        Err(compio_quic::ReadExactError::ReadError(e)) => return Err(read_err(&e)),
                    }
                    pace!();
                },
                "fread" => loop {
                    let mut v = vec![0u8; p];
                    let n = futures_util::AsyncReadExt::read(&mut c, &mut v[..]).await.map_err(|e| format!("fread:{e}"))?;
                    if n == 0 {
                        out.eos = true;
                        break;
                    }
                    if n > p {
                        out.contract = Some(format!("futures read returned {n} into {p} bytes"));
                    }
                    out.data.extend_from_slice(&v[..n.min(p)]);
                    pace!();
                },
                _ => {
                    let mut v = vec![];
                    futures_util::AsyncReadExt::read_to_end(&mut c, &mut v).await.map_err(|e| format!("fend:{e}"))?;
                    out.data.extend_from_slice(&v);
                    out.eos = true;
                }
            }
            r = c.into_inner();
        }
        other => return Err(format!("bad read mode {other}")),
    }
    // end-of-stream is sticky
    let BufResult(res, _) = r.read(Vec::with_capacity(8)).await;
    out.post_eos = matches!(res, Ok(0));
    Ok(out)
}

type Registry = Rc<RefCell<HashMap<(usize, bool, u64), usize>>>; // (opener side, is_bi, stream index) -> line

struct TCtx {
    conns: [Connection; 2],
    registry: Registry,
    /// per line: [primary direction outcome, reverse direction outcome]
    results: Rc<RefCell<Vec<[Option<String>; 2]>>>,
    /// per line: how the WRITER of each direction ended (`finish` + `stopped().await`)
    wres: Rc<RefCell<Vec<[Option<String>; 2]>>>,
    specs: Rc<Vec<Option<(String, usize, StreamSpec, Option<StreamSpec>)>>>, // kind, opener side, spec, echo spec
    fails: Fails,
    notify: Rc<Notify>,
    live: Rc<Cell<usize>>,
}

async fn reader_task(ctx: Rc<TCtx>, line: usize, slot: usize, r: RecvStream, spec: StreamSpec) {
    let res = read_stream(r, &spec.r, &spec.pre, spec.slow, spec.len + 200_000).await;
    let text = match res {
        Ok(o) => {
            let want = payload(spec.seed, spec.len);
            if o.data != want {
                let first = o.data.iter().zip(&want).position(|(a, b)| a != b).unwrap_or(o.data.len().min(want.len()));
                ctx.fails.borrow_mut().push((
                    "C16:stream-mismatch".into(),
                    format!("line {line}: got {} bytes, sent {}, first difference at {first}", o.data.len(), want.len()),
                ));
            }
            if let Some(c) = &o.contract {
                ctx.fails.borrow_mut().push(("C16:read-contract".into(), format!("line {line}: {c}")));
            }
            if !o.eos || !o.post_eos {
                ctx.fails.borrow_mut().push((
                    "C16:eos".into(),
                    format!("line {line}: eos={} second read eos={}", o.eos, o.post_eos),
                ));
            }
            format!(
                "bytes={} sum={:08x} eos={} post={}",
                o.data.len(),
                fnv(&o.data),
                o.eos as u8,
                if o.post_eos { "eos" } else { "data" }
            )
        }
        Err(e) => format!("error:{e}"),
    };
    ctx.results.borrow_mut()[line][slot] = Some(text);
    ctx.live.set(ctx.live.get() - 1);
    ctx.notify.notify();
}

async fn writer_half(s: SendStream, spec: StreamSpec) -> Result<(), String> {
    use compio_buf::IntoInner;
    let data = payload(spec.seed, spec.len);
    let parts: Vec<&str> = spec.w.split(':').collect();
    let c = parts.get(1).and_then(|x| x.parse::<usize>().ok()).unwrap_or(1000).max(1);
    let mut s = s;
    let mut finished = false;
    match parts[0] {
        // the `io-compat` wrappers: `CompatSendStream::{write, write_all}` and futures' `AsyncWrite`
        "cwrite" | "call" | "fall" => {
            let mut cs = s.into_compat();
            for piece in data.chunks(c) {
                match parts[0] {
                    "cwrite" => {
                        let mut off = 0;
                        while off < piece.len() {
                            let n = cs.write(&piece[off..]).await.map_err(|e| write_err(&e))?;
                            if n == 0 || n > piece.len() - off {
                                return Err(format!("compat write returned {n} for {} bytes", piece.len() - off));
                            }
                            off += n;
                        }
                    }
                    "call" => cs.write_all(piece).await.map_err(|e| write_err(&e))?,
                    _ => {
                        futures_util::AsyncWriteExt::write_all(&mut cs, piece).await.map_err(|e| format!("fwrite:{e}"))?;
                        futures_util::AsyncWriteExt::flush(&mut cs).await.map_err(|e| format!("fflush:{e}"))?;
                    }
                }
            }
            if parts[0] == "fall" {
                futures_util::AsyncWriteExt::close(&mut cs).await.map_err(|e| format!("fclose:{e}"))?;
                finished = true;
            }
            s = cs.into_inner();
        }
        _ => write_stream(&mut s, &data, &spec.w).await?,
    }
    if !finished {
        s.finish().map_err(|_| "finish: closed stream".to_string())?;
    }
    match s.stopped().await {
        Ok(None) => Ok(()),
        Ok(Some(c)) => Err(format!("stopped({c})")),
        Err(StoppedError::ConnectionLost(e)) => Err(format!("stopped:{}", conn_err(&e))),
        Err(e) => Err(format!("stopped:{e}")),
    }
}

async fn run_transfer(lines: &[String], ex: &mut Exec) -> Vec<String> {
    let n = lines.len();
    let mut out: Vec<String> = vec![String::new(); n];
    let words: Vec<Vec<&str>> = lines.iter().map(|l| l.split_whitespace().collect()).collect();
    // --- transport
    let w0 = &words[0];
    if w0.get(1) != Some(&"conn") {
        return vec!["bad-op".into(); n];
    }
    let mk = |uni: u64, bi: u64| {
        let mut t = TransportConfig::default();
        t.stream_receive_window(VarInt::from_u64(kvn(w0, "srw", 1_250_000)).unwrap());
        t.receive_window(VarInt::from_u64(kvn(w0, "rw", 10_000_000)).unwrap());
        t.send_window(kvn(w0, "sw", 10_000_000));
        t.max_concurrent_uni_streams(VarInt::from_u64(uni).unwrap());
        t.max_concurrent_bidi_streams(VarInt::from_u64(bi).unwrap());
        t.datagram_receive_buffer_size(Some(kvn(w0, "dgrb", 1_000_000) as usize));
        t.datagram_send_buffer_size(kvn(w0, "dgsb", 1_000_000) as usize);
        t
    };
    let (uni, bi) = (kvn(w0, "uni", 100), kvn(w0, "bi", 100));
    let pair = match establish(mk(uni, bi), mk(uni, bi)).await {
        Ok(p) => p,
        Err(e) => {
            out[0] = format!("error:{e}");
            for o in out.iter_mut().skip(1) {
                *o = "skipped".into();
            }
            return out;
        }
    };
    out[0] = "ok".into();
    let Pair { eps, conns, .. } = pair;
    // --- parse activities
    let mut specs: Vec<Option<(String, usize, StreamSpec, Option<StreamSpec>)>> = vec![None; n];
    let mut dgrams: Vec<(usize, usize, usize, usize, u64, bool)> = vec![]; // line, from side, count, size, seed, wait
    let mut incoming = [[0usize; 2]; 2]; // [side][is_bi] streams to accept
    for (i, w) in words.iter().enumerate().skip(1) {
        let side = match w.get(2) {
            Some(&"c2s") => 0,
            Some(&"s2c") => 1,
            _ => 0,
        };
        match w.get(1) {
            Some(&"uni") => {
                specs[i] = Some(("uni".into(), side, stream_spec(w, ""), None));
                incoming[1 - side][0] += 1;
            }
            Some(&"bi") => {
                specs[i] = Some(("bi".into(), side, stream_spec(w, ""), Some(stream_spec(w, "e"))));
                incoming[1 - side][1] += 1;
            }
            Some(&"dgram") => dgrams.push((
                i,
                side,
                kvn(w, "count", 1) as usize,
                kvn(w, "size", 16).max(8) as usize,
                kvn(w, "seed", 0),
                kvn(w, "wait", 1) == 1,
            )),
            Some(&"end") => {}
            _ => out[i] = "bad-op".into(),
        }
    }
    let fails: Fails = Rc::new(RefCell::new(vec![]));
    let ctx = Rc::new(TCtx {
        conns: conns.clone(),
        registry: Rc::new(RefCell::new(HashMap::new())),
        results: Rc::new(RefCell::new(vec![[None, None]; n])),
        wres: Rc::new(RefCell::new(vec![[None, None]; n])),
        specs: Rc::new(specs.clone()),
        fails: fails.clone(),
        notify: Rc::new(Notify::default()),
        live: Rc::new(Cell::new(0)),
    });
    let mut handles: Vec<JoinHandle<()>> = vec![];
    // --- acceptors
    for side in 0..2 {
        for is_bi in [false, true] {
            let count = incoming[side][is_bi as usize];
            if count == 0 {
                continue;
            }
            ctx.live.set(ctx.live.get() + 1);
            let ctx2 = ctx.clone();
            handles.push(compio_runtime::spawn(async move {
                let conn = ctx2.conns[side].clone();
                for _ in 0..count {
                    let (s, r) = if is_bi {
                        match conn.accept_bi().await {
                            Ok((s, r)) => (Some(s), r),
                            Err(_) => break,
                        }
                    } else {
                        match conn.accept_uni().await {
                            Ok(r) => (None, r),
                            Err(_) => break,
                        }
                    };
                    let key = (1 - side, is_bi, r.id().index());
                    let line = ctx2.registry.borrow().get(&key).copied();
                    let Some(line) = line else {
                        ctx2.fails.borrow_mut().push(("C16:stream-mismatch".into(), format!("accepted unknown stream {key:?}")));
                        continue;
                    };
                    let (_, _, spec, espec) = ctx2.specs[line].clone().unwrap();
                    ctx2.live.set(ctx2.live.get() + 1);
                    compio_runtime::spawn(reader_task(ctx2.clone(), line, 0, r, spec)).detach();
                    if let (Some(s), Some(espec)) = (s, espec) {
                        ctx2.live.set(ctx2.live.get() + 1);
                        let ctx3 = ctx2.clone();
                        compio_runtime::spawn(async move {
                            match writer_half(s, espec).await {
                                Ok(()) => ctx3.wres.borrow_mut()[line][1] = Some("none".into()),
                                Err(e) => {
                                    ctx3.wres.borrow_mut()[line][1] = Some(format!("error:{e}"));
                                    ctx3.results.borrow_mut()[line][1].get_or_insert(format!("error:{e}"));
                                }
                            }
                            ctx3.live.set(ctx3.live.get() - 1);
                            ctx3.notify.notify();
                        })
                        .detach();
                    }
                }
                ctx2.live.set(ctx2.live.get() - 1);
                ctx2.notify.notify();
            }));
        }
    }
    // --- openers / writers
    for (i, sp) in specs.iter().enumerate() {
        let Some((kind, side, spec, espec)) = sp.clone() else { continue };
        ctx.live.set(ctx.live.get() + 1);
        let ctx2 = ctx.clone();
        handles.push(compio_runtime::spawn(async move {
            let conn = ctx2.conns[side].clone();
            let res: Result<(), String> = async {
                if kind == "bi" {
                    let (s, r) = conn.open_bi_wait().await.map_err(|e| format!("open:{}", conn_err(&e)))?;
                    ctx2.registry.borrow_mut().insert((side, true, s.id().index()), i);
                    ctx2.live.set(ctx2.live.get() + 1);
                    compio_runtime::spawn(reader_task(ctx2.clone(), i, 1, r, espec.unwrap())).detach();
                    writer_half(s, spec).await
                } else {
                    let s = conn.open_uni_wait().await.map_err(|e| format!("open:{}", conn_err(&e)))?;
                    ctx2.registry.borrow_mut().insert((side, false, s.id().index()), i);
                    writer_half(s, spec).await
                }
            }
            .await;
            match res {
                Ok(()) => ctx2.wres.borrow_mut()[i][0] = Some("none".into()),
                Err(e) => {
                    ctx2.wres.borrow_mut()[i][0] = Some(format!("error:{e}"));
                    ctx2.results.borrow_mut()[i][0].get_or_insert(format!("error:{e}"));
                }
            }
            ctx2.live.set(ctx2.live.get() - 1);
            ctx2.notify.notify();
        }));
    }
    // --- datagrams
    let dg_expected: Rc<RefCell<[HashMap<Vec<u8>, (usize, bool)>; 2]>> = Rc::new(RefCell::new([HashMap::new(), HashMap::new()]));
    let dg_got: Rc<RefCell<HashMap<usize, usize>>> = Rc::new(RefCell::new(HashMap::new()));
    let dg_senders = Rc::new(Cell::new(dgrams.len()));
    for &(line, side, count, size, seed, wait) in &dgrams {
        let mut all = vec![];
        for j in 0..count {
            let mut d = vec![(line >> 8) as u8, line as u8, (j >> 8) as u8, j as u8];
            d.extend(payload(seed + j as u64, size - 4));
            dg_expected.borrow_mut()[1 - side].insert(d.clone(), (line, false));
            all.push(d);
        }
        let conn = conns[side].clone();
        let results = ctx.results.clone();
        let (dg_senders, notify) = (dg_senders.clone(), ctx.notify.clone());
        ctx.live.set(ctx.live.get() + 1);
        let live = ctx.live.clone();
        handles.push(compio_runtime::spawn(async move {
            let mut status = "dgram ok".to_string();
            for d in all {
                let r = if wait {
                    conn.send_datagram_wait(Bytes::from(d)).await
                } else {
                    conn.send_datagram(Bytes::from(d))
                };
                if let Err(e) = r {
                    status = format!("error:send:{e}");
                    break;
                }
            }
            results.borrow_mut()[line][0] = Some(status);
            dg_senders.set(dg_senders.get() - 1);
            live.set(live.get() - 1);
            notify.notify();
        }));
    }
    let mut dg_tasks = vec![];
    if !dgrams.is_empty() {
        for side in 0..2 {
            if dg_expected.borrow()[side].is_empty() {
                continue;
            }
            let conn = conns[side].clone();
            let (exp, got, fails, notify) = (dg_expected.clone(), dg_got.clone(), fails.clone(), ctx.notify.clone());
            dg_tasks.push(compio_runtime::spawn(async move {
                while let Ok(d) = conn.recv_datagram().await {
                    let mut e = exp.borrow_mut();
                    match e[side].get_mut(&d[..]) {
                        None => fails.borrow_mut().push(("C16:dgram-corrupt".into(), format!("{} unknown bytes received", d.len()))),
                        Some((_, true)) => fails.borrow_mut().push(("C16:dgram-dup".into(), "datagram delivered twice".into())),
                        Some((line, seen)) => {
                            *seen = true;
                            *got.borrow_mut().entry(*line).or_insert(0) += 1;
                        }
                    }
                    notify.notify();
                }
            }));
        }
    }
    // --- wait for completion
    let live = ctx.live.clone();
    // a stalled transfer costs a whole watchdog: after two of them in one run the later cases wait less
    let watchdog = if T_STALLS.load(std::sync::atomic::Ordering::Relaxed) >= 2 { Duration::from_secs(3) } else { Duration::from_secs(20) };
    let finished = ctx.notify.wait_until(|| live.get() == 0, watchdog).await;
    if !finished {
        T_STALLS.fetch_add(1, std::sync::atomic::Ordering::Relaxed);
    }
    if finished && !dgrams.is_empty() {
        // datagrams are unreliable: wait for all of them, but not for long
        let total: usize = dgrams.iter().map(|d| d.2).sum();
        let got = dg_got.clone();
        ctx.notify.wait_until(|| got.borrow().values().sum::<usize>() == total, Duration::from_millis(60)).await;
    }
    for (i, sp) in specs.iter().enumerate() {
        let Some((kind, ..)) = sp else { continue };
        let r = ctx.results.borrow()[i].clone();
        let wr = ctx.wres.borrow()[i].clone();
        let show = |x: &Option<String>, w: &Option<String>| {
            format!("{} stopped={}", x.clone().unwrap_or_else(|| "timeout".into()), w.clone().unwrap_or_else(|| "timeout".into()))
        };
        out[i] = if kind == "bi" { format!("{} | {}", show(&r[0], &wr[0]), show(&r[1], &wr[1])) } else { show(&r[0], &wr[0]) };
        let dirs = if kind == "bi" { 2 } else { 1 };
        for d in 0..dirs {
            if r[d].is_none() {
                fails.borrow_mut().push((
                    "C16:stranded-future".into(),
                    format!("kind=read (transfer) line {i} direction {d}: the reader did not finish within {} s", watchdog.as_secs()),
                ));
            }
            if wr[d].is_none() {
                fails.borrow_mut().push((
                    "C16:stranded-future".into(),
                    format!(
                        "kind=write/stopped (transfer) line {i} direction {d}: write .. finish .. stopped().await did not finish within {} s",
                        watchdog.as_secs()
                    ),
                ));
            }
        }
    }
    for &(line, _, count, ..) in &dgrams {
        out[line] = ctx.results.borrow()[line][0].clone().unwrap_or_else(|| "timeout".into());
        let got = dg_got.borrow().get(&line).copied().unwrap_or(0);
        ex.tag(if got == count { "T:dgram-all-delivered" } else { "T:dgram-some-lost" });
    }
    for (i, w) in words.iter().enumerate() {
        if w.get(1) == Some(&"end") {
            for c in &conns {
                c.close(0u32.into(), b"done");
            }
            out[i] = "ok".into();
        }
    }
    for c in &conns {
        c.close(0u32.into(), b"done");
    }
    for t in dg_tasks {
        let _ = timeout(Duration::from_millis(500), t).await;
    }
    drop(handles);
    for (sig, d) in fails.borrow().iter() {
        ex.fail(sig.clone(), d.clone());
    }
    drop(ctx);
    retire(eps.into_iter().collect());
    out
}

// ------------------------------------------------------------------------------------------- C cases

struct Pend {
    line: usize,
    side: usize,
    kind: String,
    sid: Option<usize>,
    seen: Rc<Cell<bool>>,
    result: Rc<RefCell<Option<String>>>,
    handle: Option<JoinHandle<()>>,
    reported: bool,
}

impl Pend {
    fn done(&self) -> bool {
        self.result.borrow().is_some()
    }
}

struct CSide {
    ep: Endpoint,
    conn: Option<Connection>,
    send: HashMap<usize, SendStream>,
    recv: HashMap<usize, RecvStream>,
}

type Graveyard = Rc<RefCell<Vec<Box<dyn Any>>>>;

const ACT_WATCHDOG: Duration = Duration::from_millis(1200);
const CLOSE_WATCHDOG: Duration = Duration::from_millis(2000);

fn side_of(w: &str) -> Option<usize> {
    match w {
        "c" => Some(0),
        "s" => Some(1),
        _ => None,
    }
}

async fn run_close_case(lines: &[String], ex: &mut Exec) -> Vec<String> {
    let n = lines.len();
    let mut out: Vec<String> = vec!["skipped".into(); n];
    let words: Vec<Vec<&str>> = lines.iter().map(|l| l.split_whitespace().collect()).collect();
    let w0 = &words[0];
    if w0.get(1) != Some(&"conn") {
        return vec!["bad-op".into(); n];
    }
    let srw = kvn(w0, "srw", 4096);
    let mk = |uni: u64, bi: u64| {
        let mut t = TransportConfig::default();
        t.stream_receive_window(VarInt::from_u64(srw).unwrap());
        t.max_concurrent_uni_streams(VarInt::from_u64(uni).unwrap());
        t.max_concurrent_bidi_streams(VarInt::from_u64(bi).unwrap());
        t.datagram_send_buffer_size(kvn(w0, "dgsb", 1_000_000) as usize);
        t
    };
    // the server's limits bound what the CLIENT may open and vice versa
    let server_t = mk(kvn(w0, "cuni", 0), kvn(w0, "cbi", 0));
    let client_t = mk(kvn(w0, "suni", 0), kvn(w0, "sbi", 0));
    let zero = kvn(w0, "zero", 0) == 1;
    let notify = Rc::new(Notify::default());
    let grave: Graveyard = Rc::new(RefCell::new(vec![]));
    let mut pending_connecting: Option<Connecting> = None;
    let mut sides: Vec<CSide>;
    if zero {
        let (sc, cc) = configs(server_t, client_t);
        let server = Endpoint::server("127.0.0.1:0", sc).await.unwrap();
        let mut client = Endpoint::client("127.0.0.1:0").await.unwrap();
        client.default_client_config = Some(cc);
        let connecting = client.connect(server.local_addr().unwrap(), "localhost", None).unwrap();
        let inc = match timeout(Duration::from_secs(5), server.wait_incoming()).await {
            Ok(Some(i)) => i,
            _ => {
                out[0] = "error:no incoming".into();
                return out;
            }
        };
        let sconn = match inc.accept().map(|c| c.into_0rtt()) {
            Ok(Ok(c)) => c,
            _ => {
                out[0] = "error:into_0rtt".into();
                return out;
            }
        };
        pending_connecting = Some(connecting);
        sides = vec![
            CSide { ep: client, conn: None, send: HashMap::new(), recv: HashMap::new() },
            CSide { ep: server, conn: Some(sconn), send: HashMap::new(), recv: HashMap::new() },
        ];
    } else {
        match establish(server_t, client_t).await {
            Ok(Pair { eps, conns, .. }) => {
                let [ce, se] = eps;
                let [cc, sc] = conns;
                sides = vec![
                    CSide { ep: ce, conn: Some(cc), send: HashMap::new(), recv: HashMap::new() },
                    CSide { ep: se, conn: Some(sc), send: HashMap::new(), recv: HashMap::new() },
                ];
            }
            Err(e) => {
                out[0] = format!("error:{e}");
                return out;
            }
        }
    }
    out[0] = "ok".into();
    let mut pends: Vec<Pend> = vec![];
    let mut cancelled_closed = false;
    let mut fails: Vec<(String, String)> = vec![];

    // classification of a future that did not complete although the property requires it
    let classify = |p: &Pend, pends: &[Pend], cancelled_closed: bool| -> &'static str {
        if cancelled_closed {
            "F161:closed-cancel-kills-worker"
        } else if p.kind == "accepted_0rtt"
            && pends.iter().filter(|q| q.kind == "accepted_0rtt" && q.side == p.side).count() >= 2
        {
            "F160:accepted-0rtt-waker-overwritten"
        } else {
            "C16:stranded-future"
        }
    };

    for i in 1..n {
        let w = &words[i];
        match w.get(1).copied() {
            Some("stream") => {
                let (Some(k), Some(side), Some(kind)) =
                    (w.get(2).and_then(|x| x.parse::<usize>().ok()), w.get(3).and_then(|x| side_of(x)), w.get(4).copied())
                else {
                    out[i] = "bad-op".into();
                    continue;
                };
                let (Some(oc), Some(ac)) = (sides[side].conn.clone(), sides[1 - side].conn.clone()) else {
                    out[i] = "bad-op".into();
                    continue;
                };
                let r: Result<(), String> = timeout(Duration::from_secs(5), async {
                    if kind == "bi" {
                        let (mut s, r) = oc.open_bi_wait().await.map_err(|e| conn_err(&e).to_string())?;
                        s.write_all(vec![k as u8]).await.0.map_err(|e| e.to_string())?;
                        let (s2, mut r2) = ac.accept_bi().await.map_err(|e| conn_err(&e).to_string())?;
                        let BufResult(res, _) = r2.read(Vec::with_capacity(1)).await;
                        res.map_err(|e| e.to_string())?;
                        sides[side].send.insert(k, s);
                        sides[side].recv.insert(k, r);
                        sides[1 - side].send.insert(k, s2);
                        sides[1 - side].recv.insert(k, r2);
                    } else {
                        let mut s = oc.open_uni_wait().await.map_err(|e| conn_err(&e).to_string())?;
                        s.write_all(vec![k as u8]).await.0.map_err(|e| e.to_string())?;
                        let mut r2 = ac.accept_uni().await.map_err(|e| conn_err(&e).to_string())?;
                        let BufResult(res, _) = r2.read(Vec::with_capacity(1)).await;
                        res.map_err(|e| e.to_string())?;
                        sides[side].send.insert(k, s);
                        sides[1 - side].recv.insert(k, r2);
                    }
                    Ok(())
                })
                .await
                .unwrap_or_else(|_| Err("timeout".into()));
                out[i] = match r {
                    Ok(()) => "ok".into(),
                    Err(e) => format!("error:{e}"),
                };
            }
            Some("pend") => {
                let (Some(side), Some(kind)) = (w.get(2).and_then(|x| side_of(x)), w.get(3).copied()) else {
                    out[i] = "bad-op".into();
                    continue;
                };
                let sid = w.get(4).and_then(|x| x.parse::<usize>().ok());
                let seen = Rc::new(Cell::new(false));
                let result: Rc<RefCell<Option<String>>> = Rc::new(RefCell::new(None));
                let (seen2, result2, notify2, grave2) = (seen.clone(), result.clone(), notify.clone(), grave.clone());
                let conn = sides[side].conn.clone();
                let finish = move |r: String| {
                    *result2.borrow_mut() = Some(r);
                    notify2.notify();
                };
                let handle: Option<JoinHandle<()>> = match kind {
                    "read" | "reset" => sid.and_then(|k| sides[side].recv.remove(&k)).map(|mut r| {
                        let notify = notify.clone();
                        let kind = kind.to_string();
                        compio_runtime::spawn(async move {
                            let res = if kind == "read" {
                                let BufResult(res, _) = probe(r.read(Vec::with_capacity(64)), &seen2, &notify).await;
                                match res {
                                    Ok(0) => "ok:eos".to_string(),
                                    Ok(_) => "ok:data".to_string(),
                                    Err(e) => match e.downcast::<ReadError>() {
                                        Ok(e) => read_err(&e),
                                        Err(e) => format!("err:{e}"),
                                    },
                                }
                            } else {
                                match probe(r.received_reset(), &seen2, &notify).await {
                                    Ok(Some(_)) => "ok:reset".to_string(),
                                    Ok(None) => "ok:none".to_string(),
                                    Err(compio_quic::ResetError::ConnectionLost(e)) => format!("err:{}", conn_err(&e)),
                                    Err(e) => format!("err:{e}"),
                                }
                            };
                            grave2.borrow_mut().push(Box::new(r));
                            finish(res);
                        })
                    }),
                    "write" | "stopped" => sid.and_then(|k| sides[side].send.remove(&k)).map(|mut s| {
                        let notify = notify.clone();
                        let kind = kind.to_string();
                        compio_runtime::spawn(async move {
                            let res = if kind == "write" {
                                // write until one `write` future has been Pending; its result is the outcome
                                loop {
                                    let r = probe(s.write(vec![0x5a; 65536]), &seen2, &notify).await.0;
                                    match r {
                                        Ok(_) if !seen2.get() => continue,
                                        Ok(_) => break "ok:written".to_string(),
                                        Err(e) => {
                                            break match e.downcast::<WriteError>() {
                                                Ok(e) => write_err(&e),
                                                Err(e) => format!("err:{e}"),
                                            };
                                        }
                                    }
                                }
                            } else {
                                match probe(s.stopped(), &seen2, &notify).await {
                                    Ok(Some(_)) => "ok:stopped".to_string(),
                                    Ok(None) => "ok:none".to_string(),
                                    Err(StoppedError::ConnectionLost(e)) => format!("err:{}", conn_err(&e)),
                                    Err(e) => format!("err:{e}"),
                                }
                            };
                            grave2.borrow_mut().push(Box::new(s));
                            finish(res);
                        })
                    }),
                    "open_uni" | "open_bi" | "accept_uni" | "accept_bi" | "recv_dgram" | "closed" | "accepted_0rtt" => {
                        conn.map(|conn| {
                            let notify = notify.clone();
                            let kind = kind.to_string();
                            compio_runtime::spawn(async move {
                                let show = |r: Result<Box<dyn Any>, ConnectionError>, grave: &Graveyard, ok: &str| match r {
                                    Ok(x) => {
                                        grave.borrow_mut().push(x);
                                        ok.to_string()
                                    }
                                    Err(e) => format!("err:{}", conn_err(&e)),
                                };
                                let res = match kind.as_str() {
                                    "open_uni" => show(
                                        probe(conn.open_uni_wait(), &seen2, &notify).await.map(|x| Box::new(x) as Box<dyn Any>),
                                        &grave2,
                                        "ok:stream",
                                    ),
                                    "open_bi" => show(
                                        probe(conn.open_bi_wait(), &seen2, &notify).await.map(|x| Box::new(x) as Box<dyn Any>),
                                        &grave2,
                                        "ok:stream",
                                    ),
                                    "accept_uni" => show(
                                        probe(conn.accept_uni(), &seen2, &notify).await.map(|x| Box::new(x) as Box<dyn Any>),
                                        &grave2,
                                        "ok:stream",
                                    ),
                                    "accept_bi" => show(
                                        probe(conn.accept_bi(), &seen2, &notify).await.map(|x| Box::new(x) as Box<dyn Any>),
                                        &grave2,
                                        "ok:stream",
                                    ),
                                    "recv_dgram" => show(
                                        probe(conn.recv_datagram(), &seen2, &notify).await.map(|x| Box::new(x) as Box<dyn Any>),
                                        &grave2,
                                        "ok:dgram",
                                    ),
                                    "accepted_0rtt" => show(
                                        probe(conn.accepted_0rtt(), &seen2, &notify).await.map(|x| Box::new(x) as Box<dyn Any>),
                                        &grave2,
                                        "ok:connected",
                                    ),
                                    _ => {
                                        use futures_util::FutureExt;
                                        let fut = std::panic::AssertUnwindSafe(probe(conn.closed(), &seen2, &notify));
                                        match fut.catch_unwind().await {
                                            Ok(e) => format!("err:{}", conn_err(&e)),
                                            Err(_) => "panic".to_string(),
                                        }
                                    }
                                };
                                finish(res);
                            })
                        })
                    }
                    "connecting" | "handshake_data" => {
                        // a connection attempt to a socket that never answers
                        let dead = std::net::UdpSocket::bind("127.0.0.1:0").unwrap();
                        let addr = dead.local_addr().unwrap();
                        grave.borrow_mut().push(Box::new(dead));
                        match sides[side].ep.connect(addr, "localhost", None) {
                            Ok(mut c) => {
                                let notify = notify.clone();
                                let kind = kind.to_string();
                                Some(compio_runtime::spawn(async move {
                                    let res = if kind == "connecting" {
                                        match probe(c, &seen2, &notify).await {
                                            Ok(conn) => {
                                                grave2.borrow_mut().push(Box::new(conn));
                                                "ok:conn".to_string()
                                            }
                                            Err(e) => format!("err:{}", conn_err(&e)),
                                        }
                                    } else {
                                        let r = match probe(c.handshake_data(), &seen2, &notify).await {
                                            Ok(_) => "ok:hs".to_string(),
                                            Err(e) => format!("err:{}", conn_err(&e)),
                                        };
                                        grave2.borrow_mut().push(Box::new(c));
                                        r
                                    };
                                    finish(res);
                                }))
                            }
                            Err(_) => None,
                        }
                    }
                    "incoming" => {
                        let ep = sides[side].ep.clone();
                        let notify = notify.clone();
                        Some(compio_runtime::spawn(async move {
                            let res = match probe(ep.wait_incoming(), &seen2, &notify).await {
                                None => "ok:none".to_string(),
                                Some(i) => {
                                    i.ignore();
                                    "ok:incoming".to_string()
                                }
                            };
                            finish(res);
                        }))
                    }
                    _ => None,
                };
                let Some(handle) = handle else {
                    out[i] = "bad-op".into();
                    continue;
                };
                let p = Pend { line: i, side, kind: kind.to_string(), sid, seen, result, handle: Some(handle), reported: false };
                // the future must be observed Pending (or finish / die at once)
                let (s2, r2) = (p.seen.clone(), p.result.clone());
                let h_done = || p.handle.as_ref().map(|_| false).unwrap_or(true);
                let _ = h_done;
                let ok = notify.wait_until(|| s2.get() || r2.borrow().is_some(), Duration::from_millis(700)).await;
                let mut p = p;
                if p.done() && !p.seen.get() && p.result.borrow().as_deref() == Some("panic") {
                    out[i] = "panic".into();
                    p.reported = true;
                    let sig = if kind == "closed" { "F162:closed-twice-panic" } else { "C16:panic" };
                    fails.push((sig.into(), format!("kind={kind} side={side}: the future panicked when polled")));
                } else if p.done() && !p.seen.get() {
                    out[i] = format!("ready:{}", p.result.borrow().clone().unwrap());
                    p.reported = true;
                } else if ok {
                    out[i] = "pending".into();
                } else {
                    // neither pending nor finished: the task died (panic inside the future)
                    let panicked = match p.handle.take() {
                        Some(h) => matches!(timeout(Duration::from_millis(200), h).await, Ok(Err(_))),
                        None => false,
                    };
                    if panicked {
                        out[i] = "panic".into();
                        p.reported = true;
                        *p.result.borrow_mut() = Some("panic".into());
                        let sig = if kind == "closed" { "F162:closed-twice-panic" } else { "C16:panic" };
                        fails.push((sig.into(), format!("kind={kind} side={side}: the future panicked when polled")));
                    } else {
                        out[i] = "not-polled".into();
                    }
                }
                pends.push(p);
            }
            Some("act") => {
                let (Some(side), Some(what)) = (w.get(2).and_then(|x| side_of(x)), w.get(3).copied()) else {
                    out[i] = "bad-op".into();
                    continue;
                };
                let arg = w.get(4).copied().unwrap_or("");
                let k = arg.parse::<usize>().ok();
                let peer = 1 - side;
                // (peer side, kind, stream) of the pending futures this action must complete; `any_one`: one of them
                let mut expect: Vec<usize> = vec![];
                let mut any_one: Option<&str> = None;
                let mut any_n: usize = 1;
                let mut star = false;
                let unreported = |kind: &str, sd: usize, sid: Option<usize>, pends: &[Pend]| -> Vec<usize> {
                    pends
                        .iter()
                        .enumerate()
                        .filter(|(_, p)| !p.reported && !p.done() && p.side == sd && p.kind == kind && (sid.is_none() || p.sid == sid))
                        .map(|(j, _)| j)
                        .collect()
                };
                let performed: Result<(), String> = async {
                    match what {
                        "stop" => {
                            let r = sides[side].recv.get_mut(&k.ok_or("arg")?).ok_or("no recv half")?;
                            r.stop(7u32.into()).map_err(|_| "closed stream")?;
                            expect.extend(unreported("stopped", peer, k, &pends));
                            expect.extend(unreported("write", peer, k, &pends));
                        }
                        "reset" => {
                            let s = sides[side].send.get_mut(&k.ok_or("arg")?).ok_or("no send half")?;
                            s.reset(9u32.into()).map_err(|_| "closed stream")?;
                            expect.extend(unreported("read", peer, k, &pends));
                            expect.extend(unreported("reset", peer, k, &pends));
                        }
                        "finish" => {
                            let s = sides[side].send.get_mut(&k.ok_or("arg")?).ok_or("no send half")?;
                            s.finish().map_err(|_| "closed stream")?;
                            expect.extend(unreported("read", peer, k, &pends));
                        }
                        "write" => {
                            let s = sides[side].send.get_mut(&k.ok_or("arg")?).ok_or("no send half")?;
                            let BufResult(r, _) = timeout(Duration::from_secs(2), s.write_all(vec![1u8, 2, 3]))
                                .await
                                .map_err(|_| "write timeout")?;
                            r.map_err(|e| e.to_string())?;
                            expect.extend(unreported("read", peer, k, &pends));
                        }
                        "drain" => {
                            let r = sides[side].recv.get_mut(&k.ok_or("arg")?).ok_or("no recv half")?;
                            // read what the blocked writer could send: the whole stream window minus the
                            // set-up byte (a slow reader: the data may still be in flight when we start)
                            let want = (srw as usize).saturating_sub(1);
                            let got = timeout(Duration::from_secs(3), async {
                                let mut got = 0usize;
                                while got < want {
                                    let BufResult(res, _) = r.read(Vec::with_capacity((want - got).min(16384))).await;
                                    match res {
                                        Ok(n) if n > 0 => got += n,
                                        _ => break,
                                    }
                                }
                                got
                            })
                            .await
                            .map_err(|_| "drain timeout")?;
                            if got != want {
                                return Err(format!("drained {got} of {want}"));
                            }
                            expect.extend(unreported("write", peer, k, &pends));
                        }
                        "dgram" => {
                            let c = sides[side].conn.as_ref().ok_or("no conn")?;
                            c.send_datagram(Bytes::from_static(b"ping")).map_err(|e| e.to_string())?;
                            if !unreported("recv_dgram", peer, None, &pends).is_empty() {
                                any_one = Some("recv_dgram");
                            }
                            star = true;
                        }
                        "dgrams" => {
                            // a burst: all datagrams are queued before the worker runs, so they travel together and
                            // the peer's receive buffer goes from empty to non-empty ONCE
                            let c = sides[side].conn.as_ref().ok_or("no conn")?;
                            let cnt = k.ok_or("arg")?;
                            for j in 0..cnt {
                                c.send_datagram(Bytes::from(vec![j as u8; 8])).map_err(|e| e.to_string())?;
                            }
                            let waiting = unreported("recv_dgram", peer, None, &pends).len();
                            if waiting > 0 {
                                any_one = Some("recv_dgram");
                                any_n = waiting.min(cnt);
                            }
                            star = true;
                        }
                        "drop" => {
                            let kk = k.ok_or("arg")?;
                            match w.get(5).copied() {
                                Some("recv") => {
                                    let r = sides[side].recv.remove(&kk).ok_or("no recv half")?;
                                    drop(r); // implicit stop(0)
                                    expect.extend(unreported("stopped", peer, k, &pends));
                                    expect.extend(unreported("write", peer, k, &pends));
                                }
                                Some("send") => {
                                    let s = sides[side].send.remove(&kk).ok_or("no send half")?;
                                    drop(s); // implicit finish()
                                    expect.extend(unreported("read", peer, k, &pends));
                                }
                                _ => return Err("bad-op".into()),
                            }
                        }
                        "open" => {
                            let c = sides[side].conn.clone().ok_or("no conn")?;
                            if arg == "bi" {
                                let (mut s, r) = timeout(Duration::from_secs(2), c.open_bi_wait())
                                    .await
                                    .map_err(|_| "open timeout")?
                                    .map_err(|e| conn_err(&e).to_string())?;
                                s.write_all(vec![0u8]).await.0.map_err(|e| e.to_string())?;
                                grave.borrow_mut().push(Box::new((s, r)));
                                if !unreported("accept_bi", peer, None, &pends).is_empty() {
                                    any_one = Some("accept_bi");
                                }
                            } else {
                                let mut s = timeout(Duration::from_secs(2), c.open_uni_wait())
                                    .await
                                    .map_err(|_| "open timeout")?
                                    .map_err(|e| conn_err(&e).to_string())?;
                                s.write_all(vec![0u8]).await.0.map_err(|e| e.to_string())?;
                                grave.borrow_mut().push(Box::new(s));
                                if !unreported("accept_uni", peer, None, &pends).is_empty() {
                                    any_one = Some("accept_uni");
                                }
                            }
                            star = true;
                        }
                        "limit" => {
                            let c = sides[side].conn.as_ref().ok_or("no conn")?;
                            if arg == "bi" {
                                c.set_max_concurrent_bi_streams(1000u32.into());
                                expect.extend(unreported("open_bi", peer, None, &pends));
                            } else {
                                c.set_max_concurrent_uni_streams(1000u32.into());
                                expect.extend(unreported("open_uni", peer, None, &pends));
                            }
                        }
                        "handshake" => {
                            let c = pending_connecting.take().ok_or("no connecting")?;
                            let conn = timeout(Duration::from_secs(5), c)
                                .await
                                .map_err(|_| "handshake timeout")?
                                .map_err(|e| conn_err(&e).to_string())?;
                            sides[0].conn = Some(conn);
                            expect.extend(unreported("accepted_0rtt", 1, None, &pends));
                        }
                        "cancelclosed" => {
                            let c = sides[side].conn.clone().ok_or("no conn")?;
                            let r = timeout(Duration::from_millis(20), c.closed()).await;
                            if r.is_ok() {
                                return Err("closed() completed".into());
                            }
                            cancelled_closed = true;
                        }
                        _ => return Err("bad-op".into()),
                    }
                    Ok(())
                }
                .await;
                if let Err(e) = performed {
                    out[i] = if e == "bad-op" { e } else { format!("error:{e}") };
                    continue;
                }
                // wait for what the property requires …
                let ok = {
                    let pr = &pends;
                    let ex2 = expect.clone();
                    notify
                        .wait_until(
                            || {
                                ex2.iter().all(|&j| pr[j].done())
                                    && any_one
                                        .map(|kd| pr.iter().filter(|p| !p.reported && p.kind == kd && p.side == peer && p.done()).count() >= any_n)
                                        .unwrap_or(true)
                            },
                            ACT_WATCHDOG,
                        )
                        .await
                };
                // … and a little longer for anything else that completes
                sleep(Duration::from_millis(3)).await;
                if !ok {
                    for &j in &expect {
                        if !pends[j].done() {
                            let sig = classify(&pends[j], &pends, cancelled_closed);
                            fails.push((
                                sig.into(),
                                format!("kind={} side={} after=act:{what}: still pending {} ms after the event", pends[j].kind, pends[j].side, ACT_WATCHDOG.as_millis()),
                            ));
                        }
                    }
                    if let Some(kd) = any_one {
                        let got = pends.iter().filter(|p| !p.reported && p.kind == kd && p.side == peer && p.done()).count();
                        if got < any_n {
                            let sig = if cancelled_closed { "F161:closed-cancel-kills-worker" } else { "C16:stranded-future" };
                            fails.push((
                                sig.into(),
                                format!("kind={kd} side={peer} after=act:{what}: {got} of {any_n} waiters completed within {} ms", ACT_WATCHDOG.as_millis()),
                            ));
                        }
                    }
                }
                let mut done: Vec<String> = vec![];
                for p in pends.iter_mut() {
                    if !p.reported && p.done() {
                        p.reported = true;
                        let r = p.result.borrow().clone().unwrap();
                        done.push(if star { format!("*:{r}") } else { format!("{}:{r}", p.line) });
                    }
                }
                out[i] = format!("done=[{}]", done.join(","));
            }
            Some("syncclose") => {
                // `n` send_datagram_wait futures blocked on a full datagram buffer, each with its own counting
                // waker, polled by hand; then `Connection::close` WITHOUT yielding to the runtime in between:
                // every waker must have been woken exactly once and every future must now fail
                let (Some(side), Some(cnt)) =
                    (w.get(2).and_then(|x| side_of(x)), w.get(3).and_then(|x| x.parse::<usize>().ok()))
                else {
                    out[i] = "bad-op".into();
                    continue;
                };
                let Some(conn) = sides[side].conn.clone() else {
                    out[i] = "bad-op".into();
                    continue;
                };
                struct Count(std::sync::atomic::AtomicUsize);
                impl std::task::Wake for Count {
                    fn wake(self: Arc<Self>) {
                        self.0.fetch_add(1, std::sync::atomic::Ordering::SeqCst);
                    }
                }
                let fill = conn.send_datagram(Bytes::from(vec![7u8; 600]));
                let counters: Vec<Arc<Count>> =
                    (0..cnt).map(|_| Arc::new(Count(std::sync::atomic::AtomicUsize::new(0)))).collect();
                let mut futs: Vec<Pin<Box<dyn Future<Output = Result<(), compio_quic::SendDatagramError>>>>> = (0..cnt)
                    .map(|_| {
                        let c = conn.clone();
                        Box::pin(async move { c.send_datagram_wait(Bytes::from(vec![8u8; 600])).await }) as Pin<Box<dyn Future<Output = _>>>
                    })
                    .collect();
                let mut pending = 0;
                for (f, c) in futs.iter_mut().zip(&counters) {
                    let waker = Waker::from(c.clone());
                    if f.as_mut().poll(&mut Context::from_waker(&waker)).is_pending() {
                        pending += 1;
                    }
                }
                conn.close(3u32.into(), b"bye");
                let woken: Vec<String> =
                    counters.iter().map(|c| c.0.load(std::sync::atomic::Ordering::SeqCst).to_string()).collect();
                let mut results = vec![];
                for (f, c) in futs.iter_mut().zip(&counters) {
                    let waker = Waker::from(c.clone());
                    results.push(match f.as_mut().poll(&mut Context::from_waker(&waker)) {
                        Poll::Pending => "pending".to_string(),
                        Poll::Ready(Ok(())) => "ok".to_string(),
                        Poll::Ready(Err(compio_quic::SendDatagramError::ConnectionLost(e))) => format!("err:{}", conn_err(&e)),
                        Poll::Ready(Err(e)) => format!("err:{e}"),
                    });
                }
                if fill.is_err() {
                    out[i] = format!("error:fill:{:?}", fill.err());
                    continue;
                }
                for (j, (wk, r)) in woken.iter().zip(&results).enumerate() {
                    if wk != "1" || r == "pending" {
                        fails.push((
                            "C16:stranded-future".into(),
                            format!("kind=send_datagram_wait side={side} after=close:sync: future {j} woken {wk} times, re-poll {r}"),
                        ));
                    }
                }
                out[i] = format!("pending={pending} woken=[{}] results=[{}]", woken.join(","), results.join(","));
            }
            Some("close") => {
                let (Some(side), Some(how)) = (w.get(2).and_then(|x| side_of(x)), w.get(3).copied()) else {
                    out[i] = "bad-op".into();
                    continue;
                };
                match how {
                    "conn" => match &sides[side].conn {
                        Some(c) => c.close(3u32.into(), b"bye"),
                        None => {
                            out[i] = "bad-op".into();
                            continue;
                        }
                    },
                    "endpoint" => sides[side].ep.close(3u32.into(), b"bye"),
                    _ => {
                        out[i] = "bad-op".into();
                        continue;
                    }
                }
                // every pending future of both connections must complete; futures on OTHER connections of an
                // endpoint (connecting, handshake_data, incoming) only when that endpoint is closed
                let must: Vec<usize> = pends
                    .iter()
                    .enumerate()
                    .filter(|(_, p)| !p.reported && !p.done())
                    .filter(|(_, p)| match p.kind.as_str() {
                        "connecting" | "handshake_data" | "incoming" => how == "endpoint" && p.side == side,
                        _ => true,
                    })
                    .map(|(j, _)| j)
                    .collect();
                {
                    let pr = &pends;
                    let t0 = std::time::Instant::now();
                    notify.wait_until(|| must.iter().all(|&j| pr[j].done()), CLOSE_WATCHDOG).await;
                    if std::env::var("C16_TIMING").is_ok() {
                        eprintln!("close wait {:.1} ms", t0.elapsed().as_secs_f64() * 1e3);
                    }
                }
                sleep(Duration::from_millis(3)).await;
                let mut closed = vec![];
                let mut stranded = vec![];
                for (j, p) in pends.iter().enumerate() {
                    if p.reported {
                        continue;
                    }
                    if p.done() {
                        closed.push(format!("{}:{}", p.line, p.result.borrow().clone().unwrap()));
                    } else if must.contains(&j) {
                        stranded.push(p.line.to_string());
                        let sig = classify(p, &pends, cancelled_closed);
                        fails.push((
                            sig.into(),
                            format!(
                                "kind={} side={} after=close:{how}: still pending {} ms after the close",
                                p.kind,
                                p.side,
                                CLOSE_WATCHDOG.as_millis()
                            ),
                        ));
                    }
                }
                for p in pends.iter_mut() {
                    if p.done() {
                        p.reported = true;
                    }
                }
                out[i] = format!("closed=[{}] stranded=[{}]", closed.join(","), stranded.join(","));
            }
            _ => out[i] = "bad-op".into(),
        }
    }
    // --- tear down
    for p in &pends {
        ex.tag(format!("C:pend:{}", p.kind));
    }
    for s in &sides {
        if let Some(c) = &s.conn {
            c.close(0u32.into(), b"");
        }
    }
    for p in pends.iter_mut() {
        // dropping the JoinHandle cancels a task that is still pending
        p.handle.take();
    }
    drop(pending_connecting);
    let mut eps = vec![];
    for s in sides.drain(..) {
        let CSide { ep, conn, send, recv } = s;
        drop(send);
        drop(recv);
        drop(conn);
        eps.push(ep);
    }
    grave.borrow_mut().clear();
    retire(eps);
    for (sig, d) in fails {
        ex.fail(sig, d);
    }
    out
}

// ------------------------------------------------------------------------------------------- E cases

/// endpoint-level cases: `wait_incoming()` futures pending on an endpoint with no / a drained / a live connection,
/// a connection attempt, `Endpoint::close`, `Endpoint::shutdown`
async fn run_endpoint_case(lines: &[String], ex: &mut Exec) -> Vec<String> {
    let n = lines.len();
    let mut out: Vec<String> = vec!["skipped".into(); n];
    let words: Vec<Vec<&str>> = lines.iter().map(|l| l.split_whitespace().collect()).collect();
    if words[0].get(1) != Some(&"ep") {
        return vec!["bad-op".into(); n];
    }
    let kind = words[0].get(2).copied().unwrap_or("zero");
    let notify = Rc::new(Notify::default());
    let grave: Graveyard = Rc::new(RefCell::new(vec![]));
    let mut others: Vec<Endpoint> = vec![];
    let mut held: Vec<Connection> = vec![];
    let client_cfg: ClientConfig;
    let server: Endpoint = match kind {
        "zero" => {
            let (sc, cc) = configs(TransportConfig::default(), TransportConfig::default());
            client_cfg = cc;
            match Endpoint::server("127.0.0.1:0", sc).await {
                Ok(e) => e,
                Err(e) => {
                    out[0] = format!("error:{e}");
                    return out;
                }
            }
        }
        "live" | "drained" => match establish(TransportConfig::default(), TransportConfig::default()).await {
            Ok(Pair { eps, conns, cc: ccfg }) => {
                client_cfg = ccfg;
                let [ce, se] = eps;
                let [cc, sc] = conns;
                if kind == "live" {
                    held.push(cc);
                    held.push(sc);
                    others.push(ce);
                } else {
                    cc.close(0u32.into(), b"done");
                    sc.close(0u32.into(), b"done");
                    drop(cc);
                    drop(sc);
                    // the client endpoint is gone for good, the server's connection drains
                    let _ = timeout(Duration::from_secs(5), ce.shutdown()).await;
                    let t0 = std::time::Instant::now();
                    while se.open_connections() != 0 && t0.elapsed() < Duration::from_secs(5) {
                        sleep(Duration::from_millis(5)).await;
                    }
                    if se.open_connections() != 0 {
                        out[0] = "error:connection did not drain".into();
                        return out;
                    }
                    // let the worker finish the iteration that removed the connection
                    sleep(Duration::from_millis(5)).await;
                }
                se
            }
            Err(e) => {
                out[0] = format!("error:{e}");
                return out;
            }
        },
        _ => return vec!["bad-op".into(); n],
    };
    out[0] = "ok".into();
    ex.tag(format!("E:endpoint:{kind}"));
    let addr = server.local_addr().unwrap();
    let mut server = Some(server);
    let mut taken: std::collections::VecDeque<compio_quic::Incoming> = Default::default();
    let mut closed_ep = false;
    struct EPend {
        line: usize,
        result: Rc<RefCell<Option<String>>>,
        handle: Option<JoinHandle<()>>,
        reported: bool,
    }
    let mut pends: Vec<EPend> = vec![];
    let mut fails: Vec<(String, String)> = vec![];
    for i in 1..n {
        let w = &words[i];
        match w.get(1).copied() {
            Some("pend") => {
                let Some(ep) = server.clone() else {
                    out[i] = "bad-op".into();
                    continue;
                };
                let seen = Rc::new(Cell::new(false));
                let result: Rc<RefCell<Option<String>>> = Rc::new(RefCell::new(None));
                let (seen2, result2, notify2, grave2) = (seen.clone(), result.clone(), notify.clone(), grave.clone());
                let handle = compio_runtime::spawn(async move {
                    let res = match probe(ep.wait_incoming(), &seen2, &notify2).await {
                        None => "ok:none".to_string(),
                        Some(inc) => {
                            // accept it (a refused / ignored attempt is recreated by the client's next datagram,
                            // which would hand a second `Incoming` to another waiter at a timing-dependent moment)
                            if let Ok(c) = inc.accept() {
                                grave2.borrow_mut().push(Box::new(c));
                            }
                            "ok:incoming".to_string()
                        }
                    };
                    drop(ep);
                    *result2.borrow_mut() = Some(res);
                    notify2.notify();
                });
                let (s2, r2) = (seen.clone(), result.clone());
                let ok = notify.wait_until(|| s2.get() || r2.borrow().is_some(), Duration::from_millis(700)).await;
                let mut p = EPend { line: i, result, handle: Some(handle), reported: false };
                if p.result.borrow().is_some() && !seen.get() {
                    out[i] = format!("ready:{}", p.result.borrow().clone().unwrap());
                    p.reported = true;
                } else if ok {
                    out[i] = "pending".into();
                } else {
                    out[i] = "not-polled".into();
                }
                pends.push(p);
            }
            Some("act") => {
                if w.get(2) != Some(&"connect") {
                    out[i] = "bad-op".into();
                    continue;
                }
                let cc = client_cfg.clone();
                let client = match Endpoint::client("127.0.0.1:0").await {
                    Ok(c) => c,
                    Err(e) => {
                        out[i] = format!("error:{e}");
                        continue;
                    }
                };
                match client.connect(addr, "localhost", Some(cc)) {
                    Ok(connecting) => grave.borrow_mut().push(Box::new(connecting)),
                    Err(e) => {
                        out[i] = format!("error:{e}");
                        continue;
                    }
                }
                others.push(client);
                let waiting = pends.iter().any(|p| !p.reported && p.result.borrow().is_none());
                if waiting {
                    let pr = &pends;
                    let ok = notify
                        .wait_until(|| pr.iter().any(|p| !p.reported && p.result.borrow().is_some()), ACT_WATCHDOG)
                        .await;
                    if !ok {
                        fails.push((
                            "C16:stranded-future".into(),
                            format!("kind=wait_incoming endpoint={kind} after=act:connect: no waiter completed within {} ms", ACT_WATCHDOG.as_millis()),
                        ));
                    }
                } else {
                    // nobody waits: give the packet time to be queued
                    sleep(Duration::from_millis(20)).await;
                }
                sleep(Duration::from_millis(3)).await;
                let mut done = vec![];
                for p in pends.iter_mut() {
                    if !p.reported && p.result.borrow().is_some() {
                        p.reported = true;
                        done.push(format!("*:{}", p.result.borrow().clone().unwrap()));
                    }
                }
                out[i] = format!("done=[{}]", done.join(","));
            }
            Some("take") => {
                // a connection attempt arrives and `wait_incoming()` hands the `Incoming` to the caller, who decides
                // LATER (possibly after `Endpoint::close`) what to do with it
                let Some(ep) = server.clone() else {
                    out[i] = "bad-op".into();
                    continue;
                };
                let client = match Endpoint::client("127.0.0.1:0").await {
                    Ok(c) => c,
                    Err(e) => {
                        out[i] = format!("error:{e}");
                        continue;
                    }
                };
                match client.connect(addr, "localhost", Some(client_cfg.clone())) {
                    Ok(connecting) => grave.borrow_mut().push(Box::new(connecting)),
                    Err(e) => {
                        out[i] = format!("error:{e}");
                        continue;
                    }
                }
                others.push(client);
                match timeout(Duration::from_secs(3), ep.wait_incoming()).await {
                    Ok(Some(inc)) => {
                        taken.push_back(inc);
                        out[i] = "ok".into();
                    }
                    Ok(None) => out[i] = "error:closed".into(),
                    Err(_) => out[i] = "error:no incoming".into(),
                }
            }
            Some(what @ ("refuse" | "retry" | "ignore")) => {
                let Some(inc) = taken.pop_front() else {
                    out[i] = "bad-op".into();
                    continue;
                };
                match what {
                    "refuse" => inc.refuse(),
                    "ignore" => inc.ignore(),
                    _ => {
                        if let Err(e) = inc.retry() {
                            e.into_incoming().refuse();
                        }
                    }
                }
                out[i] = "ok".into();
            }
            Some("accept") => {
                let Some(inc) = taken.pop_front() else {
                    out[i] = "bad-op".into();
                    continue;
                };
                let connecting = match inc.accept() {
                    Ok(c) => c,
                    Err(e) => {
                        out[i] = format!("accept=err:{e}");
                        continue;
                    }
                };
                match timeout(Duration::from_secs(3), connecting).await {
                    Err(_) => {
                        out[i] = "accept=timeout".into();
                        fails.push(("C16:stranded-future".into(), format!("kind=connecting endpoint={kind} closed={closed_ep}: accepted connection neither established nor failed within 3000 ms")));
                    }
                    Ok(Err(e)) => out[i] = format!("accept=err:{}", conn_err(&e)),
                    Ok(Ok(conn)) => {
                        // a future on the accepted connection: `Endpoint::close` (before or after) must end it
                        let seen = Rc::new(Cell::new(false));
                        let result: Rc<RefCell<Option<String>>> = Rc::new(RefCell::new(None));
                        let (seen2, result2, notify2, grave2) = (seen.clone(), result.clone(), notify.clone(), grave.clone());
                        let conn2 = conn.clone();
                        let handle = compio_runtime::spawn(async move {
                            let res = match probe(conn2.accept_bi(), &seen2, &notify2).await {
                                Ok(x) => {
                                    grave2.borrow_mut().push(Box::new(x));
                                    "ok:stream".to_string()
                                }
                                Err(e) => format!("err:{}", conn_err(&e)),
                            };
                            drop(conn2);
                            *result2.borrow_mut() = Some(res);
                            notify2.notify();
                        });
                        grave.borrow_mut().push(Box::new(conn));
                        let mut p = EPend { line: i, result, handle: Some(handle), reported: false };
                        if closed_ep {
                            // born on a closed endpoint: it must already be (or at once become) closed
                            let r2 = p.result.clone();
                            notify.wait_until(|| r2.borrow().is_some(), CLOSE_WATCHDOG).await;
                            p.reported = true;
                            match p.result.borrow().clone() {
                                Some(r) => out[i] = format!("accept=ok conn={r}"),
                                None => {
                                    out[i] = "accept=ok conn=stranded".into();
                                    fails.push((
                                        "C16:stranded-future".into(),
                                        format!(
                                            "kind=accept_bi endpoint={kind} after=close:endpoint: connection accepted after Endpoint::close is alive, its accept_bi() still pending after {} ms",
                                            CLOSE_WATCHDOG.as_millis()
                                        ),
                                    ));
                                }
                            }
                        } else {
                            let (s2, r2) = (seen.clone(), p.result.clone());
                            notify.wait_until(|| s2.get() || r2.borrow().is_some(), Duration::from_millis(700)).await;
                            out[i] = "accept=ok".into();
                        }
                        pends.push(p);
                    }
                }
            }
            Some("close") => {
                let Some(ep) = &server else {
                    out[i] = "bad-op".into();
                    continue;
                };
                ep.close(3u32.into(), b"bye");
                closed_ep = true;
                {
                    let pr = &pends;
                    notify.wait_until(|| pr.iter().all(|p| p.result.borrow().is_some()), CLOSE_WATCHDOG).await;
                }
                sleep(Duration::from_millis(3)).await;
                let mut closed = vec![];
                let mut stranded = vec![];
                for p in pends.iter_mut() {
                    if p.reported {
                        continue;
                    }
                    match p.result.borrow().clone() {
                        Some(r) => {
                            closed.push(format!("{}:{r}", p.line));
                            p.reported = true;
                        }
                        None => {
                            stranded.push(p.line.to_string());
                            fails.push((
                                "C16:stranded-future".into(),
                                format!(
                                    "kind=wait_incoming endpoint={kind} after=close:endpoint: still pending {} ms after Endpoint::close",
                                    CLOSE_WATCHDOG.as_millis()
                                ),
                            ));
                        }
                    }
                }
                out[i] = format!("closed=[{}] stranded=[{}]", closed.join(","), stranded.join(","));
            }
            Some("shutdown") => {
                let Some(ep) = server.take() else {
                    out[i] = "bad-op".into();
                    continue;
                };
                // `shutdown` waits for every clone of the endpoint and every connection to be dropped
                held.clear();
                grave.borrow_mut().clear();
                for inc in taken.drain(..) {
                    inc.ignore();
                }
                let ms = std::env::var("C16_SHUTDOWN_MS").ok().and_then(|x| x.parse().ok()).unwrap_or(3000u64);
                let t0 = std::time::Instant::now();
                let res = timeout(Duration::from_millis(ms), ep.shutdown()).await;
                if std::env::var("C16_TIMING").is_ok() {
                    eprintln!("shutdown took {:.0} ms", t0.elapsed().as_secs_f64() * 1e3);
                }
                match res {
                    Ok(_) => out[i] = "ok".into(),
                    Err(_) => {
                        out[i] = "timeout".into();
                        if !pends.iter().any(|p| p.result.borrow().is_none()) {
                            fails.push((
                                "C16:stranded-future".into(),
                                format!("kind=shutdown endpoint={kind}: Endpoint::shutdown still pending after 3000 ms"),
                            ));
                        }
                    }
                }
            }
            _ => out[i] = "bad-op".into(),
        }
    }
    for p in pends.iter_mut() {
        p.handle.take();
    }
    held.clear();
    grave.borrow_mut().clear();
    for inc in taken.drain(..) {
        inc.ignore();
    }
    if let Some(ep) = server.take() {
        others.push(ep);
    }
    retire(others);
    for (sig, d) in fails {
        ex.fail(sig, d);
    }
    out
}

// ------------------------------------------------------------------------------------------- generator

/// a prefix read through another API: (api, parameter, about how many bytes)
fn gen_prefix(rng: &mut Rng, len: usize, main: &str) -> String {
    if len < 2 || !rng.chance(2, 5) {
        return "none".into();
    }
    let n = match rng.below(4) {
        0 => 1,
        1 => rng.range(1, (len as u64).min(64)),
        2 => rng.range(1, (len as u64).min(3000)),
        _ => (len as u64).min(3000), // possibly the whole stream
    };
    let api = if main == "end" {
        *rng.pick(&["read", "chunk", "chunks", "uchunk"])
    } else {
        *rng.pick(&["read", "chunk", "chunks"])
    };
    let q = match api {
        "chunks" => rng.range(1, 4),
        _ => (*rng.pick(&[1u64, 7, 100, 1200, 5000])).max(n / 40 + 1),
    };
    format!("{api}:{q}:{n}")
}

fn gen_stream_params(rng: &mut Rng, big: bool) -> (usize, String, String, usize) {
    let len = match rng.below(10) {
        0 => 0,
        1 => rng.range(1, 16) as usize,
        2..=5 => rng.range(17, 3000) as usize,
        6..=8 => rng.range(3000, 40_000) as usize,
        _ => {
            if big {
                rng.range(40_000, 600_000) as usize
            } else {
                rng.range(40_000, 120_000) as usize
            }
        }
    };
    // keep (number of calls) x (length) small enough for the list-based Lean model
    let min_chunk = (len / 400).max(1);
    let chunk = |rng: &mut Rng| -> usize {
        let c = match rng.below(6) {
            0 => rng.range(1, 8),
            1 => rng.range(9, 200),
            2 => rng.range(200, 1500),
            3 => *rng.pick(&[1200u64, 1201, 1452, 4096, 8192, 16384]),
            4 => rng.range(1500, 20_000),
            _ => rng.range(20_000, 100_000),
        } as usize;
        c.max(min_chunk)
    };
    let w = match rng.below(7) {
        0 => format!("write:{}", chunk(rng)),
        1 => format!("all:{}", chunk(rng)),
        2 => format!("chunks:{}:{}", chunk(rng), rng.range(1, 9)),
        3 => format!("wchunks:{}:{}", chunk(rng), rng.range(1, 9)),
        4 => format!("cwrite:{}", chunk(rng)),
        5 => format!("call:{}", chunk(rng)),
        _ => format!("fall:{}", chunk(rng)),
    };
    let unbounded_ok = !w.starts_with("call");
    let r = match rng.below(12) {
        0..=2 => format!("read:{}", chunk(rng)),
        3 | 4 => format!("chunk:{}", chunk(rng)),
        5 => format!("chunks:{}", rng.range(1, 33)),
        6 => format!("cread:{}", chunk(rng)),
        7 => format!("fread:{}", chunk(rng)),
        8 => format!("cexact:{}", chunk(rng)),
        // (a reader that only returns at end of stream cannot notice a stream that never ends)
        9 if unbounded_ok => "fend".to_string(),
        _ if unbounded_ok => "end".to_string(),
        _ => format!("cread:{}", chunk(rng)),
    };
    let slow = if rng.chance(1, 4) { rng.range(1, 4) as usize * (len / 4000 + 1) } else { 0 };
    (len, w, r, slow)
}

/// a slow reader sleeps 1 ms every `slow` reads: at most ~12 sleeps per stream
fn bound_slow(slow: usize, len: usize, r: &str) -> usize {
    if slow == 0 {
        return 0;
    }
    if r == "fend" || r == "end" {
        return 0;
    }
    let per_read = r.split(':').nth(1).and_then(|x| x.parse::<usize>().ok()).unwrap_or(1000);
    let per_read = if r.starts_with("chunks") { per_read * 1000 } else { per_read };
    slow.max(len / per_read.max(1) / 12)
}

fn gen_transfer(rng: &mut Rng, idx: usize, thorough: bool) -> Case {
    let mut lines = vec![];
    let nstreams = match rng.below(8) {
        0..=2 => 1,
        3..=5 => rng.range(2, 6),
        6 => rng.range(6, 16),
        _ => rng.range(16, 32),
    } as usize;
    let small_windows = rng.chance(1, 2);
    let srw = if small_windows { *rng.pick(&[1u64, 17, 100, 1024, 4096, 65_536]) } else { 1_250_000 };
    let rw = if small_windows && rng.chance(1, 2) { *rng.pick(&[64u64, 2048, 16_384, 100_000]) } else { 10_000_000 };
    let sw = if rng.chance(1, 4) { *rng.pick(&[5_000u64, 20_000, 100_000]) } else { 10_000_000 };
    let uni = if rng.chance(1, 2) { rng.range(1, 4) } else { 100 };
    let bi = if rng.chance(1, 2) { rng.range(1, 4) } else { 100 };
    lines.push(format!("T conn srw={srw} rw={rw} sw={sw} uni={uni} bi={bi}"));
    // tiny windows make every byte a round trip: keep those payloads short
    // (an unacknowledged-data window is only released by delayed ACKs: ~25 ms per window)
    let cap = (srw.min(rw) as usize * 100).min(if sw < 50_000 { (sw as usize * 4).min(30_000) } else { usize::MAX });
    let mut budget: usize = if thorough { 500_000 } else { 150_000 };
    for _ in 0..nstreams {
        let dir = if rng.chance(1, 2) { "c2s" } else { "s2c" };
        let (mut len, w, r, mut slow) = gen_stream_params(rng, thorough && nstreams <= 4);
        len = len.min(cap).min(budget);
        slow = bound_slow(slow, len, &r);
        budget -= len;
        let seed = rng.below(1 << 30);
        if rng.chance(1, 3) {
            let (mut elen, ew, er, mut eslow) = gen_stream_params(rng, false);
            elen = elen.min(cap).min(budget);
            eslow = bound_slow(eslow, elen, &er);
            budget -= elen;
            let eseed = rng.below(1 << 30);
            let (pre, epre) = (gen_prefix(rng, len, &r), gen_prefix(rng, elen, &er));
            lines.push(format!(
                "T bi {dir} len={len} seed={seed} w={w} r={r} pre={pre} slow={slow} elen={elen} eseed={eseed} ew={ew} er={er} epre={epre} eslow={eslow}"
            ));
        } else {
            let pre = gen_prefix(rng, len, &r);
            lines.push(format!("T uni {dir} len={len} seed={seed} w={w} r={r} pre={pre} slow={slow}"));
        }
    }
    if rng.chance(1, 3) {
        for _ in 0..rng.range(1, 3) {
            let dir = if rng.chance(1, 2) { "c2s" } else { "s2c" };
            lines.push(format!(
                "T dgram {dir} count={} size={} seed={} wait={}",
                rng.range(1, 40),
                rng.range(8, 1100),
                rng.below(1 << 30),
                rng.below(2)
            ));
        }
    }
    lines.push("T end".into());
    Case { name: format!("t{idx}"), lines }
}

fn gen_close(rng: &mut Rng, idx: usize) -> Case {
    // streams: k, opener side, kind
    let nstreams = rng.below(5) as usize;
    let mut streams = vec![];
    for k in 0..nstreams {
        streams.push((k, rng.below(2) as usize, if rng.chance(2, 3) { "bi" } else { "uni" }));
    }
    let count = |side: usize, kind: &str| streams.iter().filter(|s| s.1 == side && s.2 == kind).count() as u64;
    // for each (opener side, kind): either the limit is exhausted (open_* futures can be made pending) or there
    // is slack (the `open` action works)
    let mut slack = [[false; 2]; 2];
    for s in 0..2 {
        for k in 0..2 {
            slack[s][k] = rng.chance(1, 2);
        }
    }
    let lim = |side: usize, kind: &str, ki: usize| count(side, kind) + if slack[side][ki] { 8 } else { 0 };
    let mut lines = vec![String::new()];
    let conn_line = |srw: u64| {
        format!(
            "C conn cbi={} cuni={} sbi={} suni={} srw={srw}",
            lim(0, "bi", 0),
            lim(0, "uni", 1),
            lim(1, "bi", 0),
            lim(1, "uni", 1)
        )
    };
    let sd = ["c", "s"];
    for (k, side, kind) in &streams {
        lines.push(format!("C stream {k} {} {kind}", sd[*side]));
    }
    // halves: (stream, side, is_send)
    let mut free_send: HashSet<(usize, usize)> = HashSet::new();
    let mut free_recv: HashSet<(usize, usize)> = HashSet::new();
    for (k, side, kind) in &streams {
        free_send.insert((*k, *side));
        free_recv.insert((*k, 1 - *side));
        if *kind == "bi" {
            free_send.insert((*k, 1 - *side));
            free_recv.insert((*k, *side));
        }
    }
    let close_side = rng.below(2) as usize;
    let close_how = if rng.chance(1, 2) { "conn" } else { "endpoint" };
    let npend = rng.range(1, 10);
    let mut has_closed = [false; 2];
    let mut no_read: HashSet<(usize, usize)> = HashSet::new();
    // pending futures by (side, kind, stream)
    let mut pend: Vec<(usize, String, Option<usize>)> = vec![];
    for _ in 0..npend {
        let side = rng.below(2) as usize;
        let kind = *rng.pick(&[
            "read", "read", "write", "stopped", "reset", "open_uni", "open_bi", "accept_uni", "accept_bi", "recv_dgram",
            "recv_dgram", "closed", "connecting", "handshake_data", "incoming",
        ]);
        match kind {
            "read" | "reset" => {
                let mut c: Vec<_> = free_recv.iter().filter(|h| h.1 == side && !no_read.contains(h)).copied().collect();
                c.sort();
                if c.is_empty() {
                    continue;
                }
                let h = *rng.pick(&c);
                free_recv.remove(&h);
                pend.push((side, kind.into(), Some(h.0)));
            }
            "write" | "stopped" => {
                let mut c: Vec<_> = free_send.iter().filter(|h| h.1 == side).copied().collect();
                c.sort();
                if c.is_empty() {
                    continue;
                }
                let h = *rng.pick(&c);
                // a writer only blocks while the peer does not read: the peer's receive half must not have a
                // pending read (it would complete with the written data)
                if kind == "write" {
                    if !free_recv.contains(&(h.0, 1 - side)) {
                        continue;
                    }
                    no_read.insert((h.0, 1 - side));
                }
                free_send.remove(&h);
                pend.push((side, kind.into(), Some(h.0)));
            }
            "open_uni" | "open_bi" => {
                let ki = if kind == "open_bi" { 0 } else { 1 };
                if slack[side][ki] {
                    continue;
                }
                pend.push((side, kind.into(), None));
            }
            "closed" => {
                // (waits for the connection to drain, ~100 ms: keep it rare)
                if has_closed[side] || !rng.chance(1, 3) {
                    continue;
                }
                has_closed[side] = true;
                pend.push((side, kind.into(), None));
            }
            "connecting" | "handshake_data" => {
                if !(close_how == "endpoint" && side == close_side) {
                    continue;
                }
                pend.push((side, kind.into(), None));
            }
            "incoming" => {
                if !(close_how == "endpoint" && side == 1 && close_side == 1) {
                    continue;
                }
                pend.push((side, kind.into(), None));
            }
            _ => pend.push((side, kind.into(), None)),
        }
    }
    // Blocked writers leave (stream window) bytes each in the send path. quinn-proto subjects the packet that
    // carries CONNECTION_CLOSE to congestion control while stream data is pending and no longer processes ACKs once
    // closed: with more than the initial congestion window (~12 kB) outstanding the close frame is never sent and
    // the peer only notices by idle timeout / stateless reset (third-party behaviour, see notes/C16.md). Keep the
    // outstanding data of a side well below that.
    let writers = |side: usize| pend.iter().filter(|p| p.0 == side && p.1 == "write").count();
    let srw = if writers(0).max(writers(1)) <= 1 { *rng.pick(&[512u64, 2048, 8192]) } else { *rng.pick(&[512u64, 2048]) };
    if writers(0).max(writers(1)) > 3 {
        let mut seen = [0usize; 2];
        pend.retain(|p| {
            if p.1 == "write" {
                seen[p.0] += 1;
                seen[p.0] <= 3
            } else {
                true
            }
        });
    }
    lines[0] = conn_line(srw);
    for (side, kind, sid) in &pend {
        match sid {
            Some(k) => lines.push(format!("C pend {} {kind} {k}", sd[*side])),
            None => lines.push(format!("C pend {} {kind}", sd[*side])),
        }
    }
    // actions
    let nacts = rng.below(4);
    let mut live: Vec<(usize, String, Option<usize>)> = pend.clone();
    // closing a stream hands a stream credit back to its opener, which completes ONE of the opener's pending
    // `open_*_wait` futures at a moment that depends on acknowledgements: not generated (the `limit` action
    // exercises the same `Available` event deterministically)
    let streams2 = streams.clone();
    let frees_credit = move |k: usize, live: &Vec<(usize, String, Option<usize>)>| -> bool {
        let (_, opener, kind) = streams2[k];
        let op = format!("open_{kind}");
        live.iter().any(|p| p.0 == opener && p.1 == op)
    };
    for _ in 0..nacts {
        let side = rng.below(2) as usize;
        let peer = 1 - side;
        let what = *rng.pick(&["stop", "reset", "finish", "write", "drain", "dgram", "dgrams", "open", "limit", "drop", "drop"]);
        match what {
            "stop" | "drain" => {
                let mut c: Vec<_> = free_recv.iter().filter(|h| h.1 == side).copied().collect();
                c.sort();
                if c.is_empty() {
                    continue;
                }
                let h = *rng.pick(&c);
                if what == "drain" && !live.iter().any(|p| p.0 == peer && p.1 == "write" && p.2 == Some(h.0)) {
                    continue;
                }
                if what == "stop" && frees_credit(h.0, &live) {
                    continue;
                }
                if what == "stop" {
                    free_recv.remove(&h);
                    free_send.remove(&(h.0, peer));
                    live.retain(|p| !(p.0 == peer && (p.1 == "write" || p.1 == "stopped") && p.2 == Some(h.0)));
                } else {
                    live.retain(|p| !(p.0 == peer && p.1 == "write" && p.2 == Some(h.0)));
                }
                lines.push(format!("C act {} {what} {}", sd[side], h.0));
            }
            "reset" | "finish" | "write" => {
                let mut c: Vec<_> = free_send.iter().filter(|h| h.1 == side).copied().collect();
                c.sort();
                if c.is_empty() {
                    continue;
                }
                let h = *rng.pick(&c);
                let peer_reset_pending = live.iter().any(|p| p.0 == peer && p.1 == "reset" && p.2 == Some(h.0));
                if what == "finish" && peer_reset_pending {
                    continue;
                }
                if what != "write" && frees_credit(h.0, &live) {
                    continue;
                }
                if what != "write" {
                    free_send.remove(&h);
                    free_recv.remove(&(h.0, peer));
                }
                if what == "reset" {
                    live.retain(|p| !(p.0 == peer && (p.1 == "read" || p.1 == "reset") && p.2 == Some(h.0)));
                } else {
                    live.retain(|p| !(p.0 == peer && p.1 == "read" && p.2 == Some(h.0)));
                }
                lines.push(format!("C act {} {what} {}", sd[side], h.0));
            }
            "dgram" => {
                if let Some(pos) = live.iter().position(|p| p.0 == peer && p.1 == "recv_dgram") {
                    live.remove(pos);
                }
                lines.push(format!("C act {} dgram", sd[side]));
            }
            "dgrams" => {
                // a burst of as many datagrams as there are receivers parked (a surplus would stay buffered)
                let waiting = live.iter().filter(|p| p.0 == peer && p.1 == "recv_dgram").count();
                if waiting < 2 {
                    continue;
                }
                let cnt = rng.range(2, waiting as u64) as usize;
                for _ in 0..cnt {
                    let pos = live.iter().position(|p| p.0 == peer && p.1 == "recv_dgram").unwrap();
                    live.remove(pos);
                }
                lines.push(format!("C act {} dgrams {cnt}", sd[side]));
            }
            "drop" => {
                // one half of a stream dropped by its owner while the other half (possibly pending in another
                // task) lives on
                if rng.chance(1, 2) {
                    let mut c: Vec<_> = free_recv.iter().filter(|h| h.1 == side).copied().collect();
                    c.sort();
                    if c.is_empty() {
                        continue;
                    }
                    let h = *rng.pick(&c);
                    if frees_credit(h.0, &live) {
                        continue;
                    }
                    free_recv.remove(&h);
                    free_send.remove(&(h.0, peer));
                    live.retain(|p| !(p.0 == peer && (p.1 == "write" || p.1 == "stopped") && p.2 == Some(h.0)));
                    lines.push(format!("C act {} drop {} recv", sd[side], h.0));
                } else {
                    let mut c: Vec<_> = free_send.iter().filter(|h| h.1 == side).copied().collect();
                    c.sort();
                    if c.is_empty() {
                        continue;
                    }
                    let h = *rng.pick(&c);
                    if frees_credit(h.0, &live) || live.iter().any(|p| p.0 == peer && p.1 == "reset" && p.2 == Some(h.0)) {
                        continue;
                    }
                    free_send.remove(&h);
                    free_recv.remove(&(h.0, peer));
                    live.retain(|p| !(p.0 == peer && p.1 == "read" && p.2 == Some(h.0)));
                    lines.push(format!("C act {} drop {} send", sd[side], h.0));
                }
            }
            "open" => {
                let ki = rng.below(2) as usize;
                if !slack[side][ki] {
                    continue;
                }
                let kind = ["bi", "uni"][ki];
                let acc = format!("accept_{kind}");
                if let Some(pos) = live.iter().position(|p| p.0 == peer && p.1 == acc) {
                    live.remove(pos);
                } else {
                    // an un-accepted stream would complete a later accept at once: only open when someone waits
                    continue;
                }
                lines.push(format!("C act {} open {kind}", sd[side]));
            }
            _ => {
                let ki = rng.below(2) as usize;
                let kind = ["bi", "uni"][ki];
                let op = format!("open_{kind}");
                live.retain(|p| !(p.0 == peer && p.1 == op));
                lines.push(format!("C act {} limit {kind}", sd[side]));
            }
        }
    }
    lines.push(format!("C close {} {close_how}", sd[close_side]));
    Case { name: format!("c{idx}"), lines }
}

fn gen_endpoint(rng: &mut Rng, idx: usize, kind: &str) -> Case {
    let mut lines = vec![format!("E ep {kind}")];
    if rng.chance(2, 5) {
        // `Incoming`s handed out before the close and dealt with before / after it
        let ntake = rng.range(1, 3);
        for _ in 0..ntake {
            lines.push("E take".into());
        }
        for _ in 0..rng.below(3) {
            lines.push("E pend".into());
        }
        let mut left = ntake;
        if left > 1 && rng.chance(1, 2) {
            lines.push(format!("E {}", rng.pick(&["accept", "accept", "refuse", "ignore"])));
            left -= 1;
        }
        lines.push("E close".into());
        let mut late_accept = false;
        for _ in 0..left {
            let what = *rng.pick(&["accept", "accept", "accept", "refuse", "retry", "ignore"]);
            late_accept |= what == "accept";
            lines.push(format!("E {what}"));
        }
        // (a connection born closed never measured an RTT: it drains for 3 x the initial PTO, about 3 s, and
        // `shutdown` waits for that)
        if !late_accept && rng.chance(1, 2) {
            lines.push("E shutdown".into());
        }
        return Case { name: format!("e{idx}-{kind}-late"), lines };
    }
    for _ in 0..rng.range(1, 3) {
        lines.push("E pend".into());
    }
    if rng.chance(1, 3) {
        lines.push("E act connect".into());
        for _ in 0..rng.below(3) {
            lines.push("E pend".into());
        }
    }
    lines.push("E close".into());
    if rng.chance(1, 2) {
        lines.push("E shutdown".into());
    }
    Case { name: format!("e{idx}-{kind}"), lines }
}

fn dedicated() -> Vec<Case> {
    let c = |name: &str, lines: &[&str]| Case { name: name.into(), lines: lines.iter().map(|s| s.to_string()).collect() };
    vec![
        // one waiter on accepted_0rtt: woken by `Connected`
        c(
            "zero-rtt-one-waiter",
            &["C conn cbi=4 cuni=4 sbi=4 suni=4 zero=1", "C pend s accepted_0rtt", "C act c handshake", "C close s conn"],
        ),
        // F160: two tasks wait on the one-slot `on_connected`
        c(
            "f160-two-waiters",
            &[
                "C conn cbi=4 cuni=4 sbi=4 suni=4 zero=1",
                "C pend s accepted_0rtt",
                "C pend s accepted_0rtt",
                "C act c handshake",
                "C close s conn",
            ],
        ),
        // F161: a dropped `closed()` future cancels the connection worker
        c(
            "f161-cancelled-closed",
            &[
                "C conn cbi=4 cuni=4 sbi=4 suni=4",
                "C stream 0 c bi",
                "C pend c read 0",
                "C pend c recv_dgram",
                "C act c cancelclosed",
                "C close c endpoint",
            ],
        ),
        // F162: a second `closed()` while the first one waits
        c(
            "f162-closed-twice",
            &["C conn cbi=4 cuni=4 sbi=4 suni=4", "C pend c closed", "C pend c closed", "C close s conn"],
        ),
        // `Endpoint::close` must itself release the `wait_incoming()` waiters: an endpoint without a live connection
        // gets no datagram and no endpoint event afterwards, so its worker loop never iterates again
        c("ep-zero-connections", &["E ep zero", "E pend", "E pend", "E pend", "E close", "E shutdown"]),
        c("ep-drained-connection", &["E ep drained", "E pend", "E pend", "E close", "E shutdown"]),
        c("ep-live-connection", &["E ep live", "E pend", "E act connect", "E pend", "E pend", "E close", "E shutdown"]),
        // the read APIs share one read position: a prefix through one API, the rest through `read_to_end` (which
        // reassembles from absolute offsets) or another API
        c(
            "mixed-read-apis",
            &[
                "T conn srw=1250000 rw=10000000 sw=10000000 uni=100 bi=100",
                "T uni c2s len=5000 seed=11 w=all:1000 r=end pre=read:100:300 slow=0",
                "T uni c2s len=5000 seed=12 w=all:700 r=end pre=chunk:64:1 slow=0",
                "T uni s2c len=9000 seed=13 w=chunks:500:3 r=end pre=chunks:2:2000 slow=0",
                "T uni s2c len=4000 seed=14 w=write:300 r=end pre=uchunk:50:777 slow=0",
                "T uni c2s len=3000 seed=15 w=all:1000 r=end pre=read:5000:3000 slow=0",
                "T bi c2s len=6000 seed=16 w=all:1000 r=chunk:100 pre=read:10:55 slow=0 elen=6000 eseed=17 ew=all:999 er=read:333 epre=chunks:1:1000 eslow=0",
                "T end",
            ],
        ),
        // the two halves of a bidirectional stream in different tasks: dropping one half must not touch the other
        // half's waker (same StreamId!)
        c(
            "bi-recv-half-dropped-then-close",
            &["C conn cbi=1 cuni=0 sbi=1 suni=0", "C stream 0 c bi", "C pend c stopped 0", "C act c drop 0 recv", "C close c conn"],
        ),
        c(
            "bi-recv-half-dropped-then-peer-stops",
            &[
                "C conn cbi=1 cuni=0 sbi=1 suni=0",
                "C stream 0 s bi",
                "C pend s stopped 0",
                "C pend s recv_dgram",
                "C act s drop 0 recv",
                "C act c stop 0",
                "C close s endpoint",
            ],
        ),
        c(
            "bi-send-half-dropped-reader-pending",
            &[
                "C conn cbi=1 cuni=0 sbi=1 suni=0 srw=512",
                "C stream 0 c bi",
                "C pend c read 0",
                "C pend c accept_bi",
                "C act c drop 0 send",
                "C act s write 0",
                "C close s conn",
            ],
        ),
        // k receivers in separate tasks, k datagrams in one burst: `DatagramReceived` is raised once
        c(
            "dgram-burst",
            &[
                "C conn cbi=0 cuni=0 sbi=0 suni=0",
                "C pend s recv_dgram",
                "C pend s recv_dgram",
                "C pend s recv_dgram",
                "C act c dgrams 3",
                "C close c conn",
            ],
        ),
        // an `Incoming` handed out BEFORE `Endpoint::close` and accepted / refused / retried / ignored AFTER it: the
        // connection is born closed
        c("ep-accept-after-close", &["E ep zero", "E take", "E pend", "E close", "E accept"]),
        c(
            "ep-accept-before-and-after-close",
            &["E ep live", "E take", "E take", "E pend", "E accept", "E close", "E accept"],
        ),
        c(
            "ep-late-refuse-retry-ignore",
            &["E ep zero", "E take", "E take", "E take", "E close", "E refuse", "E retry", "E ignore", "E shutdown"],
        ),
        // the io-compat wrappers with writes larger than the stream window (they block mid-buffer)
        c(
            "compat-wrappers-small-window",
            &[
                "T conn srw=1024 rw=10000000 sw=10000000 uni=100 bi=100",
                "T uni c2s len=20000 seed=21 w=call:20000 r=cread:700 pre=none slow=0",
                "T uni c2s len=9000 seed=22 w=call:3000 r=fread:512 pre=none slow=2",
                "T uni s2c len=12000 seed=23 w=fall:5000 r=cexact:1000 pre=none slow=0",
                "T uni s2c len=7000 seed=24 w=cwrite:7000 r=fend pre=read:10:100 slow=0",
                "T bi c2s len=15000 seed=25 w=call:15000 r=cread:4096 pre=none slow=0 elen=15000 eseed=26 ew=fall:15000 er=cexact:333 epre=none eslow=0",
                "T end",
            ],
        ),
        // blocked datagram senders at a synchronous close
        c("dgram-senders-at-close", &["C conn cbi=0 cuni=0 sbi=0 suni=0 dgsb=100", "C syncclose c 3"]),
        c("dgram-sender-at-close-server", &["C conn cbi=0 cuni=0 sbi=0 suni=0 dgsb=100", "C syncclose s 1"]),
        // `Stopped` must wake the `stopped` AND the `writable` waiter … of two different streams here
        c(
            "stop-wakes-both",
            &[
                "C conn cbi=2 cuni=0 sbi=0 suni=0 srw=512",
                "C stream 0 c bi",
                "C stream 1 c bi",
                "C pend c write 0",
                "C pend c stopped 1",
                "C act s stop 0",
                "C act s stop 1",
                "C close c conn",
            ],
        ),
    ]
}

fn generate(tier: &str, rng: &mut Rng) -> Vec<Case> {
    let thorough = tier == "thorough";
    let (nt, nc) = if thorough { (2000, 4000) } else { (160, 400) };
    let mut cases = dedicated();
    let (ne, nd) = if thorough { (400, 60) } else { (40, 3) };
    for i in 0..ne {
        let kind = if i < nd { "drained" } else if i % 4 == 3 { "live" } else { "zero" };
        cases.push(gen_endpoint(&mut rng.fork(), i, kind));
    }
    for i in 0..nt.max(nc) {
        if i < nt {
            cases.push(gen_transfer(&mut rng.fork(), i, thorough));
        }
        if i < nc {
            cases.push(gen_close(&mut rng.fork(), i));
        }
        if i < nc / 20 {
            let mut r = rng.fork();
            cases.push(Case {
                name: format!("d{i}"),
                lines: vec![
                    "C conn cbi=0 cuni=0 sbi=0 suni=0 dgsb=100".into(),
                    format!("C syncclose {} {}", if r.chance(1, 2) { "c" } else { "s" }, r.range(1, 6)),
                ],
            });
        }
    }
    cases
}

fn main() {
    let rt = compio_runtime::Runtime::new().expect("runtime");
    run_harness(
        generate,
        |case: &Case| {
            let mut ex = Exec::new();
            let t0 = std::time::Instant::now();
            let first = case.lines.first().map(|l| l.as_str()).unwrap_or("");
            let out = if first.starts_with("T ") {
                ex.tag("family:transfer");
                rt.block_on(run_transfer(&case.lines, &mut ex))
            } else if first.starts_with("C ") {
                ex.tag("family:close");
                rt.block_on(run_close_case(&case.lines, &mut ex))
            } else if first.starts_with("E ") {
                ex.tag("family:endpoint");
                rt.block_on(run_endpoint_case(&case.lines, &mut ex))
            } else {
                vec!["bad-op".into(); case.lines.len()]
            };
            if std::env::var("C16_TIMING").is_ok() {
                eprintln!("{:>8.1} ms {} {}", t0.elapsed().as_secs_f64() * 1e3, case.name, case.lines.len());
            }
            let mut kinds: BTreeMap<&str, usize> = BTreeMap::new();
            for l in &case.lines {
                let mut it = l.split_whitespace();
                it.next();
                if let Some(k) = it.next() {
                    *kinds.entry(k).or_insert(0) += 1;
                }
            }
            for (k, _) in kinds {
                ex.tag(format!("op:{k}"));
            }
            ex.nontrivial = case.lines.len() >= 3 && !out.iter().any(|o| o.starts_with("error") || o == "bad-op");
            ex.out = out;
            ex
        },
        "a case is non-trivial if it has at least one activity / pending future besides conn and end/close, and every line was executed on the real endpoints (no setup error)",
    );
}
