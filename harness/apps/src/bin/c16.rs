use std::{sync::Arc, time::Duration};

use compio_quic::{ClientBuilder, ClientConfig, Endpoint, ServerBuilder, ServerConfig, TransportConfig};
use compio_runtime::time::{sleep, timeout};

fn config_pair(transport: Option<TransportConfig>) -> (ServerConfig, ClientConfig) {
    let rcgen::CertifiedKey { cert, signing_key } =
        rcgen::generate_simple_self_signed(vec!["localhost".into()]).unwrap();
    let cert = cert.der().clone();
    let key_der = signing_key.serialize_der().try_into().unwrap();
    let mut server_config = ServerBuilder::new_with_single_cert(vec![cert.clone()], key_der)
        .unwrap()
        .build();
    let mut client_config = ClientBuilder::new_with_empty_roots()
        .with_custom_certificate(cert)
        .unwrap()
        .with_no_crls()
        .build();
    if let Some(transport) = transport {
        let transport = Arc::new(transport);
        server_config.transport_config(transport.clone());
        client_config.transport_config(transport);
    }
    (server_config, client_config)
}

fn main() {
    let rt = compio_runtime::Runtime::new().unwrap();
    rt.block_on(async {
        let (sc, cc) = config_pair(None);
        let server = Endpoint::server("127.0.0.1:0", sc).await.unwrap();
        let client = Endpoint::client("127.0.0.1:0").await.unwrap();
        let addr = server.local_addr().unwrap();
        // probe 1: two tasks on accepted_0rtt (server side, 0.5-RTT connection)
        let connecting = client.connect(addr, "localhost", Some(cc.clone())).unwrap();
        let inc = server.wait_incoming().await.unwrap();
        let sconn = inc.accept().unwrap().into_0rtt().ok().unwrap();
        let a = {
            let c = sconn.clone();
            compio_runtime::spawn(async move { c.accepted_0rtt().await.is_ok() })
        };
        let b = {
            let c = sconn.clone();
            compio_runtime::spawn(async move { c.accepted_0rtt().await.is_ok() })
        };
        let cconn = connecting.await.unwrap();
        let ra = timeout(Duration::from_millis(500), a).await;
        let rb = timeout(Duration::from_millis(500), b).await;
        println!("probe1 a={:?} b={:?}", ra.map(|r| r.ok()), rb.map(|r| r.ok()));

        // probe 2: closed() dropped -> worker cancelled?
        {
            if std::env::var("NOCLOSED").is_err() {
            let r = timeout(Duration::from_millis(50), cconn.closed()).await;
            println!("probe2 closed-timeout={:?}", r.is_err());
            }
            // now is the connection still alive?
            let mut s = cconn.open_uni().unwrap();
            use compio_io::AsyncWriteExt;
            s.write_all(b"hello".to_vec()).await.0.unwrap();
            s.finish().unwrap();
            let r = timeout(Duration::from_millis(1000), sconn.accept_uni()).await;
            println!("probe2 accept after cancelled closed(): {:?}", r.map(|r| r.is_ok()));
            if std::env::var("NOCLOSED").is_ok() {
                let c1 = cconn.clone();
                let t1 = compio_runtime::spawn(async move { let _ = c1.closed().await; });
                sleep(Duration::from_millis(20)).await;
                let c2 = cconn.clone();
                let t2 = compio_runtime::spawn(async move { let _ = c2.closed().await; });
                sleep(Duration::from_millis(20)).await;
                let r2 = timeout(Duration::from_millis(100), t2).await;
                println!("probe3 second closed(): {:?}", r2.map(|r| r.is_err()));
                drop(t1);
            }
        }
        sleep(Duration::from_millis(10)).await;
    });
}
