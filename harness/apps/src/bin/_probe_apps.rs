fn main() {}
