fn main() {}
