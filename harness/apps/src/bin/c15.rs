//! C15 correspondence harness: the REAL compio-tls (native-tls/openssl and rustls back-ends, client and
//! server role in one process) and the REAL compio-ws, over harness-built transports that play a generated
//! schedule. See lean/Drivers/C15.lean for the line protocol and notes/C15.md.
//!
//! TLS cases
//!
//!     tls be=<ossl|rustls|ossl-rustls|rustls-ossl> tr=<direct|astream> lim=<n> buf=<0|1> dr=<n> dw=<n> dfh=<n> df=<n>
//!         (`be=x` : both roles on back-end x;  `be=c-s` : client on back-end c, server on back-end s. A native-tls
//!         acceptor negotiates at most TLS 1.2, a rustls acceptor TLS 1.3: `ossl-rustls` is the pairing in which the
//!         native-tls *client* writes the last handshake message.)
//!     xfer <c2s|s2c> <len> <seed>
//!     close <c|s>
//!
//! * `tr=direct`  : an in-memory duplex implementing the futures-io traits (what compio-tls is generic over);
//!   `buf=1` makes it *buffering*: written bytes sit in the endpoint until `poll_flush`/`poll_close`.
//! * `tr=astream` : an in-memory duplex implementing compio-io's `AsyncRead`/`AsyncWrite`, wrapped in the
//!   real `compio_io::compat::AsyncStream` (always buffering: `SyncStream` write buffer).
//! * `lim`  per-call transfer limit; `dr`/`dw`/`df` = number of consecutive `Pending`s (each with a wake-up
//!   arranged) a read / write / flush(+close) call returns before it is performed (the counter restarts when the
//!   call is performed) - finitely many consecutive Pendings, i.e. a fair schedule whose effect does not depend
//!   on how many transport calls the third-party engine happens to make; `dfh` is the flush delay in force until
//!   the endpoint's own handshake future has resolved, `df` afterwards. For `tr=astream` the inner stream's
//!   `flush()` is never delayed (a delayed inner flush is finding F15 of property C12, `AsyncStream` stale flush
//!   future), `dw` delays the inner writes of the `AsyncStream` flush future instead.
//!
//! WebSocket cases (compio-ws is sealed to `PollFd` transports, so these run on a compio runtime over a
//! socketpair pair with a harness relay in the middle that plays the schedule)
//!
//!     ws tls=<none|ossl|rustls> lim=<n> gap=<n>
//!     msg <c2s|s2c> <text|bin|ping> <len> <seed>
//!     wsclose <c|s>
//!
//! Output lines are canonical outcomes only (never ciphertext, never poll counts).
//! Monitors (implementation-only): `C15:stuck` (nobody runnable, not finished), `C15:spin` (poll budget
//! exceeded), `C15:data-mismatch`, `C15:error` (unexpected io error), `C15:close`. A stuck run in which the TLS
//! layer left a transport flush `Pending` with accepted bytes that never reached the peer is reported under
//! the finding signatures `F150:close-notify-stranded` (native-tls back-end, close) and
//! `F151:handshake-flush-dropped` (rustls back-end, handshake).

use std::{
    cell::RefCell,
    collections::VecDeque,
    future::Future,
    io,
    pin::Pin,
    rc::Rc,
    sync::{
        Arc,
        atomic::{AtomicBool, AtomicU64, Ordering},
    },
    task::{Context, Poll, Wake, Waker},
};

use compio_buf::{BufResult, IoBuf, IoBufMut, SetLenExt};
use compio_io::compat::AsyncStream;
use compio_tls::{TlsAcceptor, TlsConnector, TlsStream};
use futures_util::{AsyncRead, AsyncReadExt, AsyncWrite, AsyncWriteExt};
use hx_common::*;

#[path = "c15/ws.rs"]
mod ws;

// ---------------------------------------------------------------------------------------------
// schedule

#[derive(Clone, Debug)]
struct Sched {
    lim: usize,
    buffering: bool,
    dr: u32,
    dw: u32,
    dfh: u32,
    df: u32,
}

#[derive(Default, Debug)]
struct Stats {
    calls: u64,
    pend_sched: u64,
    pend_real: u64,
    /// a read found the pipe empty while this endpoint held unflushed bytes
    blocked_read_unflushed: u64,
    flushes: u64,
    closes: u64,
}

/// one direction of the duplex
#[derive(Default)]
struct Pipe {
    q: VecDeque<u8>,
    closed: bool,
    rwaker: Option<Waker>,
    moved: u64,
}

type PipeRef = Rc<RefCell<Pipe>>;

/// The transport core shared by the futures-io flavour and the compio-io flavour.
struct Core {
    tx: PipeRef,
    rx: PipeRef,
    wbuf: Vec<u8>,
    s: Sched,
    /// consecutive Pendings returned so far by the current read / write / flush call
    cr: u32,
    cw: u32,
    cf: u32,
    /// set by the endpoint task when its handshake future has resolved (switches `dfh` to `df`)
    hs_done: Rc<std::cell::Cell<bool>>,
    st: Rc<RefCell<Stats>>,
}

fn self_wake(cx: &mut Context<'_>) {
    cx.waker().wake_by_ref();
}

impl Core {
    fn delayed(c: &mut u32, d: u32, st: &Rc<RefCell<Stats>>, cx: &mut Context<'_>) -> bool {
        st.borrow_mut().calls += 1;
        if *c < d {
            *c += 1;
            st.borrow_mut().pend_sched += 1;
            self_wake(cx);
            true
        } else {
            *c = 0;
            false
        }
    }

    fn flush_delay(&self) -> u32 {
        if self.hs_done.get() { self.s.df } else { self.s.dfh }
    }

    fn poll_read(&mut self, cx: &mut Context<'_>, buf: &mut [u8]) -> Poll<io::Result<usize>> {
        if Self::delayed(&mut self.cr, self.s.dr, &self.st, cx) {
            return Poll::Pending;
        }
        let mut rx = self.rx.borrow_mut();
        if rx.q.is_empty() {
            if rx.closed || buf.is_empty() {
                return Poll::Ready(Ok(0));
            }
            rx.rwaker = Some(cx.waker().clone());
            let mut st = self.st.borrow_mut();
            st.pend_real += 1;
            if !self.wbuf.is_empty() {
                st.blocked_read_unflushed += 1;
            }
            return Poll::Pending;
        }
        let n = self.s.lim.min(buf.len()).min(rx.q.len());
        for b in buf.iter_mut().take(n) {
            *b = rx.q.pop_front().unwrap();
        }
        Poll::Ready(Ok(n))
    }

    /// move `data` into the peer's pipe
    fn push(tx: &mut Pipe, data: &[u8]) {
        tx.q.extend(data);
        tx.moved += data.len() as u64;
        if !data.is_empty()
            && let Some(w) = tx.rwaker.take()
        {
            w.wake();
        }
    }

    fn poll_write(&mut self, cx: &mut Context<'_>, buf: &[u8]) -> Poll<io::Result<usize>> {
        if Self::delayed(&mut self.cw, self.s.dw, &self.st, cx) {
            return Poll::Pending;
        }
        if buf.is_empty() {
            return Poll::Ready(Ok(0));
        }
        let mut tx = self.tx.borrow_mut();
        if tx.closed {
            return Poll::Ready(Err(io::ErrorKind::BrokenPipe.into()));
        }
        let n = self.s.lim.min(buf.len());
        if self.s.buffering {
            self.wbuf.extend_from_slice(&buf[..n]);
        } else {
            Self::push(&mut tx, &buf[..n]);
        }
        Poll::Ready(Ok(n))
    }

    fn poll_flush(&mut self, cx: &mut Context<'_>) -> Poll<io::Result<()>> {
        self.st.borrow_mut().flushes += 1;
        let d = self.flush_delay();
        if Self::delayed(&mut self.cf, d, &self.st, cx) {
            return Poll::Pending;
        }
        self.drain();
        Poll::Ready(Ok(()))
    }

    fn drain(&mut self) {
        if !self.wbuf.is_empty() {
            let mut tx = self.tx.borrow_mut();
            Self::push(&mut tx, &self.wbuf);
            self.wbuf.clear();
        }
    }

    fn poll_close(&mut self, cx: &mut Context<'_>) -> Poll<io::Result<()>> {
        self.st.borrow_mut().closes += 1;
        let d = self.flush_delay();
        if Self::delayed(&mut self.cf, d, &self.st, cx) {
            return Poll::Pending;
        }
        self.drain();
        let mut tx = self.tx.borrow_mut();
        tx.closed = true;
        if let Some(w) = tx.rwaker.take() {
            w.wake();
        }
        Poll::Ready(Ok(()))
    }
}

/// futures-io flavour
struct Direct(Core);

impl AsyncRead for Direct {
    fn poll_read(mut self: Pin<&mut Self>, cx: &mut Context<'_>, buf: &mut [u8]) -> Poll<io::Result<usize>> {
        self.0.poll_read(cx, buf)
    }
}

impl AsyncWrite for Direct {
    fn poll_write(mut self: Pin<&mut Self>, cx: &mut Context<'_>, buf: &[u8]) -> Poll<io::Result<usize>> {
        self.0.poll_write(cx, buf)
    }

    fn poll_flush(mut self: Pin<&mut Self>, cx: &mut Context<'_>) -> Poll<io::Result<()>> {
        self.0.poll_flush(cx)
    }

    fn poll_close(mut self: Pin<&mut Self>, cx: &mut Context<'_>) -> Poll<io::Result<()>> {
        self.0.poll_close(cx)
    }
}

/// compio-io flavour: the two halves share the core
struct CRead(Rc<RefCell<Core>>);
struct CWrite(Rc<RefCell<Core>>);

impl compio_io::AsyncRead for CRead {
    async fn read<B: IoBufMut>(&mut self, mut buf: B) -> BufResult<usize, B> {
        let core = self.0.clone();
        let cap = buf.as_uninit().len();
        let mut tmp = vec![0u8; cap];
        let res = std::future::poll_fn(|cx| core.borrow_mut().poll_read(cx, &mut tmp)).await;
        match res {
            Ok(n) => {
                for (d, s) in buf.as_uninit().iter_mut().zip(&tmp[..n]) {
                    d.write(*s);
                }
                unsafe { buf.advance_to(n) };
                BufResult(Ok(n), buf)
            }
            Err(e) => BufResult(Err(e), buf),
        }
    }
}

impl compio_io::AsyncWrite for CWrite {
    async fn write<T: IoBuf>(&mut self, buf: T) -> BufResult<usize, T> {
        let core = self.0.clone();
        let res = std::future::poll_fn(|cx| core.borrow_mut().poll_write(cx, buf.as_init())).await;
        BufResult(res, buf)
    }

    async fn flush(&mut self) -> io::Result<()> {
        let core = self.0.clone();
        std::future::poll_fn(|cx| core.borrow_mut().poll_flush(cx)).await
    }

    async fn shutdown(&mut self) -> io::Result<()> {
        let core = self.0.clone();
        std::future::poll_fn(|cx| core.borrow_mut().poll_close(cx)).await
    }
}

/// What the TLS layer did to its transport, seen from outside the transport: bytes the transport accepted
/// from it, and whether its latest `poll_flush` was left `Pending` (never retried to `Ready`).
#[derive(Default, Debug)]
struct TapStats {
    accepted: u64,
    flush_calls: u64,
    last_flush_pending: bool,
    close_calls: u64,
}

struct Tap<T> {
    inner: T,
    st: Rc<RefCell<TapStats>>,
}

impl<T: AsyncRead + Unpin> AsyncRead for Tap<T> {
    fn poll_read(mut self: Pin<&mut Self>, cx: &mut Context<'_>, buf: &mut [u8]) -> Poll<io::Result<usize>> {
        Pin::new(&mut self.inner).poll_read(cx, buf)
    }
}

impl<T: AsyncWrite + Unpin> AsyncWrite for Tap<T> {
    fn poll_write(mut self: Pin<&mut Self>, cx: &mut Context<'_>, buf: &[u8]) -> Poll<io::Result<usize>> {
        let r = Pin::new(&mut self.inner).poll_write(cx, buf);
        if let Poll::Ready(Ok(n)) = &r {
            self.st.borrow_mut().accepted += *n as u64;
        }
        r
    }

    fn poll_flush(mut self: Pin<&mut Self>, cx: &mut Context<'_>) -> Poll<io::Result<()>> {
        let r = Pin::new(&mut self.inner).poll_flush(cx);
        let mut st = self.st.borrow_mut();
        st.flush_calls += 1;
        st.last_flush_pending = r.is_pending();
        r
    }

    fn poll_close(mut self: Pin<&mut Self>, cx: &mut Context<'_>) -> Poll<io::Result<()>> {
        let r = Pin::new(&mut self.inner).poll_close(cx);
        let mut st = self.st.borrow_mut();
        st.close_calls += 1;
        if r.is_ready() {
            st.last_flush_pending = false;
        }
        r
    }
}

type AStream = Pin<Box<AsyncStream<(CRead, CWrite)>>>;

type Done = Rc<std::cell::Cell<bool>>;

fn mk_cores(s: &Sched) -> (Core, Core, [Rc<RefCell<Stats>>; 2], [PipeRef; 2], [Done; 2]) {
    let a2b: PipeRef = Default::default();
    let b2a: PipeRef = Default::default();
    let sa: Rc<RefCell<Stats>> = Default::default();
    let sb: Rc<RefCell<Stats>> = Default::default();
    let (da, db): (Done, Done) = Default::default();
    let mk = |tx: &PipeRef, rx: &PipeRef, st: &Rc<RefCell<Stats>>, d: &Done| Core {
        tx: tx.clone(),
        rx: rx.clone(),
        wbuf: vec![],
        s: s.clone(),
        cr: 0,
        cw: 0,
        cf: 0,
        hs_done: d.clone(),
        st: st.clone(),
    };
    let a = mk(&a2b, &b2a, &sa, &da);
    let b = mk(&b2a, &a2b, &sb, &db);
    (a, b, [sa, sb], [a2b, b2a], [da, db])
}

// ---------------------------------------------------------------------------------------------
// manual executor: round-robin over tasks whose wake flag is set

struct TaskWake {
    flag: AtomicBool,
    wakes: AtomicU64,
}

impl Wake for TaskWake {
    fn wake(self: Arc<Self>) {
        self.wake_by_ref()
    }

    fn wake_by_ref(self: &Arc<Self>) {
        self.flag.store(true, Ordering::SeqCst);
        self.wakes.fetch_add(1, Ordering::SeqCst);
    }
}

#[derive(Debug, PartialEq, Clone, Copy)]
enum RunEnd {
    Done,
    Stuck,
    Spin,
}

struct RunReport {
    end: RunEnd,
    polls: Vec<u64>,
}

fn run_tasks(tasks: Vec<Pin<Box<dyn Future<Output = ()> + '_>>>, budget: u64) -> RunReport {
    let n = tasks.len();
    let mut tasks: Vec<Option<Pin<Box<dyn Future<Output = ()> + '_>>>> = tasks.into_iter().map(Some).collect();
    let wakes: Vec<Arc<TaskWake>> =
        (0..n).map(|_| Arc::new(TaskWake { flag: AtomicBool::new(true), wakes: AtomicU64::new(0) })).collect();
    let wakers: Vec<Waker> = wakes.iter().map(|w| Waker::from(w.clone())).collect();
    let mut polls = vec![0u64; n];
    let mut total = 0u64;
    loop {
        let mut progressed = false;
        for i in 0..n {
            if tasks[i].is_none() || !wakes[i].flag.swap(false, Ordering::SeqCst) {
                continue;
            }
            progressed = true;
            polls[i] += 1;
            total += 1;
            let mut cx = Context::from_waker(&wakers[i]);
            if tasks[i].as_mut().unwrap().as_mut().poll(&mut cx).is_ready() {
                tasks[i] = None;
            }
        }
        if tasks.iter().all(|t| t.is_none()) {
            return RunReport { end: RunEnd::Done, polls };
        }
        if !progressed {
            return RunReport { end: RunEnd::Stuck, polls };
        }
        if total > budget {
            return RunReport { end: RunEnd::Spin, polls };
        }
    }
}

// ---------------------------------------------------------------------------------------------
// TLS material (generated once per process; never part of an output line)

struct Material {
    ossl_acceptor: TlsAcceptor,
    ossl_connector: TlsConnector,
    rustls_acceptor: TlsAcceptor,
    rustls_connector: TlsConnector,
}

fn material() -> Material {
    use compio_tls::{native_tls, rustls};
    use rustls::pki_types::{PrivateKeyDer, pem::PemObject};
    let rcgen::CertifiedKey { cert, signing_key } = rcgen::generate_simple_self_signed(vec!["localhost".into()]).unwrap();
    let ossl_acceptor = TlsAcceptor::from(
        native_tls::TlsAcceptor::builder(
            native_tls::Identity::from_pkcs8(cert.pem().as_bytes(), signing_key.serialize_pem().as_bytes()).unwrap(),
        )
        .build()
        .unwrap(),
    );
    let ossl_connector = TlsConnector::from(
        native_tls::TlsConnector::builder()
            .add_root_certificate(native_tls::Certificate::from_pem(cert.pem().as_bytes()).unwrap())
            .build()
            .unwrap(),
    );
    let provider = Arc::new(rustls::crypto::ring::default_provider());
    let rustls_acceptor = TlsAcceptor::from(Arc::new(
        rustls::ServerConfig::builder_with_provider(provider.clone())
            .with_safe_default_protocol_versions()
            .unwrap()
            .with_no_client_auth()
            .with_single_cert(
                vec![cert.der().clone()],
                PrivateKeyDer::from_pem_slice(signing_key.serialize_pem().as_bytes()).unwrap(),
            )
            .unwrap(),
    ));
    let mut store = rustls::RootCertStore::empty();
    store.add(cert.der().clone()).unwrap();
    let rustls_connector = TlsConnector::from(Arc::new(
        rustls::ClientConfig::builder_with_provider(provider)
            .with_safe_default_protocol_versions()
            .unwrap()
            .with_root_certificates(store)
            .with_no_client_auth(),
    ));
    Material { ossl_acceptor, ossl_connector, rustls_acceptor, rustls_connector }
}

// ---------------------------------------------------------------------------------------------
// scripts

pub fn payload(len: usize, seed: u64) -> Vec<u8> {
    let mut r = Rng::new(seed ^ 0xC15);
    let mut v = Vec::with_capacity(len);
    while v.len() < len {
        let x = r.next().to_le_bytes();
        let k = (len - v.len()).min(8);
        v.extend_from_slice(&x[..k]);
    }
    v
}

#[derive(Clone, Debug)]
enum Step {
    /// (this side writes?, len, seed)
    Xfer(bool, usize, u64),
    /// this side initiates the close?
    Close(bool),
}

#[derive(Clone, Debug, PartialEq)]
enum StepRes {
    NotReached,
    Running(u64),
    Ok(u64),
    Mismatch(u64),
    Err(String),
}

fn kind(e: &io::Error) -> String {
    format!("{:?}", e.kind())
}

/// One endpoint's whole life: handshake, then its half of every step.
async fn endpoint<T, HF>(hs: HF, steps: Vec<Step>, res: Rc<RefCell<Vec<StepRes>>>, hs_done: Done)
where
    T: AsyncRead + AsyncWrite + Unpin,
    HF: Future<Output = io::Result<TlsStream<T>>>,
{
    res.borrow_mut()[0] = StepRes::Running(0);
    let r = hs.await;
    hs_done.set(true);
    let mut s = match r {
        Ok(s) => s,
        Err(e) => {
            res.borrow_mut()[0] = StepRes::Err(kind(&e));
            return;
        }
    };
    res.borrow_mut()[0] = StepRes::Ok(0);
    for (i, st) in steps.iter().enumerate() {
        let slot = i + 1;
        res.borrow_mut()[slot] = StepRes::Running(0);
        let r: io::Result<StepRes> = async {
            match *st {
                Step::Xfer(true, len, seed) => {
                    let data = payload(len, seed);
                    s.write_all(&data).await?;
                    s.flush().await?;
                    Ok(StepRes::Ok(len as u64))
                }
                Step::Xfer(false, len, seed) => {
                    let want = payload(len, seed);
                    let mut got = 0usize;
                    let mut buf = vec![0u8; 8192];
                    let mut bad = false;
                    while got < len {
                        let room = (len - got).min(buf.len());
                        let n = s.read(&mut buf[..room]).await?;
                        if n == 0 {
                            return Err(io::ErrorKind::UnexpectedEof.into());
                        }
                        if buf[..n] != want[got..got + n] {
                            bad = true;
                        }
                        got += n;
                        res.borrow_mut()[slot] = StepRes::Running(got as u64);
                    }
                    Ok(if bad { StepRes::Mismatch(got as u64) } else { StepRes::Ok(got as u64) })
                }
                Step::Close(true) => {
                    s.close().await?;
                    res.borrow_mut()[slot] = StepRes::Running(1);
                    let mut b = [0u8; 16];
                    let n = s.read(&mut b).await?;
                    Ok(if n == 0 { StepRes::Ok(0) } else { StepRes::Mismatch(n as u64) })
                }
                Step::Close(false) => {
                    let mut b = [0u8; 16];
                    let n = s.read(&mut b).await?;
                    if n != 0 {
                        return Ok(StepRes::Mismatch(n as u64));
                    }
                    res.borrow_mut()[slot] = StepRes::Running(1);
                    s.close().await?;
                    Ok(StepRes::Ok(0))
                }
            }
        }
        .await;
        match r {
            Ok(v) => res.borrow_mut()[slot] = v,
            Err(e) => {
                res.borrow_mut()[slot] = StepRes::Err(kind(&e));
                return;
            }
        }
    }
    // keep the stream alive until the task ends (dropping it is not part of the property)
    drop(s);
}

fn kv<'a>(toks: &'a [&'a str], k: &str) -> &'a str {
    toks.iter().find_map(|t| t.strip_prefix(k).and_then(|r| r.strip_prefix('='))).unwrap_or_else(|| panic!("missing {k}"))
}

struct TlsCase {
    be: String,
    tr: String,
    sched: Sched,
    steps: Vec<(String, Step, Step)>, // (line kind, client step, server step)
}

fn parse_tls(lines: &[String]) -> TlsCase {
    let t: Vec<&str> = lines[0].split_whitespace().collect();
    let tr = kv(&t, "tr");
    let astream = tr == "astream";
    let sched = Sched {
        lim: kv(&t, "lim").parse().unwrap(),
        // the core under an AsyncStream never buffers and never delays its flush (see the module doc)
        buffering: !astream && kv(&t, "buf") == "1",
        dr: kv(&t, "dr").parse().unwrap(),
        dw: kv(&t, "dw").parse().unwrap(),
        dfh: if astream { 0 } else { kv(&t, "dfh").parse().unwrap() },
        df: if astream { 0 } else { kv(&t, "df").parse().unwrap() },
    };
    assert!(sched.lim >= 1);
    let mut steps = vec![];
    for l in &lines[1..] {
        let w: Vec<&str> = l.split_whitespace().collect();
        match w[0] {
            "xfer" => {
                let c2s = w[1] == "c2s";
                let len: usize = w[2].parse().unwrap();
                let seed: u64 = w[3].parse().unwrap();
                steps.push(("xfer".to_string(), Step::Xfer(c2s, len, seed), Step::Xfer(!c2s, len, seed)));
            }
            "close" => {
                let c = w[1] == "c";
                steps.push(("close".to_string(), Step::Close(c), Step::Close(!c)));
            }
            other => panic!("bad tls line {other}"),
        }
    }
    TlsCase { be: kv(&t, "be").to_string(), tr: kv(&t, "tr").to_string(), sched, steps }
}

fn budget_for(c: &TlsCase) -> u64 {
    let total: u64 = c
        .steps
        .iter()
        .map(|s| if let Step::Xfer(_, n, _) = s.1 { n as u64 } else { 0 })
        .sum::<u64>()
        + 40_000; // handshake + close records, generously
    let d = (c.sched.dr + c.sched.dw + c.sched.dfh + c.sched.df) as u64;
    // every byte may need its own transport call (lim) and every call may be preceded by `d` Pendings;
    // TLS record overhead < 2x.  x8 slack.
    200_000 + 8 * 2 * (total / c.sched.lim as u64 + 1) * (d + 1)
}

fn exec_tls(m: &Material, case: &Case, ex: &mut Exec) {
    let c = parse_tls(&case.lines);
    let (bec, bes) = match c.be.split_once('-') {
        Some((a, b)) => (a.to_string(), b.to_string()),
        None => (c.be.clone(), c.be.clone()),
    };
    let conn = match bec.as_str() {
        "ossl" => m.ossl_connector.clone(),
        "rustls" => m.rustls_connector.clone(),
        o => panic!("backend {o}"),
    };
    let acc = match bes.as_str() {
        "ossl" => m.ossl_acceptor.clone(),
        "rustls" => m.rustls_acceptor.clone(),
        o => panic!("backend {o}"),
    };
    let bes_of = [bec.clone(), bes.clone()];
    let nsteps = c.steps.len();
    let rc: Rc<RefCell<Vec<StepRes>>> = Rc::new(RefCell::new(vec![StepRes::NotReached; nsteps + 1]));
    let rs: Rc<RefCell<Vec<StepRes>>> = Rc::new(RefCell::new(vec![StepRes::NotReached; nsteps + 1]));
    let csteps: Vec<Step> = c.steps.iter().map(|s| s.1.clone()).collect();
    let ssteps: Vec<Step> = c.steps.iter().map(|s| s.2.clone()).collect();
    let (a, b, stats, pipes, dones) = mk_cores(&c.sched);
    let budget = budget_for(&c);
    let taps: [Rc<RefCell<TapStats>>; 2] = Default::default();
    let rep = match c.tr.as_str() {
        "direct" => {
            let (ta, tb) = (Tap { inner: Direct(a), st: taps[0].clone() }, Tap { inner: Direct(b), st: taps[1].clone() });
            let t1: Pin<Box<dyn Future<Output = ()>>> =
                Box::pin(endpoint(async { conn.connect("localhost", ta).await }, csteps, rc.clone(), dones[0].clone()));
            let t2: Pin<Box<dyn Future<Output = ()>>> = Box::pin(endpoint(async { acc.accept(tb).await }, ssteps, rs.clone(), dones[1].clone()));
            run_tasks(vec![t1, t2], budget)
        }
        "astream" => {
            let mk = |core: Core| -> AStream {
                let core = Rc::new(RefCell::new(core));
                Box::pin(AsyncStream::new((CRead(core.clone()), CWrite(core))))
            };
            let (ta, tb) = (Tap { inner: mk(a), st: taps[0].clone() }, Tap { inner: mk(b), st: taps[1].clone() });
            let t1: Pin<Box<dyn Future<Output = ()>>> =
                Box::pin(endpoint(async { conn.connect("localhost", ta).await }, csteps, rc.clone(), dones[0].clone()));
            let t2: Pin<Box<dyn Future<Output = ()>>> = Box::pin(endpoint(async { acc.accept(tb).await }, ssteps, rs.clone(), dones[1].clone()));
            run_tasks(vec![t1, t2], budget)
        }
        o => panic!("transport {o}"),
    };
    let rc = rc.borrow().clone();
    let rs = rs.borrow().clone();
    let endword = match rep.end {
        RunEnd::Done => "done",
        RunEnd::Stuck => "stuck",
        RunEnd::Spin => "spin",
    };
    let detail = |what: &str| {
        format!(
            "{what} end={endword} case=[{}] client={:?} server={:?} polls={:?} calls={}/{} moved c2s={} s2c={} unflushed-blocked-reads={}/{} taps={:?}/{:?}",
            case.lines.join(" | "),
            rc,
            rs,
            rep.polls,
            stats[0].borrow().calls,
            stats[1].borrow().calls,
            pipes[0].borrow().moved,
            pipes[1].borrow().moved,
            stats[0].borrow().blocked_read_unflushed,
            stats[1].borrow().blocked_read_unflushed,
            taps[0].borrow(),
            taps[1].borrow(),
        )
    };
    // one output line per case line
    let mut first_bad: Option<String> = None;
    for i in 0..=nsteps {
        let (a, b) = (&rc[i], &rs[i]);
        let word = if i == 0 { "hs" } else { c.steps[i - 1].0.as_str() };
        let line = match (a, b) {
            (StepRes::Ok(x), StepRes::Ok(y)) => {
                if i == 0 {
                    "hs ok".to_string()
                } else if word == "xfer" {
                    if x != y {
                        ex.fail("C15:data-mismatch", detail(&format!("step {i}: written {x} read {y}")));
                    }
                    format!("xfer ok {}", x.max(y))
                } else {
                    "close ok".to_string()
                }
            }
            (StepRes::Mismatch(_), _) | (_, StepRes::Mismatch(_)) => {
                ex.fail(if word == "close" { "C15:close" } else { "C15:data-mismatch" }, detail(&format!("step {i}")));
                format!("{word} mismatch")
            }
            (StepRes::Err(e), _) | (_, StepRes::Err(e)) => {
                if first_bad.is_none() {
                    ex.fail("C15:error", detail(&format!("step {i}: {e}")));
                }
                format!("{word} err")
            }
            (StepRes::NotReached, StepRes::NotReached) if first_bad.is_some() => format!("{word} skip"),
            _ => {
                if first_bad.is_none() {
                    // bytes the TLS layer handed to its transport that never reached the peer, behind a flush the
                    // TLS layer left Pending: the layer abandoned a flush (implementation-only diagnosis)
                    let stranded = |e: usize| {
                        let t = taps[e].borrow();
                        t.last_flush_pending && t.accepted > pipes[e].borrow().moved
                    };
                    let sig = match rep.end {
                        RunEnd::Spin => "C15:spin",
                        _ if i == 0 && (0..2).any(|e| bes_of[e] == "rustls" && stranded(e)) => "F151:handshake-flush-dropped",
                        _ if word == "close" && (0..2).any(|e| bes_of[e] == "ossl" && stranded(e)) => {
                            "F150:close-notify-stranded"
                        }
                        _ => "C15:stuck",
                    };
                    ex.fail(sig, detail(&format!("step {i}")));
                }
                if rep.end == RunEnd::Spin { format!("{word} spin") } else { format!("{word} stuck") }
            }
        };
        if !line.ends_with(" ok") && !line.contains(" ok ") && first_bad.is_none() {
            first_bad = Some(line.clone());
        }
        ex.out.push(line);
    }
    ex.tag(format!("tls:{}:{}", c.be, c.tr));
    ex.tag(format!("lim:{}", c.sched.lim));
    if c.sched.buffering || c.tr == "astream" {
        ex.tag("buffering");
    }
    if stats[0].borrow().blocked_read_unflushed + stats[1].borrow().blocked_read_unflushed > 0 {
        ex.tag("read-blocked-with-unflushed");
    }
    if stats[0].borrow().pend_sched + stats[1].borrow().pend_sched > 0 {
        ex.tag("sched-pending");
    }
    if std::env::var_os("C15_PROBE").is_some() {
        eprintln!("{}", detail("probe"));
    }
    ex.nontrivial = rc[0] == StepRes::Ok(0) && nsteps > 0;
}

// ---------------------------------------------------------------------------------------------
// generator

fn gen_delay(r: &mut Rng) -> u64 {
    *r.pick(&[0u64, 0, 0, 1, 1, 2, 3])
}

fn gen_tls(r: &mut Rng, thorough: bool) -> Vec<String> {
    let be = *r.pick(&["ossl", "rustls", "ossl-rustls", "ossl-rustls", "rustls-ossl"]);
    let tr = *r.pick(&["direct", "direct", "astream"]);
    let lim = *r.pick(&[1usize, 7, 4096, 4096, 1 << 20]);
    let buf = if tr == "direct" { r.below(2) } else { 1 };
    let (dfh, df) = if tr == "direct" { (gen_delay(r), gen_delay(r)) } else { (0, 0) };
    let dr = gen_delay(r);
    let mut dw = gen_delay(r);
    if be.contains("rustls") && tr == "direct" && buf == 1 && dfh > 0 {
        // futures-rustls drops a Pending handshake flush (F151). When the writes of a flight pend as well, the
        // flush is called once per write round and whether the *last* call is the one that gets performed
        // depends on the byte length of the real ClientHello - not a property of the shim, not predictable by an
        // abstract engine: keep the writes undelayed in this corner.
        dw = 0;
    }
    let mut lines = vec![format!("tls be={be} tr={tr} lim={lim} buf={buf} dr={dr} dw={dw} dfh={dfh} df={df}")];
    let maxlen: u64 = match (lim, thorough) {
        (1, false) => 2_000,
        (1, true) => 40_000,
        (7, false) => 20_000,
        (7, true) => 200_000,
        (_, false) => 70_000,
        (_, true) => 1 << 20,
    };
    let n = r.below(4);
    for _ in 0..n {
        let len = match r.below(6) {
            0 => 0,
            1 => r.range(1, 40),
            2 => *r.pick(&[16383u64, 16384, 16385, 8192, 8193, 32768, 32769]),
            3 => {
                if r.chance(1, 5) {
                    r.range(0, maxlen)
                } else {
                    r.range(0, maxlen.min(70_000))
                }
            }
            _ => r.range(0, maxlen.min(5000)),
        }
        .min(maxlen);
        lines.push(format!("xfer {} {} {}", if r.chance(1, 2) { "c2s" } else { "s2c" }, len, r.below(1000)));
    }
    if r.chance(3, 4) {
        lines.push(format!("close {}", if r.chance(1, 2) { "c" } else { "s" }));
    }
    lines
}

fn generate(tier: &str, rng: &mut Rng) -> Vec<Case> {
    let thorough = tier == "thorough";
    let mut cases = vec![];
    let n_tls = if thorough { 3200 } else { 400 };
    for i in 0..n_tls {
        cases.push(Case { name: format!("tls{i}"), lines: gen_tls(rng, thorough) });
    }
    let n_ws = if thorough { 500 } else { 50 };
    for i in 0..n_ws {
        cases.push(Case { name: format!("ws{i}"), lines: ws::gen_ws(rng, thorough) });
    }
    cases
}

fn main() {
    let m = material();
    run_harness(
        generate,
        |case| {
            let mut ex = Exec::new();
            let r = catch(|| {
                if case.lines[0].starts_with("tls ") {
                    exec_tls(&m, case, &mut ex)
                } else {
                    ws::exec_ws(&m.rustls_acceptor, &m.rustls_connector, &m.ossl_acceptor, &m.ossl_connector, case, &mut ex)
                }
            });
            if let Err(p) = r {
                ex.out = case.lines.iter().map(|_| "panic".to_string()).collect();
                ex.fail("C15:panic", format!("{p} case=[{}]", case.lines.join(" | ")));
            }
            ex
        },
        "handshake completed on both sides and the case has at least one transfer/close step",
    );
}
