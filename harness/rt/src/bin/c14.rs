//! C14 — socket transports deliver exactly what was sent.
//!
//! Two peers inside one process, on the real compio-net / compio-runtime / compio-driver (fusion
//! build, driver chosen per case).  Case families (first word of the first line):
//!
//! * `open`   lockstep: one operation per line on a TCP / Unix stream / UDP / Unix datagram pair;
//!            every receive is issued only after the bytes are known to be queued, so `(n, buffers,
//!            address, flags)` of each call is determined and compared with the Lean result-mapping
//!            model line by line.
//! * `conc`   concurrent reader and writer tasks (both directions), sizes above the socket buffer,
//!            mixed operation kinds; the receiver's byte stream is summarised as `len fnv eof`.
//! * `accept` accept / `incoming` yields every connection exactly once, nothing leaks.
//! * `rmo`    `RecvMsgMultiResult::new` + accessors of the real code on a crafted buffer.
//! * `ms`     the `SubmitMultiStream` adapter driven by real kernel events (data, pool exhaustion,
//!            shutdown, cancel) — token sequence compared with the Lean adapter model.
//!
//! Monitors (implementation only): `C14:stream-mismatch`, `C14:dgram-mismatch`, `C14:dgram-over-capacity`,
//! `C14:accept-dup-or-missing`, `C14:eof-missing`, `C14:fd-leak`, `C14:zc-buffer-changed`, and the known
//! findings `F140:poll-multi-empty-data`, `F141:recv-vectored-prefilled`.

use std::{
    cell::RefCell,
    collections::VecDeque,
    io,
    mem::MaybeUninit,
    num::NonZeroU16,
    os::fd::{AsRawFd, FromRawFd, RawFd},
    rc::Rc,
    time::{Duration, Instant},
};

use compio_buf::{BufResult, IoBuf, IoBufMut, SetLen};
use compio_driver::{DriverType, ProactorBuilder};
use compio_io::{
    AsyncRead, AsyncReadManaged, AsyncReadMulti, AsyncWrite, AsyncWriteZerocopy,
    ancillary::{AncillaryBuf, AsyncReadAncillary, AsyncWriteAncillary},
};
use compio_net::{TcpListener, TcpStream, UdpSocket, UnixListener, UnixStream};
use compio_runtime::Runtime;
use futures_util::StreamExt;
use hx_common::{Case, Exec, Rng, catch, hex, run_harness, unhex};

// ---------------------------------------------------------------------------------------------
// buffers of the generated shapes

/// one member of a receive buffer: `v<cap>:<prefill>` = `Vec` with content and capacity,
/// `a<len>` = fixed slice (`Box<[u8]>`, `len == cap`) filled with 0xee
enum Mem {
    V(Vec<u8>),
    A(Box<[u8]>),
}

impl IoBuf for Mem {
    fn as_init(&self) -> &[u8] {
        match self {
            Mem::V(v) => v.as_init(),
            Mem::A(a) => a.as_init(),
        }
    }
}

impl SetLen for Mem {
    unsafe fn set_len(&mut self, len: usize) {
        match self {
            Mem::V(v) => unsafe { SetLen::set_len(v, len) },
            Mem::A(a) => unsafe { SetLen::set_len(a, len) },
        }
    }
}

impl IoBufMut for Mem {
    fn as_uninit(&mut self) -> &mut [MaybeUninit<u8>] {
        match self {
            Mem::V(v) => v.as_uninit(),
            Mem::A(a) => a.as_uninit(),
        }
    }
}

impl Mem {
    fn vis(&self) -> &[u8] {
        match self {
            Mem::V(v) => v.as_slice(),
            Mem::A(a) => a,
        }
    }
    fn capn(&self) -> usize {
        match self {
            Mem::V(v) => v.capacity(),
            Mem::A(a) => a.len(),
        }
    }
}

fn parse_shape(s: &str) -> Mem {
    if let Some(rest) = s.strip_prefix('v') {
        let (cap, pre) = rest.split_once(':').expect("shape v<cap>:<hex>");
        let cap: usize = cap.parse().expect("cap");
        let pre = unhex(pre);
        assert!(pre.len() <= cap);
        let mut v = Vec::with_capacity(cap);
        assert_eq!(v.capacity(), cap, "allocator gave a different capacity");
        v.extend_from_slice(&pre);
        Mem::V(v)
    } else if let Some(rest) = s.strip_prefix('a') {
        let n: usize = rest.parse().expect("len");
        Mem::A(vec![0xee; n].into_boxed_slice())
    } else {
        panic!("bad shape {s}")
    }
}

fn parse_shapes(s: &str) -> Vec<Mem> {
    s.split(';').map(parse_shape).collect()
}

fn show_mems(ms: &[Mem]) -> String {
    ms.iter().map(|m| hex(m.vis())).collect::<Vec<_>>().join(",")
}

fn mem_caps(ms: &[Mem]) -> Vec<usize> {
    ms.iter().map(|m| m.capn()).collect()
}

fn parse_chunks(s: &str) -> Vec<Vec<u8>> {
    s.split(',').map(unhex).collect()
}

// ---------------------------------------------------------------------------------------------
// runtime / sockets

fn build_rt(drv: &str, nbufs: u16, buflen: usize) -> Runtime {
    let mut pb = ProactorBuilder::new();
    pb.driver_type(if drv == "uring" { DriverType::IoUring } else { DriverType::Poll })
        .capacity(256)
        .buffer_pool_size(NonZeroU16::new(nbufs).expect("pool size"))
        .buffer_pool_buffer_len(buflen);
    let rt = Runtime::builder().with_proactor(pb).build().expect("runtime");
    assert_eq!(rt.driver_type().is_iouring(), drv == "uring", "requested driver not available");
    rt
}

fn inq(fd: RawFd) -> usize {
    let mut n: libc::c_int = 0;
    unsafe { libc::ioctl(fd, libc::FIONREAD, &mut n) };
    n.max(0) as usize
}

fn readable(fd: RawFd, ms: i32) -> bool {
    let mut p = libc::pollfd { fd, events: libc::POLLIN, revents: 0 };
    unsafe { libc::poll(&mut p, 1, ms) > 0 }
}

fn wait_inq(fd: RawFd, want: usize) -> bool {
    let t0 = Instant::now();
    while inq(fd) < want {
        if t0.elapsed() > Duration::from_secs(3) {
            return false;
        }
        std::thread::sleep(Duration::from_micros(20));
    }
    true
}

fn open_fds() -> usize {
    std::fs::read_dir("/proc/self/fd").map(|d| d.count()).unwrap_or(0)
}

thread_local! {
    static SOCK_CTR: RefCell<u64> = const { RefCell::new(0) };
}

fn sock_path() -> String {
    let n = SOCK_CTR.with(|c| {
        *c.borrow_mut() += 1;
        *c.borrow()
    });
    format!("/tmp/c14-{}-{}.sock", std::process::id(), n)
}

enum S {
    Tcp(TcpStream),
    Unix(UnixStream),
}

macro_rules! on {
    ($s:expr, $x:ident => $body:expr) => {
        match $s {
            S::Tcp($x) => $body,
            S::Unix($x) => $body,
        }
    };
}

impl S {
    fn fd(&self) -> RawFd {
        on!(self, s => s.as_raw_fd())
    }
}

async fn stream_pair(tp: &str) -> (S, S) {
    match tp {
        "tcp" => {
            let l = TcpListener::bind("127.0.0.1:0").await.expect("bind");
            let addr = l.local_addr().unwrap();
            let (a, b) = futures_util::join!(TcpStream::connect(addr), l.accept());
            let a = a.expect("connect");
            let b = b.expect("accept").0;
            a.set_nodelay(true).ok();
            b.set_nodelay(true).ok();
            (S::Tcp(a), S::Tcp(b))
        }
        "unix" => {
            let path = sock_path();
            let l = UnixListener::bind(&path).await.expect("bind unix");
            let (a, b) = futures_util::join!(UnixStream::connect(&path), l.accept());
            let _ = std::fs::remove_file(&path);
            (S::Unix(a.expect("connect")), S::Unix(b.expect("accept").0))
        }
        _ => panic!("bad stream transport {tp}"),
    }
}

/// a peer of a stream connection: whole, or split into owned halves (`into_split`)
enum Peer {
    Whole(S),
    Split(S, S),
    Gone,
}

impl Peer {
    fn r(&self) -> &S {
        match self {
            Peer::Whole(s) => s,
            Peer::Split(r, _) => r,
            Peer::Gone => unreachable!(),
        }
    }
    fn w(&self) -> &S {
        match self {
            Peer::Whole(s) => s,
            Peer::Split(_, w) => w,
            Peer::Gone => unreachable!(),
        }
    }
    fn split(&mut self) {
        let me = std::mem::replace(self, Peer::Gone);
        *self = match me {
            Peer::Whole(S::Tcp(s)) => {
                let (r, w) = s.into_split();
                Peer::Split(S::Tcp(r), S::Tcp(w))
            }
            Peer::Whole(S::Unix(s)) => {
                let (r, w) = s.into_split();
                Peer::Split(S::Unix(r), S::Unix(w))
            }
            other => other,
        };
    }
}

// ---------------------------------------------------------------------------------------------
// stream operations (all kinds), used by the lockstep and the concurrent cases

#[derive(Default)]
struct Caps {
    zc_unsupported: bool,
}

fn is_unsupported(e: &io::Error) -> bool {
    matches!(e.raw_os_error(), Some(libc::EINVAL) | Some(libc::EOPNOTSUPP) | Some(libc::ENOSYS))
        || e.kind() == io::ErrorKind::Unsupported
}

/// send all of `chunks` with operation kind `kind`, looping over partial writes; returns bytes sent
async fn send_all(w: &S, kind: &str, chunks: Vec<Vec<u8>>, ex: &RefCell<Exec>, caps: &RefCell<Caps>) -> io::Result<usize> {
    let total: usize = chunks.iter().map(|c| c.len()).sum();
    let mut rest: VecDeque<Vec<u8>> = chunks.into();
    let mut sent = 0usize;
    let mut kind = kind.to_string();
    let mut first = true;
    while sent < total || first {
        first = false;
        let vectored = matches!(kind.as_str(), "vec" | "zcvec" | "msgvec");
        let n = if vectored {
            let bufs: Vec<Vec<u8>> = rest.iter().cloned().collect();
            let copy = bufs.clone();
            match kind.as_str() {
                "vec" => on!(w, s => { let mut s = s; s.write_vectored(bufs).await.0 })?,
                "msgvec" => on!(w, s => { let mut s = s; s.write_vectored_with_ancillary(bufs, Vec::<u8>::new()).await.0 })?,
                "zcvec" => {
                    let BufResult(res, fut) = on!(w, s => { let mut s = s; s.write_zerocopy_vectored(bufs).await });
                    let back = fut.await;
                    if back != copy {
                        ex.borrow_mut().fail("C14:zc-buffer-changed", "vectored zero-copy send returned a different buffer");
                    }
                    match res {
                        Ok(n) => n,
                        Err(e) if is_unsupported(&e) => {
                            caps.borrow_mut().zc_unsupported = true;
                            kind = "vec".into();
                            first = true;
                            continue;
                        }
                        Err(e) => return Err(e),
                    }
                }
                _ => unreachable!(),
            }
        } else {
            let buf = rest.front().cloned().unwrap_or_default();
            let copy = buf.clone();
            match kind.as_str() {
                "plain" => on!(w, s => { let mut s = s; s.write(buf).await.0 })?,
                "msg" => on!(w, s => { let mut s = s; s.write_with_ancillary(buf, Vec::<u8>::new()).await.0 })?,
                "half" => match w {
                    S::Tcp(s) => {
                        let (_r, mut h) = compio_io::util::Splittable::split(s);
                        h.write(buf).await.0?
                    }
                    S::Unix(s) => {
                        let (_r, mut h) = compio_io::util::Splittable::split(s);
                        h.write(buf).await.0?
                    }
                },
                "zc" => {
                    let BufResult(res, fut) = on!(w, s => { let mut s = s; s.write_zerocopy(buf).await });
                    let back = fut.await;
                    if back != copy {
                        ex.borrow_mut().fail("C14:zc-buffer-changed", "zero-copy send returned a different buffer");
                    }
                    match res {
                        Ok(n) => n,
                        Err(e) if is_unsupported(&e) => {
                            caps.borrow_mut().zc_unsupported = true;
                            kind = "plain".into();
                            first = true;
                            continue;
                        }
                        Err(e) => return Err(e),
                    }
                }
                other => panic!("bad send kind {other}"),
            }
        };
        // drop the `n` bytes that went out from the front of `rest`
        let mut k = n;
        if !vectored {
            let f = rest.front_mut();
            if let Some(f) = f {
                assert!(k <= f.len(), "send reported more than submitted");
                if k == f.len() {
                    rest.pop_front();
                } else {
                    f.drain(..k);
                    ex.borrow_mut().tag("partial-send");
                }
            }
        } else {
            let avail: usize = rest.iter().map(|c| c.len()).sum();
            assert!(k <= avail, "vectored send reported more than submitted");
            if k < avail {
                ex.borrow_mut().tag("partial-send");
            }
            while k > 0 || rest.front().is_some_and(|f| f.is_empty()) {
                let f = rest.front_mut().unwrap();
                if k >= f.len() {
                    k -= f.len();
                    rest.pop_front();
                } else {
                    f.drain(..k);
                    k = 0;
                }
            }
            if k == 0 && n == avail {
                rest.clear();
            }
        }
        sent += n;
        if n == 0 && sent < total {
            return Err(io::Error::new(io::ErrorKind::WriteZero, "send returned 0"));
        }
        if !vectored && rest.is_empty() {
            break;
        }
    }
    Ok(sent)
}

/// result of one stream receive: (n, members shown, ctl length if the call reports it)
struct RecvOut {
    n: usize,
    mems: Vec<Mem>,
    extra: String,
}

async fn recv_once(r: &S, kind: &str, mut mems: Vec<Mem>) -> io::Result<RecvOut> {
    match kind {
        "plain" | "half" | "msg" => {
            assert_eq!(mems.len(), 1);
            let m = mems.pop().unwrap();
            match kind {
                "plain" => {
                    let BufResult(res, m) = on!(r, s => { let mut s = s; s.read(m).await });
                    Ok(RecvOut { n: res?, mems: vec![m], extra: String::new() })
                }
                "half" => {
                    let BufResult(res, m) = match r {
                        S::Tcp(s) => {
                            let (mut h, _w) = compio_io::util::Splittable::split(s);
                            h.read(m).await
                        }
                        S::Unix(s) => {
                            let (mut h, _w) = compio_io::util::Splittable::split(s);
                            h.read(m).await
                        }
                    };
                    Ok(RecvOut { n: res?, mems: vec![m], extra: String::new() })
                }
                _ => {
                    let BufResult(res, (m, ctl)) =
                        on!(r, s => { let mut s = s; s.read_with_ancillary(m, AncillaryBuf::<64>::new()).await });
                    let (n, clen, flags) = res?;
                    Ok(RecvOut { n, mems: vec![m], extra: format!(" ctl={}:{} flags={}", clen, ctl.as_init().len(), flag_str(flags.bits() as u32)) })
                }
            }
        }
        "vec" => {
            let BufResult(res, mems) = on!(r, s => { let mut s = s; s.read_vectored(mems).await });
            Ok(RecvOut { n: res?, mems, extra: String::new() })
        }
        "msgvec" => {
            let BufResult(res, (mems, ctl)) =
                on!(r, s => { let mut s = s; s.read_vectored_with_ancillary(mems, AncillaryBuf::<64>::new()).await });
            let (n, clen, flags) = res?;
            Ok(RecvOut { n, mems, extra: format!(" ctl={}:{} flags={}", clen, ctl.as_init().len(), flag_str(flags.bits() as u32)) })
        }
        other => panic!("bad recv kind {other}"),
    }
}

const MSG_TRUNC: u32 = libc::MSG_TRUNC as u32;
const MSG_CTRUNC: u32 = libc::MSG_CTRUNC as u32;

fn flag_str(bits: u32) -> String {
    let mut s = String::new();
    if bits & MSG_TRUNC != 0 {
        s.push('t');
    }
    if bits & MSG_CTRUNC != 0 {
        s.push('c');
    }
    if s.is_empty() {
        s.push('-');
    }
    s
}

// ---------------------------------------------------------------------------------------------
// lockstep cases

struct StreamWorld {
    peers: [Peer; 2],
    /// bytes sent on direction d (0: a->b, 1: b->a) and not yet received, with their content
    queue: [VecDeque<u8>; 2],
    shut: [bool; 2],
}

fn pidx(p: &str) -> usize {
    match p {
        "a" => 0,
        "b" => 1,
        _ => panic!("bad peer {p}"),
    }
}

fn err_str(e: &io::Error) -> String {
    match e.raw_os_error() {
        Some(libc::EMSGSIZE) => "err:msgsize".into(),
        Some(libc::EPIPE) => "err:pipe".into(),
        Some(libc::ECONNRESET) => "err:reset".into(),
        Some(libc::ECANCELED) => "err:cancelled".into(),
        Some(libc::ENOBUFS) => "err:busy".into(),
        _ => match e.kind() {
            io::ErrorKind::ResourceBusy => "err:busy".into(),
            io::ErrorKind::TimedOut => "err:timeout".into(),
            k => format!("err:{k:?}"),
        },
    }
}

/// the receiver-side oracle of a lockstep stream receive: the first `n` bytes seen by the caller are
/// the next `n` bytes of what the other peer sent, in the positions the kernel filled
fn check_stream_recv(ex: &RefCell<Exec>, line: &str, n: usize, mems: &mut [Mem], capv: &[usize], q: &mut VecDeque<u8>, prefilled_gap: bool) {
    let expect: Vec<u8> = q.iter().take(n).copied().collect();
    if expect.len() < n {
        ex.borrow_mut().fail("C14:stream-mismatch", format!("{line}: received {n} bytes but only {} were in flight", expect.len()));
        q.clear();
        return;
    }
    // walk the members the way the kernel filled them
    let mut off = 0usize;
    let mut ok = true;
    for (m, cap) in mems.iter().zip(capv) {
        if off >= n {
            break;
        }
        let k = (*cap).min(n - off);
        let vis = m.vis();
        if vis.len() < k || vis[..k] != expect[off..off + k] {
            ok = false;
        }
        off += k;
    }
    if off < n {
        ok = false;
    }
    if !ok {
        let sig = if prefilled_gap { "F141:recv-vectored-prefilled" } else { "C14:stream-mismatch" };
        ex.borrow_mut().fail(sig, format!("{line}: n={n} caller sees [{}], sender submitted {}", show_mems(mems), hex(&expect)));
    }
    q.drain(..n);
}

/// does the vectored shape have a member with spare capacity (len < cap) that is not empty-and-first-touched
/// in the way `advance_vec_to` needs?  (only used to pick the monitor signature)
fn has_prefilled_gap(mems: &[Mem]) -> bool {
    let lens: Vec<(usize, usize)> = mems.iter().map(|m| (m.vis().len(), m.capn())).collect();
    lens.iter().any(|(l, c)| *l > 0 && l < c) || lens.windows(2).any(|w| w[0].0 < w[0].1 && w[1].0 > 0)
}

/// pull from a `read_multi` stream until `pending` bytes arrived, the stream ended, or a hard error
async fn drain_multi<R: AsyncReadMulti + AsyncReadManaged<Buffer = compio_driver::BufferRef>>(
    r: &mut R,
    len: usize,
    pending: usize,
    ex: &RefCell<Exec>,
) -> (Vec<u8>, bool, Option<String>) {
    let mut got: Vec<u8> = vec![];
    let mut ended = false;
    let mut errs = 0;
    let mut last_err = None;
    let mut s = std::pin::pin!(r.read_multi(len));
    while got.len() < pending || (pending == 0 && !ended) {
        match compio_runtime::time::timeout(Duration::from_secs(3), s.next()).await {
            Err(_) => {
                last_err = Some("err:timeout".to_string());
                break;
            }
            Ok(None) => {
                ended = true;
                break;
            }
            Ok(Some(Ok(buf))) => got.extend_from_slice(&buf),
            Ok(Some(Err(e))) => {
                errs += 1;
                if e.kind() != io::ErrorKind::ResourceBusy || errs > 64 {
                    last_err = Some(err_str(&e));
                    break;
                }
                ex.borrow_mut().tag("multi-enobufs");
            }
        }
    }
    (got, ended, last_err)
}

async fn lock_stream(case: &Case, tp: &str, ex: &RefCell<Exec>, caps: &RefCell<Caps>) -> Vec<String> {
    let (a, b) = stream_pair(tp).await;
    let mut w = StreamWorld { peers: [Peer::Whole(a), Peer::Whole(b)], queue: [VecDeque::new(), VecDeque::new()], shut: [false, false] };
    let mut out = vec!["ok".to_string()];
    for line in &case.lines[1..] {
        let f: Vec<&str> = line.split_whitespace().collect();
        let o = match f[0] {
            "split" => {
                w.peers[pidx(f[1])].split();
                ex.borrow_mut().tag("owned-split");
                "ok".to_string()
            }
            "send" => {
                let p = pidx(f[1]);
                let chunks = parse_chunks(f[3]);
                let flat: Vec<u8> = chunks.concat();
                ex.borrow_mut().tag(format!("send-{}", f[2]));
                match send_all(w.peers[p].w(), f[2], chunks, ex, caps).await {
                    Ok(n) => {
                        w.queue[p].extend(flat.iter().copied());
                        format!("sent {n}")
                    }
                    Err(e) => err_str(&e),
                }
            }
            "shutdown" => {
                let p = pidx(f[1]);
                let r = on!(w.peers[p].w(), s => { let mut s = s; s.shutdown().await });
                w.shut[p] = true;
                match r {
                    Ok(()) => "ok".into(),
                    Err(e) => err_str(&e),
                }
            }
            "recv" => {
                let p = pidx(f[1]);
                let d = 1 - p; // direction feeding this peer
                let pending = w.queue[d].len();
                if pending == 0 && !w.shut[d] {
                    "idle".to_string()
                } else {
                    let fd = w.peers[p].r().fd();
                    if !wait_inq(fd, pending) {
                        ex.borrow_mut().fail("C14:stream-mismatch", format!("{line}: {pending} bytes sent but only {} arrived", inq(fd)));
                    }
                    let mut mems = parse_shapes(f[3]);
                    let gap = f[2].contains("vec") && has_prefilled_gap(&mems);
                    let capv = mem_caps(&mems);
                    ex.borrow_mut().tag(format!("recv-{}", f[2]));
                    match recv_once(w.peers[p].r(), f[2], mems).await {
                        Ok(mut r) => {
                            if r.n == 0 && capv.iter().sum::<usize>() > 0 {
                                if pending > 0 || !w.shut[d] {
                                    ex.borrow_mut().fail("C14:stream-mismatch", format!("{line}: end of stream with {pending} bytes in flight"));
                                }
                                ex.borrow_mut().tag("eof");
                            } else if pending == 0 && capv.iter().sum::<usize>() > 0 {
                                ex.borrow_mut().fail("C14:eof-missing", format!("{line}: {} bytes after shutdown", r.n));
                            }
                            check_stream_recv(ex, line, r.n, &mut r.mems, &capv, &mut w.queue[d], gap);
                            format!("n={} {}{}", r.n, show_mems(&r.mems), r.extra)
                        }
                        Err(e) => err_str(&e),
                    }
                }
            }
            "recvm" => {
                let p = pidx(f[1]);
                let d = 1 - p;
                let pending = w.queue[d].len();
                if pending == 0 && !w.shut[d] {
                    "idle".to_string()
                } else {
                    let fd = w.peers[p].r().fd();
                    wait_inq(fd, pending);
                    let len: usize = f[2].parse().unwrap();
                    ex.borrow_mut().tag("recv-managed");
                    let r = on!(w.peers[p].r(), s => { let mut s = s; s.read_managed(len).await });
                    match r {
                        Ok(Some(buf)) => {
                            let got = buf.to_vec();
                            let exp: Vec<u8> = w.queue[d].iter().take(got.len()).copied().collect();
                            if exp != got {
                                ex.borrow_mut().fail("C14:stream-mismatch", format!("{line}: managed buffer {} but sender submitted {}", hex(&got), hex(&exp)));
                            }
                            let k = got.len().min(w.queue[d].len());
                            w.queue[d].drain(..k);
                            format!("some {}", hex(&got))
                        }
                        Ok(None) => {
                            if pending > 0 {
                                ex.borrow_mut().fail("C14:stream-mismatch", format!("{line}: Ok(None) with {pending} bytes in flight"));
                            }
                            ex.borrow_mut().tag("eof");
                            "none".into()
                        }
                        Err(e) => err_str(&e),
                    }
                }
            }
            "mrecv" => {
                let p = pidx(f[1]);
                let d = 1 - p;
                let pending = w.queue[d].len();
                if pending == 0 && !w.shut[d] {
                    "idle".to_string()
                } else {
                    let len: usize = f[2].parse().unwrap();
                    ex.borrow_mut().tag("recv-multi");
                    let (got, ended, last_err) = on!(w.peers[p].r(), s => { let mut s = s; drain_multi(&mut s, len, pending, ex).await });
                    let exp: Vec<u8> = w.queue[d].iter().take(got.len()).copied().collect();
                    if exp != got || (got.len() < pending && last_err.is_none()) {
                        ex.borrow_mut().fail("C14:stream-mismatch", format!("{line}: multishot stream delivered {} of {pending} bytes: {} vs {}", got.len(), hex(&got), hex(&exp)));
                    }
                    if pending == 0 && !ended && last_err.is_none() {
                        ex.borrow_mut().fail("C14:eof-missing", format!("{line}: multishot stream did not end after shutdown"));
                    }
                    let k = got.len().min(w.queue[d].len());
                    w.queue[d].drain(..k);
                    match last_err {
                        Some(e) => e,
                        None => format!("{}{}", hex(&got), if ended { " eof" } else { "" }),
                    }
                }
            }
            other => panic!("bad lockstep stream op {other}"),
        };
        out.push(o);
    }
    out
}

fn exec(case: &Case) -> Exec {
    let ex = RefCell::new(Exec::new());
    let caps = RefCell::new(Caps::default());
    let first: Vec<&str> = case.lines[0].split_whitespace().collect();
    let out = match first[0] {
        "open" => {
            let (tp, drv) = (first[1], first[2]);
            let nbufs: u16 = first[3].parse().unwrap();
            let buflen: usize = first[4].parse().unwrap();
            ex.borrow_mut().tag(format!("lock-{tp}-{drv}"));
            let rt = build_rt(drv, nbufs, buflen);
            let r = catch(|| {
                rt.block_on(async {
                    match tp {
                        "tcp" | "unix" => lock_stream(case, tp, &ex, &caps).await,
                        _ => panic!("bad transport {tp}"),
                    }
                })
            });
            match r {
                Ok(o) => o,
                Err(p) => {
                    ex.borrow_mut().fail("C14:panic", format!("panic: {p}"));
                    vec![format!("panic"); case.lines.len()]
                }
            }
        }
        other => panic!("bad case family {other}"),
    };
    if caps.borrow().zc_unsupported {
        ex.borrow_mut().tag("zerocopy-unsupported");
    }
    let mut ex = ex.into_inner();
    ex.nontrivial = out.iter().any(|o| o.starts_with("n=") || o.starts_with("some") || o.contains(' '));
    ex.out = out;
    ex
}

// ---------------------------------------------------------------------------------------------
// generators

fn gen_bytes(rng: &mut Rng, n: usize) -> Vec<u8> {
    rng.bytes(n)
}

fn gen_chunks(rng: &mut Rng, vectored: bool, max: usize) -> String {
    if vectored {
        let k = rng.range(1, 4) as usize;
        (0..k)
            .map(|_| {
                let n = if rng.chance(1, 6) { 0 } else { rng.range(1, max as u64 / k as u64 + 1) as usize };
                hex(&gen_bytes(rng, n))
            })
            .collect::<Vec<_>>()
            .join(",")
    } else {
        let n = match rng.below(8) {
            0 => 0,
            1 => 1,
            _ => rng.range(1, max as u64) as usize,
        };
        hex(&gen_bytes(rng, n))
    }
}

fn gen_shape(rng: &mut Rng, max: usize, allow_prefill: bool) -> String {
    let cap = match rng.below(8) {
        0 => 0,
        1 => 1,
        _ => rng.range(1, max as u64) as usize,
    };
    match rng.below(4) {
        0 => format!("a{cap}"),
        1 if allow_prefill && cap > 0 => {
            let p = rng.range(0, cap as u64) as usize;
            format!("v{cap}:{}", hex(&gen_bytes(rng, p)))
        }
        _ => format!("v{cap}:-"),
    }
}

fn gen_lock_stream(rng: &mut Rng, idx: usize, tp: &str, drv: &str) -> Case {
    let nbufs = *rng.pick(&[1u16, 2, 4, 8]);
    let buflen = *rng.pick(&[16usize, 64, 256, 4096]);
    let mut lines = vec![format!("open {tp} {drv} {nbufs} {buflen}")];
    let nops = rng.range(3, 14);
    let mut pend = [0usize; 2];
    let mut shut = [false; 2];
    for _ in 0..nops {
        let p = rng.below(2) as usize;
        let pn = ["a", "b"][p];
        match rng.below(12) {
            0..=4 if !shut[p] && pend[p] < 20000 => {
                let kind = *rng.pick(&["plain", "plain", "vec", "zc", "zcvec", "msg", "msgvec", "half"]);
                let max = *rng.pick(&[8usize, 64, 600, 9000]);
                let ch = gen_chunks(rng, kind.contains("vec"), max);
                pend[p] += ch.split(',').map(|h| if h == "-" { 0 } else { h.len() / 2 }).sum::<usize>();
                lines.push(format!("send {pn} {kind} {ch}"));
            }
            5 if !shut[p] && rng.chance(1, 3) => {
                shut[p] = true;
                lines.push(format!("shutdown {pn}"));
            }
            6 if rng.chance(1, 3) => lines.push(format!("split {pn}")),
            7 => {
                let len = *rng.pick(&[0usize, 0, 5, 100, 100000]);
                lines.push(format!("recvm {pn} {len}"));
                let d = 1 - p;
                pend[d] = pend[d].saturating_sub(if len == 0 { buflen } else { len.min(buflen) });
            }
            8 => {
                let len = *rng.pick(&[0usize, 0, 7, 100000]);
                lines.push(format!("mrecv {pn} {len}"));
                pend[1 - p] = 0;
            }
            _ => {
                let kind = *rng.pick(&["plain", "plain", "vec", "vec", "half", "msg", "msgvec"]);
                let max = *rng.pick(&[4usize, 32, 300, 5000]);
                let shapes = if kind.contains("vec") {
                    let k = rng.range(1, 4);
                    // members are fresh vectors or full arrays; a pre-filled member with spare room
                    // (finding F141) is generated rarely
                    let pre = rng.chance(1, 12);
                    (0..k).map(|_| gen_shape(rng, max, pre)).collect::<Vec<_>>().join(";")
                } else {
                    gen_shape(rng, max, true)
                };
                lines.push(format!("recv {pn} {kind} {shapes}"));
                // conservative bookkeeping of what may remain
                let d = 1 - p;
                let cap: usize = shapes
                    .split(';')
                    .map(|s| s[1..].split(':').next().unwrap().parse::<usize>().unwrap())
                    .sum();
                pend[d] = pend[d].saturating_sub(cap);
            }
        }
    }
    Case { name: format!("lock-{tp}-{drv}-{idx}"), lines }
}

fn generate(tier: &str, rng: &mut Rng) -> Vec<Case> {
    let scale = if tier == "thorough" { 8 } else { 1 };
    let mut cases = vec![];
    let mut idx = 0;
    for _ in 0..(120 * scale) {
        for tp in ["tcp", "unix"] {
            for drv in ["uring", "poll"] {
                idx += 1;
                cases.push(gen_lock_stream(&mut rng.fork(), idx, tp, drv));
            }
        }
    }
    cases
}

fn main() {
    run_harness(
        generate,
        exec,
        "distinct by case text; non-trivial = at least one receive delivered bytes, a datagram, a connection or a stream token",
    );
}

#[allow(dead_code)]
fn _unused(_: UdpSocket, _: Rc<()>) {
    let _ = unsafe { UdpSocket::from_raw_fd(-1) };
}
