//! C14 — socket transports deliver exactly what was sent.
//!
//! Two peers inside one process, on the real compio-net / compio-runtime / compio-driver (fusion
//! build, driver chosen per case).  Case families (first word of the first line):
//!
//! * `open`   lockstep: one operation per line on a TCP / Unix stream / UDP / Unix datagram pair;
//!            every receive is issued only after the bytes are known to be queued, so `(n, buffers,
//!            address, flags)` of each call is determined and compared with the Lean result-mapping
//!            model line by line.
//! * `conc`   concurrent reader and writer tasks (both directions), sizes above the socket buffer,
//!            mixed operation kinds; the receiver's byte stream is summarised as `len fnv eof`.
//! * `accept` accept / `incoming` yields every connection exactly once, nothing leaks.
//! * `rmo`    `RecvMsgMultiResult::new` + accessors of the real code on a crafted buffer.
//! * `ms`     the `SubmitMultiStream` adapter driven by real kernel events (data, pool exhaustion,
//!            shutdown, cancel) — token sequence compared with the Lean adapter model.
//!
//! Monitors (implementation only): `C14:stream-mismatch`, `C14:dgram-mismatch`, `C14:dgram-over-capacity`,
//! `C14:accept-dup-or-missing`, `C14:eof-missing`, `C14:fd-leak`, `C14:zc-buffer-changed`, and the known
//! finding `F141:recv-vectored-prefilled` (F140, empty multishot datagrams on the fused polling path, is
//! repaired in /repo: that symptom is a plain `C14:dgram-mismatch` now).

use std::{
    cell::RefCell,
    collections::VecDeque,
    io,
    mem::MaybeUninit,
    num::NonZeroU16,
    os::fd::{AsRawFd, FromRawFd, RawFd},
    rc::Rc,
    time::{Duration, Instant},
};

use compio_buf::{BufResult, IoBuf, IoBufMut, SetLen};
use compio_driver::{DriverType, ProactorBuilder};
use compio_io::{
    AsyncRead, AsyncReadManaged, AsyncReadMulti, AsyncWrite, AsyncWriteZerocopy,
    ancillary::{AncillaryBuf, AsyncReadAncillary, AsyncReadAncillaryMulti, AsyncWriteAncillary},
};
use compio_net::{TcpListener, TcpStream, UdpSocket, UnixListener, UnixStream};
use compio_runtime::Runtime;
use futures_util::StreamExt;
use hx_common::{Case, Exec, Rng, catch, hex, run_harness, unhex};

// ---------------------------------------------------------------------------------------------
// buffers of the generated shapes

/// one member of a receive buffer: `v<cap>:<prefill>` = `Vec` with content and capacity,
/// `a<len>` = fixed slice (`Box<[u8]>`, `len == cap`) filled with 0xee
enum Mem {
    V(Vec<u8>),
    A(Box<[u8]>),
}

impl IoBuf for Mem {
    fn as_init(&self) -> &[u8] {
        match self {
            Mem::V(v) => v.as_init(),
            Mem::A(a) => a.as_init(),
        }
    }
}

impl SetLen for Mem {
    unsafe fn set_len(&mut self, len: usize) {
        match self {
            Mem::V(v) => unsafe { SetLen::set_len(v, len) },
            Mem::A(a) => unsafe { SetLen::set_len(a, len) },
        }
    }
}

impl IoBufMut for Mem {
    fn as_uninit(&mut self) -> &mut [MaybeUninit<u8>] {
        match self {
            Mem::V(v) => v.as_uninit(),
            Mem::A(a) => a.as_uninit(),
        }
    }
}

impl Mem {
    fn vis(&self) -> &[u8] {
        match self {
            Mem::V(v) => v.as_slice(),
            Mem::A(a) => a,
        }
    }
    fn capn(&self) -> usize {
        match self {
            Mem::V(v) => v.capacity(),
            Mem::A(a) => a.len(),
        }
    }
}

fn parse_shape(s: &str) -> Mem {
    if let Some(rest) = s.strip_prefix('v') {
        let (cap, pre) = rest.split_once(':').expect("shape v<cap>:<hex>");
        let cap: usize = cap.parse().expect("cap");
        let pre = unhex(pre);
        assert!(pre.len() <= cap);
        let mut v = Vec::with_capacity(cap);
        assert_eq!(v.capacity(), cap, "allocator gave a different capacity");
        v.extend_from_slice(&pre);
        Mem::V(v)
    } else if let Some(rest) = s.strip_prefix('a') {
        let n: usize = rest.parse().expect("len");
        Mem::A(vec![0xee; n].into_boxed_slice())
    } else {
        panic!("bad shape {s}")
    }
}

fn parse_shapes(s: &str) -> Vec<Mem> {
    s.split(';').map(parse_shape).collect()
}

fn show_mems(ms: &[Mem]) -> String {
    ms.iter().map(|m| hex(m.vis())).collect::<Vec<_>>().join(",")
}

fn mem_caps(ms: &[Mem]) -> Vec<usize> {
    ms.iter().map(|m| m.capn()).collect()
}

fn parse_chunks(s: &str) -> Vec<Vec<u8>> {
    s.split(',').map(unhex).collect()
}

// ---------------------------------------------------------------------------------------------
// runtime / sockets

fn build_rt(drv: &str, nbufs: u16, buflen: usize) -> Runtime {
    build_rt_cap(drv, nbufs, buflen, 256)
}

/// `capacity` = submission-queue entries of the ring (the completion queue has twice as many)
fn build_rt_cap(drv: &str, nbufs: u16, buflen: usize, capacity: u32) -> Runtime {
    let mut pb = ProactorBuilder::new();
    pb.driver_type(if drv == "uring" { DriverType::IoUring } else { DriverType::Poll })
        .capacity(capacity)
        .buffer_pool_size(NonZeroU16::new(nbufs).expect("pool size"))
        .buffer_pool_buffer_len(buflen);
    let rt = Runtime::builder().with_proactor(pb).build().expect("runtime");
    assert_eq!(rt.driver_type().is_iouring(), drv == "uring", "requested driver not available");
    rt
}

fn inq(fd: RawFd) -> usize {
    let mut n: libc::c_int = 0;
    unsafe { libc::ioctl(fd, libc::FIONREAD, &mut n) };
    n.max(0) as usize
}

fn readable(fd: RawFd, ms: i32) -> bool {
    let mut p = libc::pollfd { fd, events: libc::POLLIN, revents: 0 };
    unsafe { libc::poll(&mut p, 1, ms) > 0 }
}

fn wait_inq(fd: RawFd, want: usize) -> bool {
    let t0 = Instant::now();
    while inq(fd) < want {
        if t0.elapsed() > Duration::from_secs(3) {
            return false;
        }
        std::thread::sleep(Duration::from_micros(20));
    }
    true
}

fn open_fds() -> usize {
    std::fs::read_dir("/proc/self/fd").map(|d| d.count()).unwrap_or(0)
}

/// descriptor count once it stopped changing (helper threads of an earlier case may still be closing theirs)
fn stable_fds() -> usize {
    let mut last = open_fds();
    for _ in 0..40 {
        std::thread::sleep(Duration::from_millis(1));
        let now = open_fds();
        if now == last {
            return now;
        }
        last = now;
    }
    last
}

thread_local! {
    static SOCK_CTR: RefCell<u64> = const { RefCell::new(0) };
}

fn sock_path() -> String {
    let n = SOCK_CTR.with(|c| {
        *c.borrow_mut() += 1;
        *c.borrow()
    });
    format!("/tmp/c14-{}-{}.sock", std::process::id(), n)
}

enum S {
    Tcp(TcpStream),
    Unix(UnixStream),
}

macro_rules! on {
    ($s:expr, $x:ident => $body:expr) => {
        match $s {
            S::Tcp($x) => $body,
            S::Unix($x) => $body,
        }
    };
}

impl S {
    fn fd(&self) -> RawFd {
        on!(self, s => s.as_raw_fd())
    }
}

async fn stream_pair(tp: &str) -> (S, S) {
    match tp {
        "tcp" => {
            let l = TcpListener::bind("127.0.0.1:0").await.expect("bind");
            let addr = l.local_addr().unwrap();
            let (a, b) = futures_util::join!(TcpStream::connect(addr), l.accept());
            let a = a.expect("connect");
            let b = b.expect("accept").0;
            a.set_nodelay(true).ok();
            b.set_nodelay(true).ok();
            (S::Tcp(a), S::Tcp(b))
        }
        "unix" => {
            let path = sock_path();
            let l = UnixListener::bind(&path).await.expect("bind unix");
            let (a, b) = futures_util::join!(UnixStream::connect(&path), l.accept());
            let _ = std::fs::remove_file(&path);
            (S::Unix(a.expect("connect")), S::Unix(b.expect("accept").0))
        }
        _ => panic!("bad stream transport {tp}"),
    }
}

/// a peer of a stream connection: whole, or split into owned halves (`into_split`)
enum Peer {
    Whole(S),
    Split(S, S),
    Gone,
}

impl Peer {
    fn r(&self) -> &S {
        match self {
            Peer::Whole(s) => s,
            Peer::Split(r, _) => r,
            Peer::Gone => unreachable!(),
        }
    }
    fn w(&self) -> &S {
        match self {
            Peer::Whole(s) => s,
            Peer::Split(_, w) => w,
            Peer::Gone => unreachable!(),
        }
    }
    fn split(&mut self) {
        let me = std::mem::replace(self, Peer::Gone);
        *self = match me {
            Peer::Whole(S::Tcp(s)) => {
                let (r, w) = s.into_split();
                Peer::Split(S::Tcp(r), S::Tcp(w))
            }
            Peer::Whole(S::Unix(s)) => {
                let (r, w) = s.into_split();
                Peer::Split(S::Unix(r), S::Unix(w))
            }
            other => other,
        };
    }
}

// ---------------------------------------------------------------------------------------------
// stream operations (all kinds), used by the lockstep and the concurrent cases

#[derive(Default)]
struct Caps {
    zc_unsupported: bool,
}

fn is_unsupported(e: &io::Error) -> bool {
    matches!(e.raw_os_error(), Some(libc::EINVAL) | Some(libc::EOPNOTSUPP) | Some(libc::ENOSYS))
        || e.kind() == io::ErrorKind::Unsupported
}

/// send all of `chunks` with operation kind `kind`, looping over partial writes; returns bytes sent
async fn send_all(w: &S, kind: &str, chunks: Vec<Vec<u8>>, ex: &RefCell<Exec>, caps: &RefCell<Caps>) -> io::Result<usize> {
    let total: usize = chunks.iter().map(|c| c.len()).sum();
    let mut rest: VecDeque<Vec<u8>> = chunks.into();
    let mut sent = 0usize;
    let mut kind = kind.to_string();
    let mut first = true;
    while sent < total || first {
        first = false;
        let vectored = matches!(kind.as_str(), "vec" | "zcvec" | "msgvec");
        let n = if vectored {
            let bufs: Vec<Vec<u8>> = rest.iter().cloned().collect();
            let copy = bufs.clone();
            match kind.as_str() {
                "vec" => on!(w, s => { let mut s = s; s.write_vectored(bufs).await.0 })?,
                "msgvec" => on!(w, s => { let mut s = s; s.write_vectored_with_ancillary(bufs, Vec::<u8>::new()).await.0 })?,
                "zcvec" => {
                    let BufResult(res, fut) = on!(w, s => { let mut s = s; s.write_zerocopy_vectored(bufs).await });
                    let back = fut.await;
                    if back != copy {
                        ex.borrow_mut().fail("C14:zc-buffer-changed", "vectored zero-copy send returned a different buffer");
                    }
                    match res {
                        Ok(n) => n,
                        Err(e) if is_unsupported(&e) => {
                            caps.borrow_mut().zc_unsupported = true;
                            kind = "vec".into();
                            first = true;
                            continue;
                        }
                        Err(e) => return Err(e),
                    }
                }
                _ => unreachable!(),
            }
        } else {
            let buf = rest.front().cloned().unwrap_or_default();
            let copy = buf.clone();
            match kind.as_str() {
                "plain" => on!(w, s => { let mut s = s; s.write(buf).await.0 })?,
                "msg" => on!(w, s => { let mut s = s; s.write_with_ancillary(buf, Vec::<u8>::new()).await.0 })?,
                "half" => match w {
                    S::Tcp(s) => {
                        let (_r, mut h) = compio_io::util::Splittable::split(s);
                        h.write(buf).await.0?
                    }
                    S::Unix(s) => {
                        let (_r, mut h) = compio_io::util::Splittable::split(s);
                        h.write(buf).await.0?
                    }
                },
                "zc" => {
                    let BufResult(res, fut) = on!(w, s => { let mut s = s; s.write_zerocopy(buf).await });
                    let back = fut.await;
                    if back != copy {
                        ex.borrow_mut().fail("C14:zc-buffer-changed", "zero-copy send returned a different buffer");
                    }
                    match res {
                        Ok(n) => n,
                        Err(e) if is_unsupported(&e) => {
                            caps.borrow_mut().zc_unsupported = true;
                            kind = "plain".into();
                            first = true;
                            continue;
                        }
                        Err(e) => return Err(e),
                    }
                }
                other => panic!("bad send kind {other}"),
            }
        };
        // drop the `n` bytes that went out from the front of `rest`
        let mut k = n;
        if !vectored {
            let f = rest.front_mut();
            if let Some(f) = f {
                assert!(k <= f.len(), "send reported more than submitted");
                if k == f.len() {
                    rest.pop_front();
                } else {
                    f.drain(..k);
                    ex.borrow_mut().tag("partial-send");
                }
            }
        } else {
            let avail: usize = rest.iter().map(|c| c.len()).sum();
            assert!(k <= avail, "vectored send reported more than submitted");
            if k < avail {
                ex.borrow_mut().tag("partial-send");
            }
            while k > 0 || rest.front().is_some_and(|f| f.is_empty()) {
                let f = rest.front_mut().unwrap();
                if k >= f.len() {
                    k -= f.len();
                    rest.pop_front();
                } else {
                    f.drain(..k);
                    k = 0;
                }
            }
            if k == 0 && n == avail {
                rest.clear();
            }
        }
        sent += n;
        if n == 0 && sent < total {
            return Err(io::Error::new(io::ErrorKind::WriteZero, "send returned 0"));
        }
        if !vectored && rest.is_empty() {
            break;
        }
    }
    Ok(sent)
}

/// result of one stream receive: (n, members shown, ctl length if the call reports it)
struct RecvOut {
    n: usize,
    mems: Vec<Mem>,
    extra: String,
}

async fn recv_once(r: &S, kind: &str, mut mems: Vec<Mem>) -> io::Result<RecvOut> {
    match kind {
        "plain" | "half" | "msg" => {
            assert_eq!(mems.len(), 1);
            let m = mems.pop().unwrap();
            match kind {
                "plain" => {
                    let BufResult(res, m) = on!(r, s => { let mut s = s; s.read(m).await });
                    Ok(RecvOut { n: res?, mems: vec![m], extra: String::new() })
                }
                "half" => {
                    let BufResult(res, m) = match r {
                        S::Tcp(s) => {
                            let (mut h, _w) = compio_io::util::Splittable::split(s);
                            h.read(m).await
                        }
                        S::Unix(s) => {
                            let (mut h, _w) = compio_io::util::Splittable::split(s);
                            h.read(m).await
                        }
                    };
                    Ok(RecvOut { n: res?, mems: vec![m], extra: String::new() })
                }
                _ => {
                    let BufResult(res, (m, ctl)) =
                        on!(r, s => { let mut s = s; s.read_with_ancillary(m, AncillaryBuf::<64>::new()).await });
                    let (n, clen, flags) = res?;
                    Ok(RecvOut { n, mems: vec![m], extra: format!(" ctl={}:{} flags={}", clen, ctl.as_init().len(), flag_str(flags.bits() as u32)) })
                }
            }
        }
        "vec" => {
            let BufResult(res, mems) = on!(r, s => { let mut s = s; s.read_vectored(mems).await });
            Ok(RecvOut { n: res?, mems, extra: String::new() })
        }
        "msgvec" => {
            let BufResult(res, (mems, ctl)) =
                on!(r, s => { let mut s = s; s.read_vectored_with_ancillary(mems, AncillaryBuf::<64>::new()).await });
            let (n, clen, flags) = res?;
            Ok(RecvOut { n, mems, extra: format!(" ctl={}:{} flags={}", clen, ctl.as_init().len(), flag_str(flags.bits() as u32)) })
        }
        other => panic!("bad recv kind {other}"),
    }
}

const MSG_TRUNC: u32 = libc::MSG_TRUNC as u32;
const MSG_CTRUNC: u32 = libc::MSG_CTRUNC as u32;

fn flag_str(bits: u32) -> String {
    let mut s = String::new();
    if bits & MSG_TRUNC != 0 {
        s.push('t');
    }
    if bits & MSG_CTRUNC != 0 {
        s.push('c');
    }
    if s.is_empty() {
        s.push('-');
    }
    s
}

// ---------------------------------------------------------------------------------------------
// lockstep cases

struct StreamWorld {
    peers: [Peer; 2],
    /// bytes sent on direction d (0: a->b, 1: b->a) and not yet received, with their content
    queue: [VecDeque<u8>; 2],
    shut: [bool; 2],
}

fn pidx(p: &str) -> usize {
    match p {
        "a" => 0,
        "b" => 1,
        _ => panic!("bad peer {p}"),
    }
}

fn err_str(e: &io::Error) -> String {
    match e.raw_os_error() {
        Some(libc::EMSGSIZE) => "err:msgsize".into(),
        Some(libc::EPIPE) => "err:pipe".into(),
        Some(libc::ECONNRESET) => "err:reset".into(),
        Some(libc::ECANCELED) => "err:cancelled".into(),
        Some(libc::ENOBUFS) => "err:busy".into(),
        _ => match e.kind() {
            io::ErrorKind::ResourceBusy => "err:busy".into(),
            io::ErrorKind::TimedOut => "err:timeout".into(),
            k => format!("err:{k:?}"),
        },
    }
}

/// the receiver-side oracle of a lockstep stream receive: the first `n` bytes seen by the caller are
/// the next `n` bytes of what the other peer sent, in the positions the kernel filled
fn check_stream_recv(ex: &RefCell<Exec>, line: &str, n: usize, mems: &mut [Mem], capv: &[usize], q: &mut VecDeque<u8>, prefilled_gap: bool) {
    let expect: Vec<u8> = q.iter().take(n).copied().collect();
    if expect.len() < n {
        ex.borrow_mut().fail("C14:stream-mismatch", format!("{line}: received {n} bytes but only {} were in flight", expect.len()));
        q.clear();
        return;
    }
    // walk the members the way the kernel filled them
    let mut off = 0usize;
    let mut ok = true;
    for (m, cap) in mems.iter().zip(capv) {
        if off >= n {
            break;
        }
        let k = (*cap).min(n - off);
        let vis = m.vis();
        if vis.len() < k || vis[..k] != expect[off..off + k] {
            ok = false;
        }
        off += k;
    }
    if off < n {
        ok = false;
    }
    if !ok {
        let sig = if prefilled_gap { "F141:recv-vectored-prefilled" } else { "C14:stream-mismatch" };
        ex.borrow_mut().fail(sig, format!("{line}: n={n} caller sees [{}], sender submitted {}", show_mems(mems), hex(&expect)));
    }
    q.drain(..n);
}

/// does the vectored shape have a member with spare capacity (len < cap) that is not empty-and-first-touched
/// in the way `advance_vec_to` needs?  (only used to pick the monitor signature)
fn has_prefilled_gap(mems: &[Mem]) -> bool {
    let lens: Vec<(usize, usize)> = mems.iter().map(|m| (m.vis().len(), m.capn())).collect();
    lens.iter().any(|(l, c)| *l > 0 && l < c)
        || (0..lens.len()).any(|i| lens[i].0 < lens[i].1 && lens[i + 1..].iter().any(|(l, _)| *l > 0))
}

/// pull from a `read_multi` stream until `pending` bytes arrived, the stream ended, or a hard error
async fn drain_multi<R: AsyncReadMulti + AsyncReadManaged<Buffer = compio_driver::BufferRef>>(
    r: &mut R,
    len: usize,
    pending: usize,
    ex: &RefCell<Exec>,
) -> (Vec<u8>, bool, Option<String>) {
    let mut got: Vec<u8> = vec![];
    let mut ended = false;
    let mut errs = 0;
    let mut last_err = None;
    let mut s = std::pin::pin!(r.read_multi(len));
    while got.len() < pending || (pending == 0 && !ended) {
        match compio_runtime::time::timeout(Duration::from_secs(3), s.next()).await {
            Err(_) => {
                last_err = Some("err:timeout".to_string());
                break;
            }
            Ok(None) => {
                ended = true;
                break;
            }
            Ok(Some(Ok(buf))) => {
                got.extend_from_slice(&buf);
                errs = 0;
            }
            Ok(Some(Err(e))) => {
                errs += 1;
                if e.kind() != io::ErrorKind::ResourceBusy || errs > 16 {
                    last_err = Some(err_str(&e));
                    break;
                }
                ex.borrow_mut().tag("multi-enobufs");
            }
        }
    }
    (got, ended, last_err)
}

/// like `drain_multi` for `read_multi_with_ancillary(clen)`; this flavour has no end token: an item with
/// empty data is the end of the stream
async fn drain_multi_anc<R: AsyncReadAncillaryMulti<Return = compio_driver::op::RecvMsgMultiResult>>(
    r: &mut R,
    clen: usize,
    pending: usize,
    ex: &RefCell<Exec>,
) -> (Vec<u8>, bool, Option<String>) {
    let mut got: Vec<u8> = vec![];
    let mut ended = false;
    let mut errs = 0;
    let mut last_err = None;
    let mut s = std::pin::pin!(r.read_multi_with_ancillary(clen));
    while got.len() < pending || (pending == 0 && !ended) {
        match compio_runtime::time::timeout(Duration::from_secs(3), s.next()).await {
            Err(_) => {
                last_err = Some("err:timeout".to_string());
                break;
            }
            Ok(None) => {
                ended = true;
                break;
            }
            Ok(Some(Ok(item))) => {
                errs = 0;
                if item.data().is_empty() {
                    ended = true;
                    break;
                }
                got.extend_from_slice(item.data());
            }
            Ok(Some(Err(e))) => {
                errs += 1;
                if e.kind() != io::ErrorKind::ResourceBusy || errs > 16 {
                    last_err = Some(err_str(&e));
                    break;
                }
                ex.borrow_mut().tag("multi-enobufs");
            }
        }
    }
    (got, ended, last_err)
}

async fn lock_stream(case: &Case, tp: &str, ex: &RefCell<Exec>, caps: &RefCell<Caps>) -> Vec<String> {
    let (a, b) = stream_pair(tp).await;
    let mut w = StreamWorld { peers: [Peer::Whole(a), Peer::Whole(b)], queue: [VecDeque::new(), VecDeque::new()], shut: [false, false] };
    let mut out = vec!["ok".to_string()];
    for line in &case.lines[1..] {
        let f: Vec<&str> = line.split_whitespace().collect();
        let o = match f[0] {
            "split" => {
                w.peers[pidx(f[1])].split();
                ex.borrow_mut().tag("owned-split");
                "ok".to_string()
            }
            "send" => {
                let p = pidx(f[1]);
                let chunks = parse_chunks(f[3]);
                let flat: Vec<u8> = chunks.concat();
                ex.borrow_mut().tag(format!("send-{}", f[2]));
                match send_all(w.peers[p].w(), f[2], chunks, ex, caps).await {
                    Ok(n) => {
                        w.queue[p].extend(flat.iter().copied());
                        format!("sent {n}")
                    }
                    Err(e) => err_str(&e),
                }
            }
            "shutdown" => {
                let p = pidx(f[1]);
                let how = f.get(2).copied().unwrap_or("whole");
                ex.borrow_mut().tag(format!("shutdown-{how}"));
                if how == "ohalf" {
                    w.peers[p].split();
                }
                let r = match how {
                    // the borrowed write half of `split()`
                    "half" => match w.peers[p].w() {
                        S::Tcp(s) => {
                            let (_r, mut h) = compio_io::util::Splittable::split(s);
                            h.shutdown().await
                        }
                        S::Unix(s) => {
                            let (_r, mut h) = compio_io::util::Splittable::split(s);
                            h.shutdown().await
                        }
                    },
                    // the stream itself, or the owned write half of `into_split()`
                    _ => on!(w.peers[p].w(), s => { let mut s = s; s.shutdown().await }),
                };
                w.shut[p] = true;
                match r {
                    Ok(()) => {
                        // the half-close must reach the peer: its socket reports the read side closed
                        let fd = w.peers[1 - p].r().fd();
                        let mut pfd = libc::pollfd { fd, events: libc::POLLRDHUP, revents: 0 };
                        let t0 = Instant::now();
                        let mut seen = false;
                        while t0.elapsed() < Duration::from_millis(1500) {
                            unsafe { libc::poll(&mut pfd, 1, 50) };
                            if pfd.revents & libc::POLLRDHUP != 0 {
                                seen = true;
                                break;
                            }
                        }
                        if !seen {
                            ex.borrow_mut().fail("C14:shutdown-not-delivered", format!("{line}: shutdown() returned Ok but the peer's socket never saw the write side closed"));
                        }
                        "ok".into()
                    }
                    Err(e) => err_str(&e),
                }
            }
            "recv" => {
                let p = pidx(f[1]);
                let d = 1 - p; // direction feeding this peer
                let pending = w.queue[d].len();
                if pending == 0 && !w.shut[d] {
                    "idle".to_string()
                } else {
                    let fd = w.peers[p].r().fd();
                    if !wait_inq(fd, pending) {
                        ex.borrow_mut().fail("C14:stream-mismatch", format!("{line}: {pending} bytes sent but only {} arrived", inq(fd)));
                    }
                    let mems = parse_shapes(f[3]);
                    let gap = f[2].contains("vec") && has_prefilled_gap(&mems);
                    let capv = mem_caps(&mems);
                    ex.borrow_mut().tag(format!("recv-{}", f[2]));
                    let res = match compio_runtime::time::timeout(Duration::from_secs(2), recv_once(w.peers[p].r(), f[2], mems)).await {
                        Ok(r) => r,
                        Err(_) => {
                            ex.borrow_mut().fail("C14:shutdown-not-delivered", format!("{line}: nothing in flight, the peer shut down, but the receive did not report the end of the stream within 2 s"));
                            Err(io::Error::new(io::ErrorKind::TimedOut, "recv"))
                        }
                    };
                    match res {
                        Ok(mut r) => {
                            if r.n == 0 && capv.iter().sum::<usize>() > 0 {
                                if pending > 0 || !w.shut[d] {
                                    ex.borrow_mut().fail("C14:stream-mismatch", format!("{line}: end of stream with {pending} bytes in flight"));
                                }
                                ex.borrow_mut().tag("eof");
                            } else if pending == 0 && capv.iter().sum::<usize>() > 0 {
                                ex.borrow_mut().fail("C14:eof-missing", format!("{line}: {} bytes after shutdown", r.n));
                            }
                            check_stream_recv(ex, line, r.n, &mut r.mems, &capv, &mut w.queue[d], gap);
                            format!("n={} {}{}", r.n, show_mems(&r.mems), r.extra)
                        }
                        Err(e) => err_str(&e),
                    }
                }
            }
            "recvm" => {
                let p = pidx(f[1]);
                let d = 1 - p;
                let pending = w.queue[d].len();
                if pending == 0 && !w.shut[d] {
                    "idle".to_string()
                } else {
                    let fd = w.peers[p].r().fd();
                    wait_inq(fd, pending);
                    let len: usize = f[2].parse().unwrap();
                    ex.borrow_mut().tag("recv-managed");
                    let r = match compio_runtime::time::timeout(Duration::from_secs(2), async {
                        on!(w.peers[p].r(), s => { let mut s = s; s.read_managed(len).await })
                    })
                    .await
                    {
                        Ok(r) => r,
                        Err(_) => {
                            ex.borrow_mut().fail("C14:shutdown-not-delivered", format!("{line}: managed receive did not report the end of the stream within 2 s"));
                            Err(io::Error::new(io::ErrorKind::TimedOut, "recv"))
                        }
                    };
                    match r {
                        Ok(Some(buf)) => {
                            let got = buf.to_vec();
                            let exp: Vec<u8> = w.queue[d].iter().take(got.len()).copied().collect();
                            if exp != got {
                                ex.borrow_mut().fail("C14:stream-mismatch", format!("{line}: managed buffer {} but sender submitted {}", hex(&got), hex(&exp)));
                            }
                            let k = got.len().min(w.queue[d].len());
                            w.queue[d].drain(..k);
                            format!("some {}", hex(&got))
                        }
                        Ok(None) => {
                            if pending > 0 {
                                ex.borrow_mut().fail("C14:stream-mismatch", format!("{line}: Ok(None) with {pending} bytes in flight"));
                            }
                            ex.borrow_mut().tag("eof");
                            "none".into()
                        }
                        Err(e) => err_str(&e),
                    }
                }
            }
            "mrecv" | "mrecva" => {
                let p = pidx(f[1]);
                let d = 1 - p;
                let pending = w.queue[d].len();
                if pending == 0 && !w.shut[d] {
                    "idle".to_string()
                } else {
                    let len: usize = f[2].parse().unwrap();
                    let anc = f[0] == "mrecva";
                    ex.borrow_mut().tag(if anc { "recv-multi-ancillary" } else { "recv-multi" });
                    let (got, ended, last_err) = if anc {
                        on!(w.peers[p].r(), s => { let mut s = s; drain_multi_anc(&mut s, len, pending, ex).await })
                    } else {
                        on!(w.peers[p].r(), s => { let mut s = s; drain_multi(&mut s, len, pending, ex).await })
                    };
                    let exp: Vec<u8> = w.queue[d].iter().take(got.len()).copied().collect();
                    if exp != got || (got.len() < pending && last_err.is_none()) {
                        ex.borrow_mut().fail("C14:stream-mismatch", format!("{line}: multishot stream delivered {} of {pending} bytes: {} vs {}", got.len(), hex(&got), hex(&exp)));
                    }
                    if pending == 0 && !ended && last_err.is_none() {
                        ex.borrow_mut().fail("C14:eof-missing", format!("{line}: multishot stream did not end after shutdown"));
                    }
                    if pending == 0 && last_err.as_deref() == Some("err:timeout") {
                        ex.borrow_mut().fail("C14:shutdown-not-delivered", format!("{line}: the peer shut down but the multishot stream did not report the end of the stream within 3 s"));
                    }
                    let k = got.len().min(w.queue[d].len());
                    w.queue[d].drain(..k);
                    match last_err {
                        Some(e) => e,
                        None => format!("{}{}", hex(&got), if ended { " eof" } else { "" }),
                    }
                }
            }
            other => panic!("bad lockstep stream op {other}"),
        };
        out.push(o);
    }
    out
}


// ---------------------------------------------------------------------------------------------
// lockstep datagram cases

async fn dgram_pair(tp: &str, tos: bool) -> (UdpSocket, UdpSocket, Option<std::net::SocketAddr>, Option<std::net::SocketAddr>) {
    match tp {
        "udp" => {
            let a = UdpSocket::bind("127.0.0.1:0").await.expect("bind udp");
            let b = UdpSocket::bind("127.0.0.1:0").await.expect("bind udp");
            let aa = a.local_addr().unwrap();
            let ba = b.local_addr().unwrap();
            a.connect(ba).await.expect("connect udp");
            b.connect(aa).await.expect("connect udp");
            if tos {
                for s in [&a, &b] {
                    let on: libc::c_int = 1;
                    let r = unsafe {
                        libc::setsockopt(s.as_raw_fd(), libc::IPPROTO_IP, libc::IP_RECVTOS, &on as *const _ as *const libc::c_void, 4)
                    };
                    assert_eq!(r, 0, "IP_RECVTOS");
                }
            }
            (a, b, Some(aa), Some(ba))
        }
        "udg" => {
            let mut fds = [0 as RawFd; 2];
            let r = unsafe { libc::socketpair(libc::AF_UNIX, libc::SOCK_DGRAM | libc::SOCK_NONBLOCK | libc::SOCK_CLOEXEC, 0, fds.as_mut_ptr()) };
            assert_eq!(r, 0, "socketpair");
            let a = unsafe { UdpSocket::from_raw_fd(fds[0]) };
            let b = unsafe { UdpSocket::from_raw_fd(fds[1]) };
            (a, b, None, None)
        }
        _ => panic!("bad datagram transport {tp}"),
    }
}

struct DgramWorld {
    socks: [UdpSocket; 2],
    addrs: [Option<std::net::SocketAddr>; 2],
    /// datagrams sent by peer d and not yet received by the other
    queue: [VecDeque<Vec<u8>>; 2],
}

fn from_name(w: &DgramWorld, addr: Option<std::net::SocketAddr>) -> &'static str {
    match addr {
        None => "-",
        Some(a) if Some(a) == w.addrs[0] => "a",
        Some(a) if Some(a) == w.addrs[1] => "b",
        Some(_) => "?",
    }
}

/// oracle for one received datagram: `data` is the prefix of the next sent datagram cut to `cap`,
/// never longer than `cap`; source and truncation flag (when reported) are right
#[allow(clippy::too_many_arguments)]
fn check_dgram(ex: &RefCell<Exec>, line: &str, w: &mut DgramWorld, d: usize, _drv: &str, _kind: &str, data: &[u8], cap: usize, from: Option<&str>, trunc: Option<bool>) {
    let Some(sent) = w.queue[d].pop_front() else {
        ex.borrow_mut().fail("C14:dgram-mismatch", format!("{line}: received a datagram but none was in flight"));
        return;
    };
    if data.len() > cap {
        ex.borrow_mut().fail("C14:dgram-over-capacity", format!("{line}: {} bytes delivered into {cap} bytes of room", data.len()));
    }
    let k = sent.len().min(cap);
    if data != &sent[..k] {
        let sig = "C14:dgram-mismatch";
        ex.borrow_mut().fail(sig, format!("{line}: received {} for datagram {} (room {cap})", hex(data), hex(&sent)));
    }
    if let Some(f) = from {
        let want = if w.addrs[d].is_some() { ["a", "b"][d] } else { "-" };
        if f != want {
            ex.borrow_mut().fail("C14:dgram-mismatch", format!("{line}: source {f}, expected {want}"));
        }
    }
    if let Some(t) = trunc {
        if t != (sent.len() > cap) {
            ex.borrow_mut().fail("C14:dgram-mismatch", format!("{line}: truncated flag {t} for a {}-byte datagram into {cap} bytes", sent.len()));
        }
        if t {
            ex.borrow_mut().tag("truncated");
        }
    }
}

async fn zc_done<T: PartialEq, F: std::future::Future<Output = T>>(r: BufResult<usize, F>, copy: T, ex: &RefCell<Exec>) -> io::Result<usize> {
    let BufResult(res, fut) = r;
    let back = fut.await;
    if back != copy {
        ex.borrow_mut().fail("C14:zc-buffer-changed", "zero-copy datagram send returned a different buffer");
    }
    res
}

async fn dsend(sock: &UdpSocket, to: Option<std::net::SocketAddr>, kind: &str, chunks: Vec<Vec<u8>>, ex: &RefCell<Exec>, caps: &RefCell<Caps>) -> io::Result<usize> {
    let one = chunks.concat();
    let dest = to.unwrap_or_else(|| "127.0.0.1:9".parse().unwrap());
    let r = match kind {
        "plain" => sock.send(one).await.0,
        "vec" => sock.send_vectored(chunks.clone()).await.0,
        "to" => sock.send_to(one, dest).await.0,
        "tovec" => sock.send_to_vectored(chunks.clone(), dest).await.0,
        "msg" => sock.send_msg(one, Vec::<u8>::new(), dest).await.0,
        "msgvec" => sock.send_msg_vectored(chunks.clone(), Vec::<u8>::new(), dest).await.0,
        "zc" => zc_done(sock.send_zerocopy(one.clone()).await, one.clone(), ex).await,
        "zcvec" => zc_done(sock.send_zerocopy_vectored(chunks.clone()).await, chunks.clone(), ex).await,
        "tozc" => zc_done(sock.send_to_zerocopy(one.clone(), dest).await, one.clone(), ex).await,
        "tozcvec" => zc_done(sock.send_to_zerocopy_vectored(chunks.clone(), dest).await, chunks.clone(), ex).await,
        "msgzc" => zc_done(sock.send_msg_zerocopy(one.clone(), Vec::<u8>::new(), dest).await, (one.clone(), Vec::<u8>::new()), ex).await,
        "msgzcvec" => zc_done(sock.send_msg_zerocopy_vectored(chunks.clone(), Vec::<u8>::new(), dest).await, (chunks.clone(), Vec::<u8>::new()), ex).await,
        other => panic!("bad datagram send kind {other}"),
    };
    match r {
        Err(e) if kind.contains("zc") && is_unsupported(&e) => {
            caps.borrow_mut().zc_unsupported = true;
            // fall back to the copying flavour so that the rest of the case keeps its meaning
            sock.send(chunks.concat()).await.0
        }
        r => r,
    }
}

type DRecv = io::Result<(usize, Vec<Mem>, Option<std::net::SocketAddr>, Option<(usize, usize, u32)>)>;

/// `recv_msg` / `recv_msg_vectored` with a control buffer of `N` bytes (unaligned sizes included)
async fn drecv_msg<const N: usize>(sock: &UdpSocket, vectored: bool, mut mems: Vec<Mem>) -> DRecv {
    if vectored {
        let BufResult(r, (m, c)) = sock.recv_msg_vectored(mems, AncillaryBuf::<N>::new()).await;
        r.map(|(n, cl, a, fl)| (n, m, Some(a), Some((cl, c.as_init().len(), fl.bits() as u32))))
    } else {
        let BufResult(r, (m, c)) = sock.recv_msg(mems.pop().unwrap(), AncillaryBuf::<N>::new()).await;
        r.map(|(n, cl, a, fl)| (n, vec![m], Some(a), Some((cl, c.as_init().len(), fl.bits() as u32))))
    }
}

async fn drecv_call(sock: &UdpSocket, kind: &str, mut mems: Vec<Mem>) -> DRecv {
    // `msg:<cap>` / `msgvec:<cap>` choose the control buffer size
    if let Some((k, cap)) = kind.split_once(':') {
        let v = k == "msgvec";
        return match cap {
            "1" => drecv_msg::<1>(sock, v, mems).await,
            "13" => drecv_msg::<13>(sock, v, mems).await,
            "20" => drecv_msg::<20>(sock, v, mems).await,
            "33" => drecv_msg::<33>(sock, v, mems).await,
            "64" => drecv_msg::<64>(sock, v, mems).await,
            other => panic!("bad control capacity {other}"),
        };
    }
    match kind {
        "plain" => {
            let BufResult(r, m) = sock.recv(mems.pop().unwrap()).await;
            r.map(|n| (n, vec![m], None, None))
        }
        "vec" => {
            let BufResult(r, m) = sock.recv_vectored(mems).await;
            r.map(|n| (n, m, None, None))
        }
        "from" => {
            let BufResult(r, m) = sock.recv_from(mems.pop().unwrap()).await;
            r.map(|(n, a)| (n, vec![m], Some(a), None))
        }
        "fromvec" => {
            let BufResult(r, m) = sock.recv_from_vectored(mems).await;
            r.map(|(n, a)| (n, m, Some(a), None))
        }
        "msg" => {
            let BufResult(r, (m, c)) = sock.recv_msg(mems.pop().unwrap(), AncillaryBuf::<64>::new()).await;
            r.map(|(n, cl, a, fl)| (n, vec![m], Some(a), Some((cl, c.as_init().len(), fl.bits() as u32))))
        }
        "msgvec" => {
            let BufResult(r, (m, c)) = sock.recv_msg_vectored(mems, AncillaryBuf::<64>::new()).await;
            r.map(|(n, cl, a, fl)| (n, m, Some(a), Some((cl, c.as_init().len(), fl.bits() as u32))))
        }
        other => panic!("bad datagram recv kind {other}"),
    }
}

#[allow(clippy::too_many_arguments)]
fn drecv_finish(ex: &RefCell<Exec>, line: &str, w: &mut DgramWorld, d: usize, drv: &str, kind: &str, shapes: &str, r: DRecv) -> String {
    let cap: usize = mem_caps(&parse_shapes(shapes)).iter().sum();
    match r {
        Ok((n, mems, from, ctl)) => {
            // what the caller reads back: the first min(cap_i, remaining) visible bytes of each member
            let mut data = vec![];
            let mut left = n;
            for m in &mems {
                if left == 0 {
                    break;
                }
                let k = m.capn().min(left);
                data.extend_from_slice(&m.vis()[..k.min(m.vis().len())]);
                left -= k;
            }
            let fname = from.map(|a| from_name(w, Some(a)));
            let gap = kind.contains("vec") && has_prefilled_gap(&parse_shapes(shapes));
            if gap && data.len() < n {
                // finding F141 (recorded for streams as well): the received bytes are hidden
                w.queue[d].pop_front();
                ex.borrow_mut().fail("F141:recv-vectored-prefilled", format!("{line}: n={n} caller sees [{}]", show_mems(&mems)));
            } else {
                check_dgram(ex, line, w, d, drv, kind, &data, cap, fname, ctl.map(|c| c.2 & MSG_TRUNC != 0));
                if n != data.len() {
                    ex.borrow_mut().fail("C14:dgram-mismatch", format!("{line}: n={n} but {} bytes visible", data.len()));
                }
            }
            let mut o = format!("n={n} {}", show_mems(&mems));
            if let Some(fname) = fname {
                o.push_str(&format!(" from={fname}"));
            }
            if let Some((cl, cv, fl)) = ctl {
                o.push_str(&format!(" ctl={cl}:{cv} flags={}", flag_str(fl)));
            }
            o
        }
        Err(e) => err_str(&e),
    }
}

/// after a failure that leaves harness and socket out of step: throw away what is queued on both sides
fn resync_dgram(w: &mut DgramWorld, p: usize, d: usize) {
    let fd = w.socks[p].as_raw_fd();
    let mut b = [0u8; 8];
    for _ in 0..64 {
        let r = unsafe { libc::recv(fd, b.as_mut_ptr() as *mut libc::c_void, b.len(), libc::MSG_DONTWAIT) };
        if r < 0 {
            break;
        }
    }
    w.queue[d].clear();
}

async fn lock_dgram(case: &Case, tp: &str, drv: &str, buflen: usize, tos: bool, ex: &RefCell<Exec>, caps: &RefCell<Caps>) -> Vec<String> {
    let (a, b, aa, ba) = dgram_pair(tp, tos).await;
    let mut w = DgramWorld { socks: [a, b], addrs: [aa, ba], queue: [VecDeque::new(), VecDeque::new()] };
    let mut out = vec!["ok".to_string()];
    for line in &case.lines[1..] {
        let f: Vec<&str> = line.split_whitespace().collect();
        let p = pidx(f[1]);
        let d = 1 - p;
        let o = match f[0] {
            "dsend" => {
                let chunks = parse_chunks(f[3]);
                let flat = chunks.concat();
                ex.borrow_mut().tag(format!("dsend-{}", f[2]));
                match dsend(&w.socks[p], w.addrs[1 - p], f[2], chunks, ex, caps).await {
                    Ok(n) => {
                        if n != flat.len() {
                            ex.borrow_mut().fail("C14:dgram-mismatch", format!("{line}: send reported {n} of {} bytes", flat.len()));
                        }
                        w.queue[p].push_back(flat);
                        format!("sent {n}")
                    }
                    Err(e) => err_str(&e),
                }
            }
            "dpre" => {
                // the receive is submitted first and completes when the datagram arrives
                let (rkind, shapes, skind) = (f[2], f[3], f[4]);
                let chunks = parse_chunks(f[5]);
                let flat = chunks.concat();
                ex.borrow_mut().tag(format!("drecv-{rkind}"));
                ex.borrow_mut().tag(format!("dsend-{skind}"));
                ex.borrow_mut().tag("recv-before-send");
                let mems = parse_shapes(shapes);
                let (r, sres) = futures_util::join!(drecv_call(&w.socks[p], rkind, mems), async {
                    compio_runtime::time::sleep(Duration::from_millis(1)).await;
                    dsend(&w.socks[d], w.addrs[p], skind, chunks, ex, caps).await
                });
                let so = match sres {
                    Ok(n) => {
                        w.queue[d].push_back(flat);
                        format!("sent {n}")
                    }
                    Err(e) => err_str(&e),
                };
                let ro = drecv_finish(ex, line, &mut w, d, drv, rkind, shapes, r);
                format!("{so} | {ro}")
            }
            _ if w.queue[d].is_empty() => "idle".to_string(),
            "drecv" => {
                if !readable(w.socks[p].as_raw_fd(), 3000) {
                    ex.borrow_mut().fail("C14:dgram-mismatch", format!("{line}: datagram sent but never arrived"));
                }
                let kind = f[2];
                let mems = parse_shapes(f[3]);
                ex.borrow_mut().tag(format!("drecv-{kind}"));
                let r = match compio_runtime::time::timeout(Duration::from_secs(2), drecv_call(&w.socks[p], kind, mems)).await {
                    Ok(r) => r,
                    Err(_) => {
                        ex.borrow_mut().fail("C14:dgram-mismatch", format!("{line}: a datagram is in flight but the receive did not complete within 2 s"));
                        resync_dgram(&mut w, p, d);
                        Err(io::Error::new(io::ErrorKind::TimedOut, "recv"))
                    }
                };
                drecv_finish(ex, line, &mut w, d, drv, kind, f[3], r)
            }
            "drecvm" => {
                readable(w.socks[p].as_raw_fd(), 3000);
                let kind = f[2];
                let len: usize = f[3].parse().unwrap();
                let cap = if len == 0 { buflen } else { len.min(buflen) };
                ex.borrow_mut().tag(format!("drecv-{kind}"));
                let sock = &w.socks[p];
                type R = io::Result<Option<(Vec<u8>, Option<std::net::SocketAddr>, Option<(usize, u32)>)>>;
                let r: R = match compio_runtime::time::timeout(Duration::from_secs(2), async {
                    match kind {
                        "managed" => sock.recv_managed(len).await.map(|o| o.map(|b| (b.to_vec(), None, None))),
                        "frommanaged" => sock.recv_from_managed(len).await.map(|o| o.map(|(b, a)| (b.to_vec(), Some(a), None))),
                        "msgmanaged" => sock
                            .recv_msg_managed(len, AncillaryBuf::<64>::new())
                            .await
                            .map(|o| o.map(|(b, c, a, fl)| (b.to_vec(), Some(a), Some((c.as_init().len(), fl.bits() as u32))))),
                        other => panic!("bad managed datagram kind {other}"),
                    }
                })
                .await
                {
                    Ok(r) => r,
                    Err(_) => {
                        ex.borrow_mut().fail("C14:dgram-mismatch", format!("{line}: a datagram is in flight but the managed receive did not complete within 2 s"));
                        Err(io::Error::new(io::ErrorKind::TimedOut, "recv"))
                    }
                };
                match r {
                    Ok(Some((data, from, ctl))) => {
                        let fname = from.map(|a| from_name(&w, Some(a)));
                        check_dgram(ex, line, &mut w, d, drv, kind, &data, cap, fname, ctl.map(|c| c.1 & MSG_TRUNC != 0));
                        let mut o = format!("some {}", hex(&data));
                        if let Some(fname) = fname {
                            o.push_str(&format!(" from={fname}"));
                        }
                        if let Some((cv, fl)) = ctl {
                            o.push_str(&format!(" ctl={cv} flags={}", flag_str(fl)));
                        }
                        o
                    }
                    Ok(None) => {
                        // the kernel returned 0: an empty datagram is reported as `None`
                        match w.queue[d].pop_front() {
                            Some(s) if s.is_empty() || cap == 0 => {}
                            other => ex.borrow_mut().fail("C14:dgram-mismatch", format!("{line}: Ok(None) for datagram {:?}", other.map(|s| hex(&s)))),
                        }
                        "none".into()
                    }
                    Err(e) => err_str(&e),
                }
            }
            "dmulti" => {
                readable(w.socks[p].as_raw_fd(), 3000);
                let kind = f[2];
                let clen: usize = f[3].parse().unwrap();
                let count = w.queue[d].len();
                ex.borrow_mut().tag(format!("drecv-{kind}"));
                // (data, from, flags, ancillary length)
                let mut items: Vec<(Vec<u8>, Option<&'static str>, Option<u32>, Option<usize>)> = vec![];
                let mut last_err: Option<String> = None;
                {
                    let sock = &w.socks[p];
                    let mut errs = 0;
                    macro_rules! drain {
                        ($stream:expr, $conv:expr, $end_is_empty_datagram:expr) => {{
                            let mut s = std::pin::pin!($stream);
                            while items.len() < count {
                                match compio_runtime::time::timeout(Duration::from_secs(3), s.next()).await {
                                    Err(_) => {
                                        last_err = Some("err:timeout".into());
                                        break;
                                    }
                                    Ok(None) => {
                                        if $end_is_empty_datagram {
                                            // `recv_multi` (plain buffers) reports a 0-byte result as the end of the
                                            // stream: that is how an empty datagram arrives; the caller starts over
                                            items.push((vec![], None, None, None));
                                            ex.borrow_mut().tag("multi-empty-datagram-ends-stream");
                                        } else {
                                            ex.borrow_mut().fail(
                                                "C14:dgram-mismatch",
                                                format!("{line}: the stream ended on a live socket after {} of {count} datagrams (datagram dropped)", items.len()),
                                            );
                                            last_err = Some("end".into());
                                        }
                                        break;
                                    }
                                    Ok(Some(Ok(it))) => {
                                        errs = 0;
                                        #[allow(clippy::redundant_closure_call)]
                                        items.push($conv(it));
                                    }
                                    Ok(Some(Err(e))) => {
                                        errs += 1;
                                        if e.kind() != io::ErrorKind::ResourceBusy || errs > 16 {
                                            last_err = Some(err_str(&e));
                                            break;
                                        }
                                        ex.borrow_mut().tag("multi-enobufs");
                                    }
                                }
                            }
                        }};
                    }
                    match kind {
                        "multi" => {
                            while items.len() < count && last_err.is_none() {
                                drain!(sock.recv_multi(0), |b: compio_driver::BufferRef| (b.to_vec(), None, None, None), true)
                            }
                        }
                        "frommulti" => drain!(sock.recv_from_multi(), |r: compio_driver::op::RecvFromMultiResult| (
                            r.data().to_vec(),
                            Some(from_name(&w, r.addr().and_then(|a| a.as_socket()))),
                            None,
                            None
                        ), false),
                        "msgmulti" => drain!(sock.recv_msg_multi(clen), |r: compio_driver::op::RecvMsgMultiResult| (
                            r.data().to_vec(),
                            Some(from_name(&w, r.addr().and_then(|a| a.as_socket()))),
                            Some(r.flags().bits() as u32),
                            Some(r.ancillary().len())
                        ), false),
                        other => panic!("bad multishot datagram kind {other}"),
                    }
                }
                let cap = match (kind, drv) {
                    ("multi", _) => buflen,
                    (_, "uring") => buflen.saturating_sub(16 + 128 + clen),
                    _ => buflen,
                };
                let mut shown = vec![];
                for (data, from, fl, anc) in &items {
                    check_dgram(ex, line, &mut w, d, drv, kind, data, cap, *from, fl.map(|f| f & MSG_TRUNC != 0));
                    let mut o = hex(data);
                    if let Some(f) = from {
                        o.push_str(&format!("/{f}"));
                    }
                    if let Some(fl) = fl {
                        o.push_str(&format!("/{}", flag_str(*fl)));
                    }
                    if let Some(a) = anc {
                        o.push_str(&format!("/ctl={a}"));
                    }
                    shown.push(o);
                }
                if items.len() < count && last_err.is_none() {
                    ex.borrow_mut().fail("C14:dgram-mismatch", format!("{line}: {} of {count} datagrams delivered", items.len()));
                }
                if items.len() < count {
                    // whatever the dropped stream still held is gone: start the following lines from a clean state
                    resync_dgram(&mut w, p, d);
                }
                match last_err {
                    Some(e) => format!("{} {e}", shown.join(";")),
                    None => shown.join(";"),
                }
            }
            other => panic!("bad lockstep datagram op {other}"),
        };
        out.push(o);
    }
    out
}

// ---------------------------------------------------------------------------------------------
// concurrent stream cases

fn gen_byte(seed: u64, d: u64, i: u64) -> u8 {
    ((i * 31 + (i / 256) * 7 + seed + d * 101) % 256) as u8
}

fn gen_range(seed: u64, d: u64, from: u64, n: usize) -> Vec<u8> {
    (0..n as u64).map(|k| gen_byte(seed, d, from + k)).collect()
}

fn fnv(h: &mut u64, bs: &[u8]) {
    for b in bs {
        *h ^= *b as u64;
        *h = h.wrapping_mul(0x0000_0100_0000_01b3);
    }
}

/// `kind:n+n+..` items separated by `,`; `-` = nothing
fn parse_spec(s: &str) -> Vec<(String, Vec<usize>)> {
    if s == "-" {
        return vec![];
    }
    s.split(',')
        .map(|it| {
            let (k, ns) = it.split_once(':').expect("spec item");
            (k.to_string(), ns.split('+').map(|n| n.parse().expect("size")).collect())
        })
        .collect()
}

struct RxSummary {
    len: u64,
    hash: u64,
    eof: bool,
    bad_at: Option<u64>,
    err: Option<String>,
}

async fn conc_writer(w: Rc<S>, spec: Vec<(String, Vec<usize>)>, seed: u64, d: u64, ex: Rc<RefCell<Exec>>, caps: Rc<RefCell<Caps>>) -> Result<u64, String> {
    let mut off = 0u64;
    for (kind, sizes) in spec {
        let chunks: Vec<Vec<u8>> = sizes
            .iter()
            .map(|n| {
                let c = gen_range(seed, d, off, *n);
                off += *n as u64;
                c
            })
            .collect();
        ex.borrow_mut().tag(format!("csend-{kind}"));
        let total: usize = chunks.iter().map(|c| c.len()).sum();
        match send_all(&w, &kind, chunks, &ex, &caps).await {
            Ok(n) if n == total => {}
            Ok(n) => return Err(format!("send {kind} delivered {n} of {total}")),
            Err(e) => return Err(err_str(&e)),
        }
    }
    let r = on!(&*w, s => { let mut s = s; s.shutdown().await });
    r.map_err(|e| err_str(&e))?;
    Ok(off)
}

async fn conc_reader(r: Rc<S>, spec: Vec<(String, Vec<usize>)>, seed: u64, d: u64, ex: Rc<RefCell<Exec>>) -> RxSummary {
    let mut sum = RxSummary { len: 0, hash: 0xcbf2_9ce4_8422_2325, eof: false, bad_at: None, err: None };
    let mut i = 0usize;
    let mut busy = 0usize;
    if spec.is_empty() {
        return sum;
    }
    fn feed(sum: &mut RxSummary, seed: u64, d: u64, data: &[u8]) {
        for (k, b) in data.iter().enumerate() {
            if sum.bad_at.is_none() && *b != gen_byte(seed, d, sum.len + k as u64) {
                sum.bad_at = Some(sum.len + k as u64);
            }
        }
        fnv(&mut sum.hash, data);
        sum.len += data.len() as u64;
    }
    loop {
        let (kind, sizes) = &spec[i % spec.len()];
        i += 1;
        ex.borrow_mut().tag(format!("crecv-{kind}"));
        match kind.as_str() {
            "managed" => {
                let res = on!(&*r, s => { let mut s = s; s.read_managed(sizes[0]).await });
                match res {
                    Ok(Some(b)) => feed(&mut sum, seed, d, &b),
                    Ok(None) => {
                        sum.eof = true;
                        return sum;
                    }
                    Err(e) if e.kind() == io::ErrorKind::ResourceBusy && busy < 5000 => {
                        // the pool is shared with the other reader's multishot stream: retry
                        busy += 1;
                        ex.borrow_mut().tag("managed-enobufs");
                        compio_runtime::time::sleep(Duration::from_micros(200)).await;
                    }
                    Err(e) => {
                        sum.err = Some(err_str(&e));
                        return sum;
                    }
                }
            }
            "multi" => {
                // drains to the end of the stream
                let mut errs = 0;
                let len = sizes[0];
                macro_rules! run {
                    ($s:expr) => {{
                        let mut s = $s;
                        let mut st = std::pin::pin!(s.read_multi(len));
                        loop {
                            match st.next().await {
                                None => {
                                    sum.eof = true;
                                    break;
                                }
                                Some(Ok(b)) => {
                                    errs = 0;
                                    feed(&mut sum, seed, d, &b)
                                }
                                Some(Err(e)) => {
                                    errs += 1;
                                    if e.kind() != io::ErrorKind::ResourceBusy || errs > 2000 {
                                        sum.err = Some(err_str(&e));
                                        break;
                                    }
                                    // the pool is shared with the other reader: let it run and hand buffers back
                                    compio_runtime::time::sleep(Duration::from_micros(200)).await;
                                }
                            }
                        }
                    }};
                }
                match &*r {
                    S::Tcp(s) => run!(s),
                    S::Unix(s) => run!(s),
                }
                return sum;
            }
            _ => {
                let mems: Vec<Mem> = sizes.iter().map(|c| Mem::V(Vec::with_capacity(*c))).collect();
                match recv_once(&r, kind, mems).await {
                    Ok(o) => {
                        if o.n == 0 {
                            sum.eof = true;
                            return sum;
                        }
                        let data: Vec<u8> = o.mems.iter().flat_map(|m| m.vis().iter().copied()).collect();
                        if data.len() != o.n {
                            ex.borrow_mut().fail("C14:stream-mismatch", format!("{kind} reported n={} but {} bytes are visible", o.n, data.len()));
                        }
                        feed(&mut sum, seed, d, &data);
                    }
                    Err(e) => {
                        sum.err = Some(err_str(&e));
                        return sum;
                    }
                }
            }
        }
    }
}

async fn conc_case(line: &str, ex: Rc<RefCell<Exec>>, caps: Rc<RefCell<Caps>>) -> String {
    let f: Vec<&str> = line.split_whitespace().collect();
    let tp = f[1];
    let seed: u64 = f[5].parse().unwrap();
    let split = f[6] == "split";
    let get = |k: &str| parse_spec(f.iter().find_map(|x| x.strip_prefix(k)).expect("spec"));
    let (sa, sb, ra, rb) = (get("SA="), get("SB="), get("RA="), get("RB="));
    let (a, b) = stream_pair(tp).await;
    let (mut pa, mut pb) = (Peer::Whole(a), Peer::Whole(b));
    if split {
        pa.split();
        pb.split();
    }
    fn halves(p: Peer) -> (Rc<S>, Rc<S>) {
        match p {
            Peer::Whole(s) => {
                let s = Rc::new(s);
                (s.clone(), s)
            }
            Peer::Split(r, w) => (Rc::new(r), Rc::new(w)),
            Peer::Gone => unreachable!(),
        }
    }
    let (ar, aw) = halves(pa);
    let (br, bw) = halves(pb);
    let wa = compio_runtime::spawn(conc_writer(aw, sa, seed, 0, ex.clone(), caps.clone()));
    let wb = compio_runtime::spawn(conc_writer(bw, sb, seed, 1, ex.clone(), caps.clone()));
    let rbt = compio_runtime::spawn(conc_reader(br, rb, seed, 0, ex.clone()));
    let rat = compio_runtime::spawn(conc_reader(ar, ra, seed, 1, ex.clone()));
    let all = async { (wa.await, wb.await, rbt.await, rat.await) };
    let Ok((wa, wb, rb, ra)) = compio_runtime::time::timeout(Duration::from_secs(30), all).await else {
        ex.borrow_mut().fail("C14:eof-missing", format!("{line}: transfer did not finish within 30 s"));
        return "timeout".into();
    };
    let mut parts = vec![];
    for (name, w, r) in [("a>b", wa, rb), ("b>a", wb, ra)] {
        let sent = match w {
            Ok(Ok(n)) => n,
            Ok(Err(e)) => {
                ex.borrow_mut().fail("C14:stream-mismatch", format!("{line}: {name} writer failed: {e}"));
                0
            }
            Err(_) => {
                ex.borrow_mut().fail("C14:panic", format!("{line}: {name} writer panicked"));
                0
            }
        };
        let Ok(r) = r else {
            ex.borrow_mut().fail("C14:panic", format!("{line}: {name} reader panicked"));
            parts.push(format!("{name} panic"));
            continue;
        };
        if let Some(e) = &r.err {
            ex.borrow_mut().fail("C14:stream-mismatch", format!("{line}: {name} reader failed: {e}"));
        }
        if let Some(at) = r.bad_at {
            ex.borrow_mut().fail("C14:stream-mismatch", format!("{line}: {name} byte {at} differs from what was sent"));
        }
        // a reader with an empty spec does not read at all
        let reads = r.len > 0 || r.eof || r.err.is_some();
        if reads && r.len != sent {
            ex.borrow_mut().fail("C14:stream-mismatch", format!("{line}: {name} received {} of {sent} bytes", r.len));
        }
        if reads && !r.eof && r.err.is_none() {
            ex.borrow_mut().fail("C14:eof-missing", format!("{line}: {name} no end of stream after shutdown"));
        }
        parts.push(format!("{name} {} {:016x}{}", r.len, r.hash, if r.eof { " eof" } else { "" }));
    }
    parts.join(" | ")
}

// ---------------------------------------------------------------------------------------------
// accept / incoming

enum Listener {
    Tcp(TcpListener, std::net::SocketAddr),
    Unix(UnixListener, String),
}

async fn listener(tp: &str) -> Listener {
    match tp {
        "tcp" => {
            let l = TcpListener::bind("127.0.0.1:0").await.expect("bind");
            let a = l.local_addr().unwrap();
            Listener::Tcp(l, a)
        }
        _ => {
            let p = sock_path();
            Listener::Unix(UnixListener::bind(&p).await.expect("bind unix"), p)
        }
    }
}

async fn read_id(s: &S) -> io::Result<u8> {
    let BufResult(r, b) = match compio_runtime::time::timeout(Duration::from_secs(2), async {
        on!(s, x => { let mut x = x; x.read(Vec::with_capacity(1)).await })
    })
    .await
    {
        Ok(r) => r,
        Err(_) => return Err(io::Error::new(io::ErrorKind::TimedOut, "no id byte within 2 s")),
    };
    match r? {
        1 => Ok(b[0]),
        _ => Err(io::Error::new(io::ErrorKind::UnexpectedEof, "no id byte")),
    }
}

/// live accepted streams are different sockets: pairwise distinct descriptors and distinct peers
fn check_aliases(ex: &Rc<RefCell<Exec>>, line: &str, conns: &[S]) {
    let fds: Vec<RawFd> = conns.iter().map(|c| c.fd()).collect();
    for i in 0..fds.len() {
        for j in i + 1..fds.len() {
            if fds[i] == fds[j] {
                ex.borrow_mut().fail("C14:accept-aliased", format!("{line}: accepted streams #{i} and #{j} are both descriptor {}", fds[i]));
            }
        }
    }
    let peers: Vec<Option<std::net::SocketAddr>> = conns
        .iter()
        .map(|c| match c {
            S::Tcp(s) => s.peer_addr().ok(),
            S::Unix(_) => None,
        })
        .collect();
    for i in 0..peers.len() {
        for j in i + 1..peers.len() {
            if peers[i].is_some() && peers[i] == peers[j] {
                ex.borrow_mut().fail("C14:accept-aliased", format!("{line}: accepted streams #{i} and #{j} have the same peer {:?}", peers[i]));
            }
        }
    }
}

async fn accept_case(line: &str, ex: Rc<RefCell<Exec>>) -> String {
    let f: Vec<&str> = line.split_whitespace().collect();
    let (tp, drv, mode) = (f[1], f[2], f[3]);
    let k: usize = f[4].parse().unwrap();
    let extra: usize = f[5].parse().unwrap();
    let base = stable_fds();
    let mut ids: Vec<u8> = vec![];
    let mut closed = 0usize;
    {
        let l = listener(tp).await;
        // all clients connect first (the backlog holds them), each announces its id
        let mut clients: Vec<S> = vec![];
        for i in 0..k + extra {
            let c = match &l {
                Listener::Tcp(_, a) => S::Tcp(TcpStream::connect(*a).await.expect("connect")),
                Listener::Unix(_, p) => S::Unix(UnixStream::connect(p).await.expect("connect unix")),
            };
            let r = on!(&c, x => { let mut x = x; x.write(vec![i as u8]).await.0 });
            r.expect("id byte");
            clients.push(c);
        }
        // every client is connected: the path is not needed any more
        if let Listener::Unix(_, p) = &l {
            let _ = std::fs::remove_file(p);
        }
        let mut conns: Vec<S> = vec![];
        match mode {
            "single" => {
                for _ in 0..k {
                    let c = match &l {
                        Listener::Tcp(l, _) => S::Tcp(l.accept().await.expect("accept").0),
                        Listener::Unix(l, _) => S::Unix(l.accept().await.expect("accept").0),
                    };
                    conns.push(c);
                }
            }
            "incoming" => {
                match &l {
                    Listener::Tcp(l, _) => {
                        let mut inc = l.incoming();
                        for _ in 0..k {
                            match compio_runtime::time::timeout(Duration::from_secs(3), inc.next()).await {
                                Ok(Some(Ok(c))) => conns.push(S::Tcp(c)),
                                other => {
                                    ex.borrow_mut().fail("C14:accept-dup-or-missing", format!("{line}: incoming yielded {:?}", other.map(|o| o.map(|r| r.map(|_| ())))));
                                    break;
                                }
                            }
                        }
                    }
                    Listener::Unix(l, _) => {
                        let mut inc = l.incoming();
                        for _ in 0..k {
                            match compio_runtime::time::timeout(Duration::from_secs(3), inc.next()).await {
                                Ok(Some(Ok(c))) => conns.push(S::Unix(c)),
                                other => {
                                    ex.borrow_mut().fail("C14:accept-dup-or-missing", format!("{line}: incoming yielded {:?}", other.map(|o| o.map(|r| r.map(|_| ())))));
                                    break;
                                }
                            }
                        }
                    }
                }
                // the stream is dropped here: the multishot accept is cancelled
            }
            other => panic!("bad accept mode {other}"),
        }
        check_aliases(&ex, line, &conns);
        // every accepted stream — also the early ones, after all later accepts happened — is connected to
        // its own client: it carries that client's id and its answer reaches that client
        for c in &conns {
            match read_id(c).await {
                Ok(id) => {
                    ids.push(id);
                    let r = on!(c, x => { let mut x = x; x.write(vec![id ^ 0x80]).await.0 });
                    if let Err(e) = r {
                        ex.borrow_mut().fail("C14:stream-mismatch", format!("{line}: answer on accepted connection {id}: {e}"));
                    }
                }
                Err(e) => ex.borrow_mut().fail("C14:accept-dup-or-missing", format!("{line}: accepted connection carries no id: {e}")),
            }
        }
        for (i, c) in clients.iter().enumerate().take(conns.len()) {
            let r = compio_runtime::time::timeout(Duration::from_secs(2), async {
                on!(c, x => { let mut x = x; x.read(Vec::with_capacity(1)).await })
            })
            .await;
            match r {
                Ok(BufResult(Ok(1), b)) if b[0] == i as u8 ^ 0x80 => {}
                other => ex.borrow_mut().fail(
                    "C14:stream-mismatch",
                    format!("{line}: client {i} did not get the answer of its own accepted stream: {:?}", other.map(|BufResult(r, b)| (r.map_err(|e| e.kind()), b))),
                ),
            }
        }
        // let the driver finish the cancelled accept
        compio_runtime::time::sleep(Duration::from_millis(8)).await;
        // listener + yielded connections + client ends must be all that is open
        let now = open_fds();
        let expect = base + 1 + conns.len() + clients.len();
        if now > expect {
            ex.borrow_mut().fail("C14:fd-leak", format!("{line}: {now} descriptors open while listener, {} yielded and {} client sockets are alive (expected {expect})", conns.len(), clients.len()));
        }
        // which of the never-yielded connections were closed by compio (the client sees end of stream / reset)?
        for c in &clients[k..] {
            let r = compio_runtime::time::timeout(Duration::from_millis(25), async {
                on!(c, x => { let mut x = x; x.read(Vec::with_capacity(1)).await.0 })
            })
            .await;
            match r {
                Ok(Ok(0)) | Ok(Err(_)) => closed += 1,
                Ok(Ok(_)) => ex.borrow_mut().fail("C14:stream-mismatch", format!("{line}: a client received bytes nobody sent")),
                Err(_) => {}
            }
        }
    }
    compio_runtime::time::sleep(Duration::from_millis(5)).await;
    let end = open_fds();
    if end > base {
        ex.borrow_mut().fail("C14:fd-leak", format!("{line}: {end} descriptors open after everything was dropped, {base} before"));
    }
    let mut sorted = ids.clone();
    sorted.sort();
    let want: Vec<u8> = (0..k as u8).collect();
    if sorted != want {
        ex.borrow_mut().fail("C14:accept-dup-or-missing", format!("{line}: accepted ids {ids:?}, expected each of {want:?} once"));
    }
    let _ = drv;
    format!("ids={} closed={closed}", sorted.iter().map(|i| i.to_string()).collect::<Vec<_>>().join(","))
}

/// a std (blocking) client socket of the burst cases
enum StdClient {
    Tcp(std::net::TcpStream),
    Unix(std::os::unix::net::UnixStream),
}

impl StdClient {
    fn connect(l: &Listener) -> io::Result<Self> {
        Ok(match l {
            Listener::Tcp(_, a) => StdClient::Tcp(std::net::TcpStream::connect(a)?),
            Listener::Unix(_, p) => StdClient::Unix(std::os::unix::net::UnixStream::connect(p)?),
        })
    }
    fn write_all(&mut self, b: &[u8]) -> io::Result<()> {
        use std::io::Write;
        match self {
            StdClient::Tcp(s) => s.write_all(b),
            StdClient::Unix(s) => s.write_all(b),
        }
    }
    fn read_exact(&mut self, b: &mut [u8]) -> io::Result<()> {
        use std::io::Read;
        match self {
            StdClient::Tcp(s) => {
                s.set_read_timeout(Some(Duration::from_secs(3)))?;
                s.read_exact(b)
            }
            StdClient::Unix(s) => {
                s.set_read_timeout(Some(Duration::from_secs(3)))?;
                s.read_exact(b)
            }
        }
    }
}

/// `accept <tp> <drv> burst <n> <ring capacity>`: the multishot accept is armed by a first connection,
/// then `n` blocking connects are made on the runtime thread itself (nothing reaps completions
/// meanwhile, so a small completion queue fills up and the kernel ends the multishot accept with a
/// final, successful completion); every connection must come out of `incoming()` exactly once and be
/// connected to its own client
async fn accept_burst_case(line: &str, ex: Rc<RefCell<Exec>>) -> String {
    let f: Vec<&str> = line.split_whitespace().collect();
    let tp = f[1];
    let n: usize = f[4].parse().unwrap();
    let base = stable_fds();
    let mut ids: Vec<u8> = vec![];
    {
        let l = listener(tp).await;
        let mut conns: Vec<S> = vec![];
        let mut clients: Vec<StdClient> = vec![];
        macro_rules! run {
            ($l:expr, $wrap:expr) => {{
                let mut inc = $l.incoming();
                // arm the accept
                let mut first = StdClient::connect(&l).expect("connect");
                first.write_all(&[0xff; 4]).expect("tag");
                clients.push(first);
                match compio_runtime::time::timeout(Duration::from_secs(3), inc.next()).await {
                    Ok(Some(Ok(c))) => conns.push($wrap(c)),
                    other => ex.borrow_mut().fail("C14:accept-dup-or-missing", format!("{line}: first accept: {:?}", other.map(|o| o.map(|r| r.map(|_| ()))))),
                }
                // the burst: no await in between
                for i in 0..n {
                    let mut c = StdClient::connect(&l).expect("connect");
                    c.write_all(&[i as u8; 4]).expect("tag");
                    clients.push(c);
                }
                for k in 0..n {
                    match compio_runtime::time::timeout(Duration::from_secs(3), inc.next()).await {
                        Ok(Some(Ok(c))) => conns.push($wrap(c)),
                        other => {
                            ex.borrow_mut().fail("C14:accept-dup-or-missing", format!("{line}: accept #{k} of the burst: {:?}", other.map(|o| o.map(|r| r.map(|_| ())))));
                            break;
                        }
                    }
                }
            }};
        }
        match &l {
            Listener::Tcp(tl, _) => run!(tl, S::Tcp),
            Listener::Unix(ul, _) => run!(ul, S::Unix),
        }
        if let Listener::Unix(_, p) = &l {
            let _ = std::fs::remove_file(p);
        }
        check_aliases(&ex, line, &conns);
        // every accepted connection carries the tag of exactly one client, and answers that client
        for c in conns.iter().skip(1) {
            let Ok(BufResult(r, tag)) = compio_runtime::time::timeout(Duration::from_secs(2), async {
                on!(c, x => { let mut x = x; compio_io::AsyncReadExt::read_exact(&mut x, vec![0u8; 4]).await })
            })
            .await
            else {
                ex.borrow_mut().fail("C14:accept-dup-or-missing", format!("{line}: an accepted connection delivered no tag within 2 s"));
                continue;
            };
            match r {
                Ok(_) if tag.iter().all(|b| *b == tag[0]) => {
                    ids.push(tag[0]);
                    let r = on!(c, x => { let mut x = x; x.write(vec![tag[0] ^ 0x80; 4]).await.0 });
                    if let Err(e) = r {
                        ex.borrow_mut().fail("C14:stream-mismatch", format!("{line}: reply on accepted connection {}: {e}", tag[0]));
                    }
                }
                other => ex.borrow_mut().fail("C14:accept-dup-or-missing", format!("{line}: accepted connection carries tag {tag:?} ({other:?})")),
            }
        }
        let mut sorted = ids.clone();
        sorted.sort();
        if sorted.windows(2).all(|w| w[0] != w[1]) && sorted.len() == n {
            for (i, c) in clients.iter_mut().skip(1).enumerate() {
                let mut reply = [0u8; 4];
                match c.read_exact(&mut reply) {
                    Ok(()) if reply == [i as u8 ^ 0x80; 4] => {}
                    other => ex.borrow_mut().fail("C14:stream-mismatch", format!("{line}: client {i} got {reply:?} ({other:?})")),
                }
            }
        }
        compio_runtime::time::sleep(Duration::from_millis(8)).await;
        let now = open_fds();
        let expect = base + 1 + conns.len() + clients.len();
        if now > expect {
            ex.borrow_mut().fail("C14:fd-leak", format!("{line}: {now} descriptors open while listener, {} yielded and {} client sockets are alive (expected {expect})", conns.len(), clients.len()));
        }
    }
    compio_runtime::time::sleep(Duration::from_millis(5)).await;
    let end = open_fds();
    if end > base {
        ex.borrow_mut().fail("C14:fd-leak", format!("{line}: {end} descriptors open after everything was dropped, {base} before"));
    }
    let mut sorted = ids.clone();
    sorted.sort();
    let want: Vec<u8> = (0..n as u8).collect();
    if sorted != want {
        ex.borrow_mut().fail("C14:accept-dup-or-missing", format!("{line}: accepted tags {ids:?}, expected each of 0..{n} once"));
    }
    format!("ids={} closed=0", sorted.iter().map(|i| i.to_string()).collect::<Vec<_>>().join(","))
}

// ---------------------------------------------------------------------------------------------
// `RecvMsgMultiResult::new` and its accessors on crafted buffers (real parsing code)

fn rmo_case(case: &Case, ex: &Rc<RefCell<Exec>>) -> Vec<String> {
    let first: Vec<&str> = case.lines[0].split_whitespace().collect();
    let buflen: usize = first[1].parse().unwrap();
    // the polling driver's pool can hand out buffers (`pop`); the io_uring result type is constructed explicitly
    let rt = build_rt("poll", 2, buflen);
    let pool = rt.buffer_pool().expect("pool");
    let mut out = vec!["ok".to_string()];
    for line in &case.lines[1..] {
        let f: Vec<&str> = line.split_whitespace().collect();
        let clen: usize = f[1].parse().unwrap();
        let bytes = unhex(f[2]);
        assert!(bytes.len() <= buflen);
        let mut buf = pool.pop().expect("pop");
        {
            let dst = buf.as_uninit();
            for (d, b) in dst.iter_mut().zip(&bytes) {
                d.write(*b);
            }
        }
        unsafe { SetLen::set_len(&mut buf, bytes.len()) };
        let namelen = if bytes.len() >= 4 { u32::from_le_bytes([bytes[0], bytes[1], bytes[2], bytes[3]]) as usize } else { 0 };
        let r = catch(move || unsafe { compio_driver::op::RecvMsgMultiResult::new(buf, clen) });
        let o = match r {
            Err(_) => {
                ex.borrow_mut().tag("rmo-new-panic");
                "new=panic".to_string()
            }
            Ok(res) => {
                ex.borrow_mut().tag("rmo-new-ok");
                let data = match catch(|| res.data().to_vec()) {
                    Ok(d) => {
                        // in bounds: data is a suffix of what was put into the buffer
                        if d.len() > bytes.len() || bytes[bytes.len() - d.len()..] != d[..] {
                            ex.borrow_mut().fail("C14:rmo-out-of-bounds", format!("{line}: data() is not a slice of the buffer"));
                        }
                        hex(&d)
                    }
                    Err(_) => "panic".into(),
                };
                let anc = match catch(|| res.ancillary().to_vec()) {
                    Ok(a) => {
                        if 144 + a.len() > bytes.len() || bytes[144..144 + a.len()] != a[..] {
                            ex.borrow_mut().fail("C14:rmo-out-of-bounds", format!("{line}: ancillary() is not a slice of the buffer"));
                        }
                        hex(&a)
                    }
                    Err(_) => "panic".into(),
                };
                let addr = if namelen > 128 {
                    // `addr()` would copy beyond the 128-byte storage: not executed
                    ex.borrow_mut().tag("rmo-namelen-unchecked");
                    "ub".to_string()
                } else {
                    match catch(|| res.addr().map(|a| unsafe { std::slice::from_raw_parts(a.as_ptr() as *const u8, a.len() as usize).to_vec() })) {
                        Ok(None) => "-".into(),
                        Ok(Some(a)) => hex(&a),
                        Err(_) => "panic".into(),
                    }
                };
                format!("data={data} anc={anc} addr={addr} flags={}", res.flags().bits())
            }
        };
        out.push(o);
    }
    out
}

// ---------------------------------------------------------------------------------------------
// the stream adapter under real kernel events

async fn ms_case(line: &str, ex: Rc<RefCell<Exec>>) -> String {
    use compio_runtime::StreamExt as _;
    let f: Vec<&str> = line.split_whitespace().collect();
    let tp = f[1];
    let len: usize = f[5].parse().unwrap();
    let (a, b) = stream_pair(tp).await;
    let ct = compio_runtime::CancelToken::new();
    let mut toks: Vec<String> = vec![];
    let mut held: Vec<compio_driver::BufferRef> = vec![];
    let mut hold = false;
    let mut sent: VecDeque<u8> = VecDeque::new();
    // `z`: poll the stream to its end, then (stream dropped) read the socket with plain reads
    let mut drained = false;
    let mut want_rest = false;
    macro_rules! run {
        ($b:expr) => {{
            let mut rd = $b;
            let mut st = std::pin::pin!(rd.read_multi(len).with_cancel(ct.clone()));
            for ev in f[6].split(',') {
                match ev.as_bytes()[0] {
                    b'd' => {
                        let data = unhex(&ev[1..]);
                        sent.extend(data.iter().copied());
                        let r = on!(&a, x => { let mut x = x; x.write(data).await.0 });
                        r.expect("ms send");
                        compio_runtime::time::sleep(Duration::from_millis(2)).await;
                    }
                    b's' => {
                        let r = on!(&a, x => { let mut x = x; x.shutdown().await });
                        r.expect("ms shutdown");
                        compio_runtime::time::sleep(Duration::from_millis(2)).await;
                    }
                    b'c' => {
                        ct.clone().cancel();
                        compio_runtime::time::sleep(Duration::from_millis(2)).await;
                    }
                    b'z' => {
                        want_rest = true;
                        for _ in 0..64 {
                            let t = match compio_runtime::time::timeout(Duration::from_millis(300), st.next()).await {
                                Err(_) => "pending".to_string(),
                                Ok(None) => "end".to_string(),
                                Ok(Some(Err(e))) => err_str(&e),
                                Ok(Some(Ok(buf))) => {
                                    let got = buf.to_vec();
                                    let exp: Vec<u8> = sent.iter().take(got.len()).copied().collect();
                                    if exp != got {
                                        ex.borrow_mut().fail("C14:stream-mismatch", format!("{line}: multishot item {} but the peer sent {}", hex(&got), hex(&exp)));
                                    }
                                    let k = got.len().min(sent.len());
                                    sent.drain(..k);
                                    if hold {
                                        held.push(buf);
                                    }
                                    format!("item:{}", hex(&got))
                                }
                            };
                            let stop = t == "end" || t == "pending";
                            drained = t == "end";
                            toks.push(t);
                            if stop {
                                break;
                            }
                        }
                    }
                    b'h' => hold = true,
                    b'r' => {
                        hold = false;
                        held.clear();
                    }
                    b'n' | b'p' => {
                        let wait = if ev.as_bytes()[0] == b'n' { 2000 } else { 30 };
                        let t = match compio_runtime::time::timeout(Duration::from_millis(wait), st.next()).await {
                            Err(_) => "pending".to_string(),
                            Ok(None) => "end".to_string(),
                            Ok(Some(Err(e))) => err_str(&e),
                            Ok(Some(Ok(buf))) => {
                                let got = buf.to_vec();
                                let exp: Vec<u8> = sent.iter().take(got.len()).copied().collect();
                                if exp != got {
                                    ex.borrow_mut().fail("C14:stream-mismatch", format!("{line}: multishot item {} but the peer sent {}", hex(&got), hex(&exp)));
                                }
                                let k = got.len().min(sent.len());
                                sent.drain(..k);
                                if hold {
                                    held.push(buf);
                                }
                                format!("item:{}", hex(&got))
                            }
                        };
                        toks.push(t);
                    }
                    other => panic!("bad ms event {}", other as char),
                }
            }
        }};
    }
    match &b {
        S::Tcp(s) => run!(s),
        S::Unix(s) => run!(s),
    }
    drop(held);
    if want_rest {
        // the stream is gone; whatever the peer sent and the stream did not yield must still be in the socket
        compio_runtime::time::sleep(Duration::from_millis(3)).await;
        let mut rest: Vec<u8> = vec![];
        loop {
            let r = compio_runtime::time::timeout(Duration::from_millis(30), async {
                on!(&b, x => { let mut x = x; x.read(Vec::with_capacity(4096)).await })
            })
            .await;
            match r {
                Ok(BufResult(Ok(n), buf)) if n > 0 => rest.extend_from_slice(&buf[..n]),
                _ => break,
            }
        }
        let missing: Vec<u8> = sent.iter().copied().collect();
        if drained && rest != missing {
            ex.borrow_mut().fail(
                "C14:bytes-lost-after-cancel",
                format!("{line}: the stream ended; sent and not yielded: {}, readable afterwards with plain reads: {}", hex(&missing), hex(&rest)),
            );
        }
        toks.push(format!("rest:{}", hex(&rest)));
    }
    toks.join(" ")
}

fn exec_local(case: &Case) -> Exec {
    let ex = Rc::new(RefCell::new(Exec::new()));
    let caps = Rc::new(RefCell::new(Caps::default()));
    let first: Vec<&str> = case.lines[0].split_whitespace().collect();
    let out = match first[0] {
        "open" => {
            let (tp, drv) = (first[1], first[2]);
            let nbufs: u16 = first[3].parse().unwrap();
            let buflen: usize = first[4].parse().unwrap();
            ex.borrow_mut().tag(format!("lock-{tp}-{drv}"));
            let rt = build_rt(drv, nbufs, buflen);
            let r = catch(|| {
                rt.block_on(async {
                    match tp {
                        "tcp" | "unix" => lock_stream(case, tp, &ex, &caps).await,
                        "udp" | "udg" => lock_dgram(case, tp, drv, buflen, first.get(5) == Some(&"tos"), &ex, &caps).await,
                        _ => panic!("bad transport {tp}"),
                    }
                })
            });
            match r {
                Ok(o) => o,
                Err(p) => {
                    ex.borrow_mut().fail("C14:panic", format!("panic: {p}"));
                    vec![format!("panic"); case.lines.len()]
                }
            }
        }
        "conc" => {
            let (tp, drv) = (first[1], first[2]);
            ex.borrow_mut().tag(format!("conc-{tp}-{drv}"));
            let rt = build_rt(drv, first[3].parse().unwrap(), first[4].parse().unwrap());
            let r = catch(|| rt.block_on(conc_case(&case.lines[0], ex.clone(), caps.clone())));
            match r {
                Ok(o) => vec![o],
                Err(p) => {
                    ex.borrow_mut().fail("C14:panic", format!("panic: {p}"));
                    vec!["panic".into()]
                }
            }
        }
        "accept" => {
            let (tp, drv) = (first[1], first[2]);
            ex.borrow_mut().tag(format!("accept-{tp}-{drv}-{}", first[3]));
            let burst = first[3] == "burst";
            let base = stable_fds();
            let rt = if burst { build_rt_cap(drv, 2, 64, first[5].parse().unwrap()) } else { build_rt(drv, 2, 64) };
            let r = catch(|| {
                if burst {
                    rt.block_on(accept_burst_case(&case.lines[0], ex.clone()))
                } else {
                    rt.block_on(accept_case(&case.lines[0], ex.clone()))
                }
            });
            if r.is_err() {
                // a panic inside the accept stream: nothing it accepted may stay open
                drop(rt);
                let end = stable_fds();
                if end > base {
                    ex.borrow_mut().fail("C14:fd-leak", format!("{}: {end} descriptors open after the panic and the runtime's drop, {base} before", case.lines[0]));
                }
            }
            match r {
                Ok(o) => vec![o],
                Err(p) => {
                    ex.borrow_mut().fail("C14:panic", format!("panic: {p}"));
                    vec!["panic".into()]
                }
            }
        }
        "rmopen" => {
            ex.borrow_mut().tag("rmo");
            rmo_case(case, &ex)
        }
        "ms" => {
            let (tp, drv) = (first[1], first[2]);
            ex.borrow_mut().tag(format!("ms-{tp}-{drv}"));
            let rt = build_rt(drv, first[3].parse().unwrap(), first[4].parse().unwrap());
            match catch(|| rt.block_on(ms_case(&case.lines[0], ex.clone()))) {
                Ok(o) => vec![o],
                Err(p) => {
                    ex.borrow_mut().fail("C14:panic", format!("panic: {p}"));
                    vec!["panic".into()]
                }
            }
        }
        other => panic!("bad case family {other}"),
    };
    if caps.borrow().zc_unsupported {
        ex.borrow_mut().tag(format!("zerocopy-unsupported-{}", first[1]));
    }
    let mut ex = std::mem::take(&mut *ex.borrow_mut());
    ex.nontrivial = case.lines.iter().zip(&out).any(|(l, o)| {
        let op = l.split_whitespace().next().unwrap_or("");
        match op {
            "recv" | "drecv" => o.starts_with("n=") && !o.starts_with("n=0 "),
            "dpre" => o.contains("| n="),
            "recvm" | "drecvm" => o.starts_with("some "),
            "mrecv" | "mrecva" | "dmulti" => !o.is_empty() && !o.starts_with('-') && !o.starts_with("idle") && !o.starts_with("err"),
            "conc" => !o.starts_with("a>b 0 ") || !o.contains("b>a 0 "),
            "accept" => o.starts_with("ids=0"),
            "rmo" => o.starts_with("data="),
            "ms" => o.contains("item:"),
            _ => false,
        }
    });
    ex.out = out;
    ex
}

// ---------------------------------------------------------------------------------------------
// generators

fn gen_bytes(rng: &mut Rng, n: usize) -> Vec<u8> {
    rng.bytes(n)
}

fn gen_chunks(rng: &mut Rng, vectored: bool, max: usize) -> String {
    if vectored {
        let k = rng.range(1, 4) as usize;
        (0..k)
            .map(|_| {
                let n = if rng.chance(1, 6) { 0 } else { rng.range(1, max as u64 / k as u64 + 1) as usize };
                hex(&gen_bytes(rng, n))
            })
            .collect::<Vec<_>>()
            .join(",")
    } else {
        let n = match rng.below(8) {
            0 => 0,
            1 => 1,
            _ => rng.range(1, max as u64) as usize,
        };
        hex(&gen_bytes(rng, n))
    }
}

fn gen_shape(rng: &mut Rng, max: usize, allow_prefill: bool) -> String {
    let cap = match rng.below(8) {
        0 => 0,
        1 => 1,
        _ => rng.range(1, max as u64) as usize,
    };
    match rng.below(4) {
        0 => format!("a{cap}"),
        1 if allow_prefill && cap > 0 => {
            let p = rng.range(0, cap as u64) as usize;
            format!("v{cap}:{}", hex(&gen_bytes(rng, p)))
        }
        _ => format!("v{cap}:-"),
    }
}

fn gen_lock_stream(rng: &mut Rng, idx: usize, tp: &str, drv: &str) -> Case {
    let nbufs = *rng.pick(&[1u16, 2, 4, 8]);
    let buflen = *rng.pick(&[16usize, 64, 256, 256, 4096]);
    let mut lines = vec![format!("open {tp} {drv} {nbufs} {buflen}")];
    let nops = rng.range(3, 14);
    let mut pend = [0usize; 2];
    let mut shut = [false; 2];
    for _ in 0..nops {
        let p = rng.below(2) as usize;
        let pn = ["a", "b"][p];
        match rng.below(12) {
            0..=4 if !shut[p] && pend[p] < 20000 => {
                let kind = *rng.pick(&["plain", "plain", "vec", "zc", "zcvec", "msg", "msgvec", "half"]);
                let max = *rng.pick(&[8usize, 64, 600, 9000]);
                let ch = gen_chunks(rng, kind.contains("vec"), max);
                pend[p] += ch.split(',').map(|h| if h == "-" { 0 } else { h.len() / 2 }).sum::<usize>();
                lines.push(format!("send {pn} {kind} {ch}"));
            }
            5 if !shut[p] && rng.chance(1, 2) => {
                shut[p] = true;
                lines.push(format!("shutdown {pn} {}", rng.pick(&["whole", "half", "half", "ohalf"])));
            }
            6 if rng.chance(1, 3) => lines.push(format!("split {pn}")),
            7 => {
                let len = *rng.pick(&[0usize, 0, 5, 100, 100000]);
                lines.push(format!("recvm {pn} {len}"));
                let d = 1 - p;
                pend[d] = pend[d].saturating_sub(if len == 0 { buflen } else { len.min(buflen) });
            }
            8 => {
                if buflen >= 256 && nbufs >= 2 && rng.chance(1, 2) {
                    let clen = *rng.pick(&[0usize, 13, 20, 33, 64, 1]);
                    lines.push(format!("mrecva {pn} {clen}"));
                } else {
                    let len = *rng.pick(&[0usize, 0, 7, 100000]);
                    lines.push(format!("mrecv {pn} {len}"));
                }
                pend[1 - p] = 0;
            }
            _ => {
                let kind = *rng.pick(&["plain", "plain", "vec", "vec", "half", "msg", "msgvec"]);
                let max = *rng.pick(&[4usize, 32, 300, 5000]);
                let shapes = if kind.contains("vec") {
                    let k = rng.range(1, 4);
                    // members are fresh vectors or full arrays; a pre-filled member with spare room
                    // (finding F141) is generated rarely
                    let pre = rng.chance(1, 12);
                    (0..k).map(|_| gen_shape(rng, max, pre)).collect::<Vec<_>>().join(";")
                } else {
                    gen_shape(rng, max, true)
                };
                lines.push(format!("recv {pn} {kind} {shapes}"));
                // conservative bookkeeping of what may remain
                let d = 1 - p;
                let cap: usize = shapes
                    .split(';')
                    .map(|s| s[1..].split(':').next().unwrap().parse::<usize>().unwrap())
                    .sum();
                pend[d] = pend[d].saturating_sub(cap);
            }
        }
    }
    Case { name: format!("lock-{tp}-{drv}-{idx}"), lines }
}

fn gen_lock_dgram(rng: &mut Rng, idx: usize, tp: &str, drv: &str) -> Case {
    let nbufs = *rng.pick(&[2u16, 4, 8]);
    let buflen = *rng.pick(&[256usize, 512, 4096]);
    let tos = tp == "udp" && rng.chance(1, 4);
    let mut lines = vec![format!("open {tp} {drv} {nbufs} {buflen}{}", if tos { " tos" } else { "" })];
    let nops = rng.range(3, 14);
    let multi_case = rng.chance(1, 2);
    let mut pend = [0usize; 2]; // datagrams in flight per sender
    for _ in 0..nops {
        let p = rng.below(2) as usize;
        let pn = ["a", "b"][p];
        let d = 1 - p;
        if pend[d] == 0 && rng.chance(1, 4) {
            // receive first, then send (p receives from the other peer)
            let rkinds: &[&str] = if tp == "udp" { &["plain", "vec", "from", "fromvec", "msg", "msgvec", "msg:13", "msgvec:20", "msg:33", "msgvec:1", "msg:20"] } else { &["plain", "vec"] };
            let rkind = *rng.pick(rkinds);
            let max = *rng.pick(&[4usize, 64, 800]);
            let shapes = if rkind.contains("vec") {
                (0..rng.range(1, 3)).map(|_| format!("v{}:-", rng.range(1, max as u64))).collect::<Vec<_>>().join(";")
            } else {
                format!("v{}:-", rng.range(1, max as u64))
            };
            let skinds: &[&str] = if tp == "udp" { &["plain", "vec", "to", "msg", "zc", "tozc"] } else { &["plain", "vec"] };
            let skind = *rng.pick(skinds);
            let mut ch = gen_chunks(rng, skind.contains("vec"), 600);
            if ch.split(',').all(|h| h == "-") {
                ch = "5a".into();
            }
            lines.push(format!("dpre {pn} {rkind} {shapes} {skind} {ch}"));
        } else if rng.chance(1, 2) && pend[p] < 6 {
            let kinds: &[&str] = if tp == "udp" {
                &["plain", "vec", "to", "tovec", "msg", "msgvec", "zc", "zcvec", "tozc", "tozcvec", "msgzc", "msgzcvec"]
            } else {
                &["plain", "vec", "zc", "zcvec"]
            };
            let kind = *rng.pick(kinds);
            let max = *rng.pick(&[8usize, 100, 700, 6000]);
            #[allow(unused_assignments)]
            let mut ch = gen_chunks(rng, kind.contains("vec"), max);
            // empty and one-byte datagrams for every receive flavour (also the multishot ones)
            if rng.chance(1, 10) {
                ch = if kind.contains("vec") { "-,-".into() } else { "-".into() };
            } else if rng.chance(1, 12) {
                ch = "5a".into();
            }
            pend[p] += 1;
            lines.push(format!("dsend {pn} {kind} {ch}"));
        } else {
            match rng.below(10) {
                0..=1 if multi_case => {
                    let kind = *rng.pick(&["multi", "frommulti", "msgmulti"]);
                    let clen = if kind == "msgmulti" { *rng.pick(&[0usize, 32, 64, 1, 13, 20, 33]) } else { 0 };
                    lines.push(format!("dmulti {pn} {kind} {clen}"));
                    pend[d] = 0;
                }
                2..=3 => {
                    let kinds: &[&str] = if tp == "udp" { &["managed", "frommanaged", "msgmanaged"] } else { &["managed"] };
                    let len = *rng.pick(&[0usize, 0, 3, 100, 100000]);
                    lines.push(format!("drecvm {pn} {} {len}", rng.pick(kinds)));
                    pend[d] = pend[d].saturating_sub(1);
                }
                _ => {
                    let kinds: &[&str] = if tp == "udp" { &["plain", "vec", "from", "fromvec", "msg", "msgvec", "msg:13", "msgvec:20", "msg:33", "msgvec:1", "msg:20"] } else { &["plain", "vec"] };
                    let kind = *rng.pick(kinds);
                    let max = *rng.pick(&[4usize, 64, 800, 7000]);
                    let shapes = if kind.contains("vec") {
                        let k = rng.range(1, 4);
                        let fresh = rng.chance(9, 10);
                        (0..k)
                            .map(|_| if fresh { format!("v{}:-", rng.range(0, max as u64)) } else { gen_shape(rng, max, true) })
                            .collect::<Vec<_>>()
                            .join(";")
                    } else {
                        gen_shape(rng, max, true)
                    };
                    lines.push(format!("drecv {pn} {kind} {shapes}"));
                    pend[d] = pend[d].saturating_sub(1);
                }
            }
        }
    }
    Case { name: format!("lock-{tp}-{drv}-{idx}"), lines }
}

fn gen_conc(rng: &mut Rng, idx: usize, tp: &str, drv: &str, big: bool) -> Case {
    let nbufs = *rng.pick(&[2u16, 4, 8, 16]);
    let buflen = *rng.pick(&[64usize, 1024, 4096, 65536]);
    let seed = rng.below(256);
    let split = if rng.chance(1, 3) { "split" } else { "whole" };
    let sendspec = |rng: &mut Rng| -> String {
        if rng.chance(1, 8) {
            return "-".into();
        }
        let k = rng.range(1, 6);
        (0..k)
            .map(|_| {
                let kind = *rng.pick(&["plain", "plain", "vec", "zc", "zcvec", "msg", "msgvec", "half"]);
                let max: u64 = if big { *rng.pick(&[2000u64, 70000, 300000, 900000]) } else { *rng.pick(&[10u64, 300, 5000, 40000]) };
                let parts = if kind.contains("vec") { rng.range(1, 4) } else { 1 };
                let sizes: Vec<String> = (0..parts).map(|_| (if rng.chance(1, 10) { 0 } else { rng.range(1, max) }).to_string()).collect();
                format!("{kind}:{}", sizes.join("+"))
            })
            .collect::<Vec<_>>()
            .join(",")
    };
    let sa = sendspec(rng);
    let sb = sendspec(rng);
    // keep the number of receive calls bounded: small buffers only for small transfers
    let total = |spec: &str| -> u64 {
        if spec == "-" {
            return 0;
        }
        spec.split(',').map(|it| it.split(':').nth(1).unwrap().split('+').map(|n| n.parse::<u64>().unwrap()).sum::<u64>()).sum()
    };
    let pool_floor = |t: u64| -> bool { t / (buflen as u64) <= 4000 };
    let recvspec = |rng: &mut Rng, incoming: u64| -> String {
        let floor = (incoming / 3000).max(1);
        let k = rng.range(1, 4);
        let mut items: Vec<String> = (0..k)
            .map(|_| {
                let mut kind = *rng.pick(&["plain", "plain", "vec", "half", "msg", "msgvec", "managed"]);
                if kind == "managed" && !pool_floor(incoming) {
                    kind = "plain";
                }
                let max: u64 = (*rng.pick(&[7u64, 200, 5000, 100000])).max(floor * 2);
                if kind == "managed" {
                    format!("managed:{}", rng.pick(&[0u64, 0, 100000]))
                } else {
                    let parts = if kind.contains("vec") { rng.range(1, 4) } else { 1 };
                    let sizes: Vec<String> = (0..parts).map(|_| rng.range(floor, max).to_string()).collect();
                    format!("{kind}:{}", sizes.join("+"))
                }
            })
            .collect();
        if rng.chance(1, 4) && pool_floor(incoming) {
            items.push(format!("multi:{}", rng.pick(&[0u64, 0, 100000])));
        }
        items.join(",")
    };
    let ra = recvspec(rng, total(&sb));
    let rb = recvspec(rng, total(&sa));
    Case {
        name: format!("conc-{tp}-{drv}-{idx}"),
        lines: vec![format!("conc {tp} {drv} {nbufs} {buflen} {seed} {split} SA={sa} SB={sb} RA={ra} RB={rb}")],
    }
}

fn gen_accept(rng: &mut Rng, idx: usize, tp: &str, drv: &str) -> Case {
    if idx % 4 == 1 {
        // bursts against a small ring (completion queue = 2 x capacity entries)
        let cap = *rng.pick(&[1u32, 2, 4]);
        let n = rng.range(8, 32);
        return Case { name: format!("accept-{tp}-{drv}-{idx}"), lines: vec![format!("accept {tp} {drv} burst {n} {cap}")] };
    }
    let mode = *rng.pick(&["single", "incoming", "incoming"]);
    let k = rng.range(1, 6);
    let extra = rng.below(3);
    Case { name: format!("accept-{tp}-{drv}-{idx}"), lines: vec![format!("accept {tp} {drv} {mode} {k} {extra}")] }
}

fn le4(v: u32) -> Vec<u8> {
    v.to_le_bytes().to_vec()
}

fn gen_rmo(rng: &mut Rng, idx: usize) -> Case {
    let buflen = 512usize;
    let mut lines = vec![format!("rmopen {buflen}")];
    for _ in 0..rng.range(4, 10) {
        let clen = *rng.pick(&[0usize, 0, 16, 24, 64, 200, 1, 13, 20, 33]);
        let hostile = rng.chance(1, 2);
        let namelen = *rng.pick(&[0usize, 16, 16, 28, 110, 128]);
        let ctl = rng.below(clen as u64 + 1) as usize;
        let room = buflen.saturating_sub(144 + clen);
        let payload = rng.below(room.min(64) as u64 + 1) as usize;
        let flags = *rng.pick(&[0u32, 0x20, 0x28, 0x8000_0000]);
        let mut hdr = (namelen as u32, ctl as u32, payload as u32, flags);
        let mut total = 144 + clen + payload;
        let mut clen_arg = clen;
        if hostile {
            match rng.below(7) {
                0 => hdr.0 = *rng.pick(&[129u32, 200, 0xffff_ffff]),
                1 => hdr.1 = rng.below(400) as u32,
                2 => hdr.2 = *rng.pick(&[payload as u32 + 1, 1000, 0xffff_ffff]),
                3 => total = rng.below(total as u64 + 1) as usize,
                4 => total = rng.below(20) as usize,
                5 => clen_arg = *rng.pick(&[usize::MAX, usize::MAX - 100, 1 << 40, clen + 1, clen.saturating_sub(1)]),
                _ => hdr.1 = clen as u32 + 1 + rng.below(payload as u64 + 1) as u32,
            }
        }
        let total = total.min(buflen);
        let mut bytes = [le4(hdr.0), le4(hdr.1), le4(hdr.2), le4(hdr.3)].concat();
        let body = rng.bytes(buflen);
        bytes.extend_from_slice(&body);
        bytes.truncate(total);
        lines.push(format!("rmo {clen_arg} {}", hex(&bytes)));
    }
    Case { name: format!("rmo-{idx}"), lines }
}

fn gen_ms(rng: &mut Rng, idx: usize, tp: &str, drv: &str) -> Case {
    let nbufs = *rng.pick(&[1u16, 2, 2, 4]);
    let buflen = *rng.pick(&[8usize, 16, 64]);
    let len = *rng.pick(&[0usize, 0, 5, 1000]);
    if idx % 3 == 0 {
        // cancel interleavings: the op is running, data arrives after the reader's last poll, then the
        // token is cancelled, the reader drains the stream and goes on with plain reads (`z`)
        let nbufs = *rng.pick(&[2u16, 4, 8]);
        let chunk = if len == 0 { buflen } else { len.min(buflen) };
        let mut evs: Vec<String> = vec![];
        if rng.chance(1, 2) {
            {
                let n = rng.range(1, chunk as u64) as usize;
                evs.push(format!("d{}", hex(&rng.bytes(n))));
            }
            evs.push("n".into());
        }
        evs.push("p".into());
        for _ in 0..rng.range(1, 2) {
            {
                let n = rng.range(1, chunk as u64) as usize;
                evs.push(format!("d{}", hex(&rng.bytes(n))));
            }
        }
        evs.push("c".into());
        if rng.chance(1, 2) {
            {
                let n = rng.range(1, 40) as usize;
                evs.push(format!("d{}", hex(&rng.bytes(n))));
            }
        }
        if rng.chance(1, 3) {
            evs.push("s".into());
        }
        evs.push("z".into());
        return Case { name: format!("ms-{tp}-{drv}-{idx}"), lines: vec![format!("ms {tp} {drv} {nbufs} {buflen} {len} {}", evs.join(","))] };
    }
    let chunk = if len == 0 { buflen } else { len.min(buflen) };
    let mut evs: Vec<String> = vec![];
    // bookkeeping that keeps the script away from timing-dependent corners:
    // `queued` = bytes sent and not yet yielded
    let mut queued = 0usize;
    let mut shut = false;
    let mut cancelled = false;
    let mut holding = false;
    let mut ended = false;
    for _ in 0..rng.range(3, 12) {
        if ended {
            break;
        }
        match rng.below(10) {
            0..=3 if !shut && queued < 200 => {
                let n = rng.range(1, (chunk * 3) as u64) as usize;
                evs.push(format!("d{}", hex(&rng.bytes(n))));
                queued += n;
            }
            4 if !shut && rng.chance(1, 3) => {
                evs.push("s".into());
                shut = true;
            }
            5 if !cancelled && rng.chance(1, 3) => {
                evs.push("c".into());
                cancelled = true;
            }
            6 if !holding => {
                evs.push("h".into());
                holding = true;
            }
            7 if holding => {
                evs.push("r".into());
                holding = false;
            }
            _ => {
                if queued > 0 || shut || cancelled {
                    evs.push("n".into());
                    queued = queued.saturating_sub(chunk);
                    if cancelled && rng.chance(1, 2) {
                        evs.push("n".into());
                        evs.push("n".into());
                        ended = true;
                    }
                } else if rng.chance(1, 4) {
                    evs.push("p".into());
                }
            }
        }
    }
    evs.push("n".into());
    if !(queued > 0 || shut || cancelled) {
        evs.pop();
        evs.push("p".into());
    }
    Case { name: format!("ms-{tp}-{drv}-{idx}"), lines: vec![format!("ms {tp} {drv} {nbufs} {buflen} {len} {}", evs.join(","))] }
}

fn generate(tier: &str, rng: &mut Rng) -> Vec<Case> {
    let scale = if tier == "thorough" { 8 } else { 1 };
    let mut cases = vec![];
    let mut idx = 0;
    for _ in 0..(70 * scale) {
        for tp in ["tcp", "unix"] {
            for drv in ["uring", "poll"] {
                idx += 1;
                cases.push(gen_lock_stream(&mut rng.fork(), idx, tp, drv));
            }
        }
    }
    for _ in 0..(15 * scale) {
        for tp in ["tcp", "unix"] {
            for drv in ["uring", "poll"] {
                idx += 1;
                cases.push(gen_accept(&mut rng.fork(), idx, tp, drv));
                idx += 1;
                cases.push(gen_ms(&mut rng.fork(), idx, tp, drv));
            }
        }
    }
    for _ in 0..(50 * scale) {
        idx += 1;
        cases.push(gen_rmo(&mut rng.fork(), idx));
    }
    for k in 0..(16 * scale) {
        for tp in ["tcp", "unix"] {
            for drv in ["uring", "poll"] {
                idx += 1;
                cases.push(gen_conc(&mut rng.fork(), idx, tp, drv, k % 3 == 0));
            }
        }
    }
    for _ in 0..(70 * scale) {
        for tp in ["udp", "udg"] {
            for drv in ["uring", "poll"] {
                idx += 1;
                cases.push(gen_lock_dgram(&mut rng.fork(), idx, tp, drv));
            }
        }
    }
    // debugging aid: C14_ONLY=<prefix> keeps the cases whose name starts with the prefix
    if let Ok(only) = std::env::var("C14_ONLY") {
        cases.retain(|c| c.name.starts_with(&only));
    }
    cases
}

// ---------------------------------------------------------------------------------------------
// process isolation: the real code can abort the process (std's IO-safety check on a descriptor closed
// twice, a panic while unwinding). Every case runs in a long-lived worker child (`c14 --worker`,
// restarted after a crash); a worker that dies or hangs while executing a case turns into the monitor
// failure `C14:abort` / `C14:hang` with that case as replay.

struct Worker {
    child: std::process::Child,
    stdin: std::process::ChildStdin,
    lines: std::sync::mpsc::Receiver<String>,
}

thread_local! {
    static WORKER: RefCell<Option<Worker>> = const { RefCell::new(None) };
}

const CASE_TIMEOUT: Duration = Duration::from_secs(150);

fn start_worker() -> Worker {
    use std::io::BufRead;
    let exe = std::env::current_exe().expect("current_exe");
    let mut child = std::process::Command::new(exe)
        .arg("--worker")
        .stdin(std::process::Stdio::piped())
        .stdout(std::process::Stdio::piped())
        .stderr(std::process::Stdio::null())
        .spawn()
        .expect("spawn worker");
    let stdin = child.stdin.take().unwrap();
    let stdout = child.stdout.take().unwrap();
    let (tx, rx) = std::sync::mpsc::channel();
    std::thread::spawn(move || {
        for l in std::io::BufReader::new(stdout).lines() {
            match l {
                Ok(l) => {
                    if tx.send(l).is_err() {
                        break;
                    }
                }
                Err(_) => break,
            }
        }
    });
    Worker { child, stdin, lines: rx }
}

fn worker_request(req: &str) -> Result<Vec<String>, String> {
    use std::io::Write;
    use std::sync::mpsc::RecvTimeoutError;
    WORKER.with(|w| {
        let mut w = w.borrow_mut();
        if w.is_none() {
            *w = Some(start_worker());
        }
        let wk = w.as_mut().unwrap();
        let sent = wk.stdin.write_all(req.as_bytes()).and_then(|_| wk.stdin.flush());
        let mut out = vec![];
        let mut err = None;
        if sent.is_err() {
            err = Some("abort");
        }
        while err.is_none() {
            match wk.lines.recv_timeout(CASE_TIMEOUT) {
                Ok(l) if l == "DONE" => break,
                Ok(l) => out.push(l),
                Err(RecvTimeoutError::Timeout) => err = Some("hang"),
                Err(RecvTimeoutError::Disconnected) => err = Some("abort"),
            }
        }
        match err {
            None => Ok(out),
            Some(kind) => {
                let mut wk = w.take().unwrap();
                wk.child.kill().ok();
                let status = wk.child.wait().map(|s| s.to_string()).unwrap_or_else(|e| e.to_string());
                Err(format!("{kind}: worker process {status}"))
            }
        }
    })
}

fn stop_worker() {
    WORKER.with(|w| {
        if let Some(mut wk) = w.borrow_mut().take() {
            drop(wk.stdin);
            wk.child.wait().ok();
        }
    });
}

fn exec(case: &Case) -> Exec {
    let mut req = format!("CASE\t{}\n", case.name.replace(['\t', '\n'], " "));
    for l in &case.lines {
        req.push_str("L ");
        req.push_str(&l.replace('\n', " "));
        req.push('\n');
    }
    req.push_str("END\n");
    let mut ex = Exec::new();
    match worker_request(&req) {
        Ok(lines) => {
            for l in lines {
                if let Some(o) = l.strip_prefix("O ") {
                    ex.out.push(o.to_string());
                } else if l == "O" {
                    ex.out.push(String::new());
                } else if let Some(f) = l.strip_prefix("F ") {
                    let (sig, detail) = f.split_once('\t').unwrap_or((f, ""));
                    ex.fail(sig, detail);
                } else if let Some(t) = l.strip_prefix("T ") {
                    ex.tag(t);
                } else if l == "N 1" {
                    ex.nontrivial = true;
                }
            }
            if ex.out.len() != case.lines.len() {
                ex.fail("C14:harness-protocol", format!("worker answered {} lines for {}", ex.out.len(), case.lines.len()));
                ex.out.resize(case.lines.len(), "lost".into());
            }
        }
        Err(why) => {
            let kind = if why.starts_with("hang") { "hang" } else { "abort" };
            ex.out = vec![kind.to_string(); case.lines.len()];
            ex.tag(format!("worker:{kind}"));
            ex.fail(
                format!("C14:{kind}"),
                format!(
                    "the process running this case on the real code {why} (e.g. a descriptor closed twice trips std's IO-safety abort; a hang means no answer for {} s)",
                    CASE_TIMEOUT.as_secs()
                ),
            );
        }
    }
    ex
}

fn worker_main() {
    use std::io::{BufRead, Write};
    std::panic::set_hook(Box::new(|_| {}));
    let stdin = std::io::stdin();
    let mut out = std::io::BufWriter::new(std::io::stdout());
    let mut it = stdin.lock().lines();
    while let Some(Ok(head)) = it.next() {
        let parts: Vec<&str> = head.split('\t').collect();
        if let ["CASE", name] = parts.as_slice() {
            let mut lines = vec![];
            for l in it.by_ref() {
                let Ok(l) = l else { break };
                if l == "END" {
                    break;
                }
                lines.push(l.strip_prefix("L ").unwrap_or(&l).to_string());
            }
            let case = Case { name: name.to_string(), lines };
            let n = case.lines.len();
            let ex = match catch(|| exec_local(&case)) {
                Ok(ex) => ex,
                Err(e) => {
                    let mut ex = Exec::new();
                    ex.out = vec!["panic".into(); n];
                    ex.fail("C14:panic", format!("panic: {e}"));
                    ex
                }
            };
            for o in &ex.out {
                writeln!(out, "O {}", o.replace('\n', " ")).ok();
            }
            for f in &ex.failures {
                writeln!(out, "F {}\t{}", f.sig, f.detail.replace(['\n', '\t'], " ")).ok();
            }
            for t in &ex.tags {
                writeln!(out, "T {t}").ok();
            }
            writeln!(out, "N {}", ex.nontrivial as u8).ok();
        }
        writeln!(out, "DONE").ok();
        out.flush().ok();
    }
}

fn main() {
    if std::env::args().any(|a| a == "--worker") {
        worker_main();
        return;
    }
    run_harness(
        generate,
        exec,
        "distinct by case text; non-trivial = at least one receive delivered bytes (n>0 / Some / multishot item), a concurrent transfer moved bytes, a connection was accepted, or a crafted recvmsg_out buffer passed `new`",
    );
    stop_worker();
}

#[allow(dead_code)]
fn _unused(_: Rc<()>) {}
