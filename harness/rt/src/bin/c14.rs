// probe (temporary)
use compio_driver::{DriverType, ProactorBuilder};
use compio_net::UdpSocket;
use compio_runtime::Runtime;
use futures_util::StreamExt;
use std::num::NonZeroU16;

fn rt(ring: bool) -> Runtime {
    let mut pb = ProactorBuilder::new();
    pb.driver_type(if ring { DriverType::IoUring } else { DriverType::Poll })
        .buffer_pool_size(NonZeroU16::new(4).unwrap())
        .buffer_pool_buffer_len(512);
    Runtime::builder().with_proactor(pb).build().unwrap()
}

fn main() {
    for ring in [true, false] {
        let rt = rt(ring);
        println!("driver {:?}", rt.driver_type());
        rt.block_on(async {
            let a = UdpSocket::bind("127.0.0.1:0").await.unwrap();
            let b = UdpSocket::bind("127.0.0.1:0").await.unwrap();
            let aa = a.local_addr().unwrap();
            let ba = b.local_addr().unwrap();
            a.send_to(b"hello".to_vec(), ba).await.0.unwrap();
            {
                let mut s = std::pin::pin!(b.recv_from_multi());
                let r = s.next().await.unwrap().unwrap();
                println!("recv_from_multi data={:?} addr={:?} (expect {:?})", r.data(), r.addr().and_then(|a| a.as_socket()), aa);
            }
            a.send_to(b"world!".to_vec(), ba).await.0.unwrap();
            {
                let mut s = std::pin::pin!(b.recv_msg_multi(64));
                let r = s.next().await.unwrap().unwrap();
                println!("recv_msg_multi data={:?} addr={:?} flags={:?} anc={:?}", r.data(), r.addr().and_then(|a| a.as_socket()), r.flags(), r.ancillary());
            }
            a.send_to(b"third".to_vec(), ba).await.0.unwrap();
            {
                let mut s = std::pin::pin!(b.recv_multi(0));
                let r = s.next().await.unwrap().unwrap();
                println!("recv_multi data={:?}", &*r);
            }
            a.send_to(vec![7u8; 1000], ba).await.0.unwrap();
            {
                let r = b.recv_msg_managed(0, Vec::with_capacity(64)).await.unwrap().unwrap();
                println!("recv_msg_managed len={} flags={:?} addr={:?}", r.0.len(), r.3, r.2);
            }
        });
    }
}
