use std::io::Write;

use compio_driver::{DriverType, ProactorBuilder};
use compio_io::{AsyncRead, AsyncReadAt, AsyncWrite};
use compio_runtime::fd::AsyncFd;

fn rt(t: DriverType) -> compio_runtime::Runtime {
    let mut pb = ProactorBuilder::new();
    pb.driver_type(t);
    compio_runtime::RuntimeBuilder::new().with_proactor(pb).build().unwrap()
}

fn main() {
    let dir = std::env::temp_dir().join(format!("c08probe-{}", std::process::id()));
    std::fs::create_dir_all(&dir).unwrap();
    for t in [DriverType::IoUring, DriverType::Poll] {
        let p = dir.join("f");
        std::fs::File::create(&p).unwrap().write_all(b"hello world!").unwrap();
        let r = rt(t);
        println!("driver {:?}", r.driver_type());
        r.block_on(async {
            let f = std::fs::File::open(&p).unwrap();
            let mut fd = AsyncFd::new(f).unwrap();
            for _ in 0..3 {
                let (n, b) = fd.read(Vec::with_capacity(5)).await.unwrap();
                println!("  seq read -> {n} {:?}", String::from_utf8_lossy(&b));
            }
            let f = std::fs::OpenOptions::new().write(true).open(&p).unwrap();
            let mut fd = AsyncFd::new(f).unwrap();
            for _ in 0..2 {
                let (n, _) = fd.write(b"AB".to_vec()).await.unwrap();
                println!("  seq write -> {n}");
            }
            println!("  content {:?}", String::from_utf8_lossy(&std::fs::read(&p).unwrap()));
            let f = compio_fs::File::open(&p).await.unwrap();
            let (n, b) = f.read_vectored_at([Vec::<u8>::with_capacity(5), Vec::with_capacity(5)], 0).await.unwrap();
            println!("  readv -> {n} {:?}", b);
        });
    }
    std::fs::remove_dir_all(&dir).unwrap();
}
