//! C08 correspondence + differential harness: file and pipe I/O through compio-fs / compio-runtime on
//! EACH of {io_uring, polling} (for regular files the polling driver runs the thread-pool fallback,
//! `Decision::Blocking`; pipes use readiness) and through std::fs / libc on a twin directory.
//!
//! A case is a list of text operations (see lean/Drivers/C08.lean for the model side). It is executed
//! three times, each in its own fresh directory: compio/io_uring, compio/polling, OS twin. The output line
//! of an operation is the compio result (one text when both drivers agree, `iour=.. poll=..` otherwise).
//! Monitors (implementation only, no Lean model involved):
//!   C08:os-divergence       compio result / buffer / content differs from the OS's own synchronous call
//!   C08:driver-divergence   io_uring and polling differ
//!   C08:read-not-recorded   the bytes a read transferred are not the prefix of the buffer's visible content
//!   F15:vectored-nonprefix-init   same for vectored reads (advance_vec_to, known finding F15)
//!   C08a:asyncfd-seq-regular-file sequential Read/Write through AsyncFd on a regular file (known finding)
#![allow(clippy::too_many_arguments)]

use std::{
    collections::HashMap,
    ffi::CString,
    io,
    os::{
        fd::{AsFd, AsRawFd, FromRawFd, OwnedFd},
        unix::fs::{FileExt, MetadataExt},
    },
    path::{Path, PathBuf},
};

use compio_buf::{IntoInner, IoBuf, IoBufExt, IoBufMut, IoVectoredBuf, IoVectoredBufMut, SetLen, Slice};
use compio_driver::{DriverType, ProactorBuilder};
use compio_io::{AsyncRead, AsyncReadAt, AsyncWrite, AsyncWriteAt};
use compio_runtime::{Runtime, fd::AsyncFd};
use hx_common::*;

const PIPE_LIMIT: usize = 32768;
/// a pipe has 16 buffer slots; data spliced in never merges with what is there: stay well below
const SLOT_LIMIT: usize = 12;
const PIPE_CAPACITY: usize = 65536;
/// writes / truncations beyond this position are not executed (sparse giant files, EFBIG + SIGXFSZ)
const WRITE_LIMIT: u64 = 1 << 24;

// ---------------------------------------------------------------------------------------------
// buffers
// ---------------------------------------------------------------------------------------------

#[derive(Clone, Debug)]
struct Shape {
    /// full allocation content (capacity = mem.len())
    mem: Vec<u8>,
    len: usize,
    begin: usize,
    end: Option<usize>,
    sliced: bool,
}

impl Shape {
    fn wf(&self) -> bool {
        self.len <= self.mem.len() && self.begin <= self.len && self.end.map(|e| self.begin <= e).unwrap_or(true)
    }

    fn end_or_cap(&self) -> usize {
        self.end.unwrap_or(self.mem.len()).min(self.mem.len())
    }

    fn end_or_len(&self) -> usize {
        self.end.unwrap_or(self.len).min(self.len)
    }

    /// the window a read may fill (`as_uninit`)
    fn window(&self) -> (usize, usize) {
        (self.begin, self.end_or_cap().saturating_sub(self.begin))
    }

    /// the bytes a write sends (`as_init`)
    fn visible(&self) -> &[u8] {
        &self.mem[self.begin.min(self.mem.len())..self.end_or_len().max(self.begin).min(self.mem.len())]
    }
}

fn pattern(fill: usize, n: usize) -> Vec<u8> {
    (0..n).map(|j| (fill + j) as u8).collect()
}

fn opt_num(s: &str) -> Option<Option<usize>> {
    if s == "-" { Some(None) } else { s.parse().ok().map(Some) }
}

/// `cap:len:fill[:begin:end]`
fn parse_rbuf(s: &str) -> Option<Shape> {
    let p: Vec<&str> = s.split(':').collect();
    match p.len() {
        3 => Some(Shape { mem: pattern(p[2].parse().ok()?, p[0].parse().ok()?), len: p[1].parse().ok()?, begin: 0, end: None, sliced: false }),
        5 => Some(Shape {
            mem: pattern(p[2].parse().ok()?, p[0].parse().ok()?),
            len: p[1].parse().ok()?,
            begin: p[3].parse().ok()?,
            end: opt_num(p[4])?,
            sliced: true,
        }),
        _ => None,
    }
}

fn unhex_checked(s: &str) -> Option<Vec<u8>> {
    if s == "-" {
        return Some(vec![]);
    }
    if s.len() % 2 != 0 || !s.bytes().all(|b| b.is_ascii_digit() || (b'a'..=b'f').contains(&b)) {
        return None;
    }
    Some(unhex(s))
}

/// `hex:spare[:begin:end]`
fn parse_wbuf(s: &str) -> Option<Shape> {
    let p: Vec<&str> = s.split(':').collect();
    if p.len() != 2 && p.len() != 4 {
        return None;
    }
    let data = unhex_checked(p[0])?;
    let spare: usize = p[1].parse().ok()?;
    let len = data.len();
    let mut mem = data;
    mem.extend(pattern(0xE0, spare));
    if p.len() == 2 {
        Some(Shape { mem, len, begin: 0, end: None, sliced: false })
    } else {
        Some(Shape { mem, len, begin: p[2].parse().ok()?, end: opt_num(p[3])?, sliced: true })
    }
}

fn list_of(s: &str) -> Vec<&str> {
    if s == "." { vec![] } else { s.split(',').collect() }
}

fn join_or(v: Vec<String>) -> String {
    if v.is_empty() { ".".into() } else { v.join(",") }
}

/// a `Vec<u8>` with exactly this allocation content (spare capacity pre-filled) and length
fn mk_vec(sh: &Shape) -> Vec<u8> {
    let cap = sh.mem.len();
    let mut v: Vec<u8> = Vec::with_capacity(cap);
    assert!(v.capacity() == cap || cap == 0, "allocator returned a different capacity");
    unsafe {
        std::ptr::copy_nonoverlapping(sh.mem.as_ptr(), v.as_mut_ptr(), cap);
        v.set_len(sh.len);
    }
    v
}

fn dump(v: &Vec<u8>, cap: usize) -> Vec<u8> {
    assert!(v.capacity() >= cap);
    unsafe { std::slice::from_raw_parts(v.as_ptr(), cap) }.to_vec()
}

/// member of a mixed vectored buffer: plain `Vec<u8>` or `Slice<Vec<u8>>`
enum AnyBuf {
    V(Vec<u8>),
    S(Slice<Vec<u8>>),
}

impl IoBuf for AnyBuf {
    fn as_init(&self) -> &[u8] {
        match self {
            AnyBuf::V(v) => v.as_init(),
            AnyBuf::S(s) => s.as_init(),
        }
    }
}

impl SetLen for AnyBuf {
    unsafe fn set_len(&mut self, len: usize) {
        match self {
            AnyBuf::V(v) => unsafe { SetLen::set_len(v, len) },
            AnyBuf::S(s) => unsafe { SetLen::set_len(s, len) },
        }
    }
}

impl IoBufMut for AnyBuf {
    fn as_uninit(&mut self) -> &mut [std::mem::MaybeUninit<u8>] {
        match self {
            AnyBuf::V(v) => v.as_uninit(),
            AnyBuf::S(s) => s.as_uninit(),
        }
    }
}

impl AnyBuf {
    fn root(self) -> Vec<u8> {
        match self {
            AnyBuf::V(v) => v,
            AnyBuf::S(s) => s.into_inner(),
        }
    }
}

fn mk_slice(sh: &Shape) -> Slice<Vec<u8>> {
    let v = mk_vec(sh);
    match sh.end {
        Some(e) => IoBufExt::slice(v, sh.begin..e),
        None => IoBufExt::slice(v, sh.begin..),
    }
}

fn mk_any(sh: &Shape) -> AnyBuf {
    if sh.sliced { AnyBuf::S(mk_slice(sh)) } else { AnyBuf::V(mk_vec(sh)) }
}

// ---------------------------------------------------------------------------------------------
// observations
// ---------------------------------------------------------------------------------------------

#[derive(Clone, Debug, Default)]
struct Obs {
    /// canonical output text (compio side: what the model must reproduce)
    text: String,
    /// the part comparable with the OS twin
    cmp: String,
    /// read-recording monitor: Some(detail) when the transferred bytes are not the visible prefix
    unrecorded: Option<String>,
    /// a single read made the buffer shorter than it was (bytes the OS never touched disappeared)
    shrunk: Option<String>,
}

fn obs(text: impl Into<String>) -> Obs {
    let t = text.into();
    Obs { cmp: t.clone(), text: t, unrecorded: None, shrunk: None }
}

fn errno(e: &io::Error) -> i32 {
    e.raw_os_error().unwrap_or(match e.kind() {
        io::ErrorKind::InvalidInput => 22,
        _ => -1,
    })
}

fn err_obs(e: &io::Error) -> Obs {
    obs(format!("err {}", errno(e)))
}

fn res_obs(r: io::Result<()>) -> Obs {
    match r {
        Ok(()) => obs("ok"),
        Err(e) => err_obs(&e),
    }
}

/// after a read of `n` bytes into shapes `shs` whose roots are now `roots`
fn read_obs(n: usize, shs: &[Shape], roots: &[Vec<u8>], vectored: bool) -> Obs {
    let mems: Vec<Vec<u8>> = shs.iter().zip(roots).map(|(s, r)| dump(r, s.mem.len())).collect();
    let lens: Vec<String> = roots.iter().map(|r| r.len().to_string()).collect();
    let hexes: Vec<String> = mems.iter().map(|m| hex(m)).collect();
    let (lens_t, hex_t) = if vectored { (join_or(lens), join_or(hexes)) } else { (lens[0].clone(), hexes[0].clone()) };
    // transferred bytes = first n of the concatenated windows; visible = concatenated as_init
    let mut flat = vec![];
    let mut vis = vec![];
    for ((s, r), m) in shs.iter().zip(roots).zip(&mems) {
        let (off, wl) = s.window();
        flat.extend_from_slice(&m[off..off + wl]);
        let now = Shape { mem: m.clone(), len: r.len(), ..s.clone() };
        vis.extend_from_slice(now.visible());
    }
    let unrecorded = if vis.len() < n || vis[..n] != flat[..n] {
        Some(format!("read returned {n}, bytes transferred {} but visible content is {} (lens {lens_t})", hex(&flat[..n]), hex(&vis)))
    } else {
        None
    };
    let shrunk = if !vectored && roots[0].len() < shs[0].len {
        Some(format!("read returned {n}; the buffer had length {} and came back with length {}", shs[0].len, roots[0].len()))
    } else {
        None
    };
    // single reads: the OS twin keeps the caller's length unless the data extends beyond it, so the length is
    // comparable; vectored lengths are left to the F15 monitor
    let cmp = if vectored { format!("ok {n} {hex_t}") } else { format!("ok {n} {lens_t} {hex_t}") };
    Obs { text: format!("ok {n} {lens_t} {hex_t}"), cmp, unrecorded, shrunk }
}

// ---------------------------------------------------------------------------------------------
// compio backend
// ---------------------------------------------------------------------------------------------

struct CPipe {
    rx: Option<compio_fs::pipe::Receiver>,
    tx: Option<compio_fs::pipe::Sender>,
    buffered: usize,
    /// a named FIFO opened read-write on both ends: never EOF, never EPIPE
    fifo: bool,
    /// pipe buffer slots possibly in use (every write / splice into the pipe may take one of the 16)
    slots: usize,
}

#[derive(Default)]
struct CState {
    files: HashMap<u64, compio_fs::File>,
    seq: HashMap<u64, AsyncFd<std::fs::File>>,
    pipes: HashMap<u64, CPipe>,
}

async fn c_read_vec<F>(shs: &[Shape], f: F) -> Obs
where
    F: AsyncFnOnce(VecKind) -> (io::Result<usize>, VecKind),
{
    let all_plain = shs.iter().all(|s| !s.sliced);
    let bufs = if all_plain && shs.len() == 2 {
        VecKind::Arr2([mk_vec(&shs[0]), mk_vec(&shs[1])])
    } else if all_plain {
        VecKind::Plain(shs.iter().map(mk_vec).collect())
    } else {
        VecKind::Mixed(shs.iter().map(mk_any).collect())
    };
    let (r, bufs) = f(bufs).await;
    match r {
        Ok(n) => read_obs(n, shs, &bufs.roots(), true),
        Err(e) => err_obs(&e),
    }
}

enum VecKind {
    Arr2([Vec<u8>; 2]),
    Plain(Vec<Vec<u8>>),
    Mixed(Vec<AnyBuf>),
}

impl VecKind {
    fn roots(self) -> Vec<Vec<u8>> {
        match self {
            VecKind::Arr2(a) => a.into_iter().collect(),
            VecKind::Plain(v) => v,
            VecKind::Mixed(v) => v.into_iter().map(|b| b.root()).collect(),
        }
    }
}

async fn rd_at<B: IoVectoredBufMut>(f: &compio_fs::File, b: B, pos: u64) -> (io::Result<usize>, B) {
    let compio_buf::BufResult(r, b) = f.read_vectored_at(b, pos).await;
    (r, b)
}

async fn wr_at<B: IoVectoredBuf>(f: &compio_fs::File, b: B, pos: u64) -> io::Result<usize> {
    let mut f = f;
    f.write_vectored_at(b, pos).await.0
}

fn wf_all(shs: &[Shape]) -> bool {
    shs.iter().all(|s| s.wf())
}

/// construct the sliced buffers of a non-wf request so that the genuine assertion fires
fn try_construct(shs: &[Shape]) -> Obs {
    let r = catch(|| {
        for s in shs {
            if s.len <= s.mem.len() {
                let _ = mk_any(s);
            } else {
                panic!("len > capacity cannot be constructed");
            }
        }
    });
    match r {
        Ok(()) => obs("constructed"),
        Err(_) => obs("panic"),
    }
}

async fn compio_line(st: &mut CState, dir: &Path, w: &[&str]) -> Obs {
    let num = |s: &str| s.parse::<u64>().ok();
    if fifo_guard(dir, w) {
        return obs("unsupported");
    }
    match w {
        ["splice", ..] => {
            let Some((src, dst, len, oi, oo)) = parse_splice(w) else { return obs("bad-op") };
            // bookkeeping guards (never start a transfer that would wait for a peer)
            if let End::P(p) = src {
                let Some(pp) = st.pipes.get(&p) else { return obs("nohandle") };
                if pp.rx.is_none() {
                    return obs("closed");
                }
                if pp.buffered == 0 && (pp.tx.is_some() || pp.fifo) {
                    return obs("wouldblock");
                }
            }
            if let End::P(p) = dst {
                let Some(pp) = st.pipes.get(&p) else { return obs("nohandle") };
                if pp.tx.is_none() {
                    return obs("closed");
                }
                if pp.slots >= SLOT_LIMIT || pp.buffered >= PIPE_CAPACITY {
                    return obs("full");
                }
            }
            let r = match (src, dst) {
                (End::F(a), End::P(b)) => {
                    let Some(f) = st.files.get(&a) else { return obs("nohandle") };
                    c_splice(f, st.pipes[&b].tx.as_ref().unwrap(), len, oi, oo).await
                }
                (End::P(a), End::F(b)) => {
                    let Some(f) = st.files.get(&b) else { return obs("nohandle") };
                    c_splice(st.pipes[&a].rx.as_ref().unwrap(), f, len, oi, oo).await
                }
                (End::P(a), End::P(b)) => c_splice(st.pipes[&a].rx.as_ref().unwrap(), st.pipes[&b].tx.as_ref().unwrap(), len, oi, oo).await,
                (End::F(a), End::F(b)) => {
                    let (Some(f), Some(g)) = (st.files.get(&a), st.files.get(&b)) else { return obs("nohandle") };
                    c_splice(f, g, len, oi, oo).await
                }
            };
            match r {
                None => obs("timeout"),
                Some(Err(e)) => err_obs(&e),
                Some(Ok(n)) => {
                    if let End::P(p) = src {
                        let pp = st.pipes.get_mut(&p).unwrap();
                        pp.buffered -= n.min(pp.buffered);
                        if pp.buffered == 0 {
                            pp.slots = 0;
                        }
                    }
                    if let End::P(p) = dst {
                        let pp = st.pipes.get_mut(&p).unwrap();
                        pp.buffered += n;
                        pp.slots += (n > 0) as usize;
                    }
                    obs(format!("ok {n}"))
                }
            }
        }
        ["dtouch", p] => res_obs(compio_fs::write(tpath(dir, p), Vec::<u8>::new()).await.0),
        ["dmkdir", p] => res_obs(compio_fs::create_dir(tpath(dir, p)).await),
        ["dmkdirall", p] => res_obs(compio_fs::create_dir_all(tpath(dir, p)).await),
        ["dbuild", rec, mode, p] => {
            use std::os::unix::fs::DirBuilderExt;
            let Ok(mode) = u32::from_str_radix(mode, 8) else { return obs("bad-op") };
            if *rec != "0" && *rec != "1" {
                return obs("bad-op");
            }
            let mut b = compio_fs::DirBuilder::new();
            b.recursive(*rec == "1").mode(mode);
            res_obs(b.create(tpath(dir, p)).await)
        }
        ["drmdir", p] => res_obs(compio_fs::remove_dir(tpath(dir, p)).await),
        ["drm", p] => res_obs(compio_fs::remove_file(tpath(dir, p)).await),
        ["drename", a, b] => res_obs(compio_fs::rename(tpath(dir, a), tpath(dir, b)).await),
        ["dlink", a, b] => res_obs(compio_fs::hard_link(tpath(dir, a), tpath(dir, b)).await),
        ["dsymlink", t, p] => res_obs(compio_fs::symlink(tpath(dir, t), tpath(dir, p)).await),
        ["dstat", p] => kind_obs(compio_fs::metadata(tpath(dir, p)).await.map(|m| (m.is_dir(), m.is_symlink()))),
        ["dlstat", p] => kind_obs(compio_fs::symlink_metadata(tpath(dir, p)).await.map(|m| (m.is_dir(), m.is_symlink()))),
        ["dtree"] => tree_obs(dir),
        ["hread", h, pos, cap] => {
            let (Some(h), Some(pos), Some(cap)) = (num(h), num(pos), huge_cap(cap)) else { return obs("bad-op") };
            let Some(f) = st.files.get(&h) else { return obs("nohandle") };
            let compio_buf::BufResult(r, v) = f.read_at(Vec::<u8>::with_capacity(cap), pos).await;
            huge_obs(r, &v)
        }
        ["hpread", p, cap] => {
            let (Some(p), Some(cap)) = (num(p), huge_cap(cap)) else { return obs("bad-op") };
            let Some(pp) = st.pipes.get_mut(&p) else { return obs("nohandle") };
            let writer_open = pp.tx.is_some() || pp.fifo;
            let Some(rx) = pp.rx.as_mut() else { return obs("closed") };
            if pp.buffered == 0 && writer_open {
                return obs("wouldblock");
            }
            let compio_buf::BufResult(r, v) = rx.read(Vec::<u8>::with_capacity(cap)).await;
            if let Ok(n) = &r {
                pp.buffered -= (*n).min(pp.buffered);
                if pp.buffered == 0 { pp.slots = 0; }
            }
            huge_obs(r, &v)
        }
        ["openx", ..] => {
            let Some((h, name, b, custom, mode)) = parse_openx(w) else { return obs("bad-op") };
            let mut oo = compio_fs::OpenOptions::new();
            oo.read(b[0]).write(b[1]).truncate(b[2]).create(b[3]).create_new(b[4]).custom_flags(custom).mode(mode);
            match oo.open(dir.join(name)).await {
                Ok(f) => {
                    let o = openx_obs(f.as_raw_fd());
                    st.files.insert(h, f);
                    o
                }
                Err(e) => err_obs(&e),
            }
        }
        ["mkfifo", name] => res_obs(mkfifo(&dir.join(name))),
        ["fifo", p, name] => {
            let Some(p) = num(p) else { return obs("bad-op") };
            let mut oo = compio_fs::pipe::OpenOptions::new();
            oo.read_write(true);
            let rx = match oo.open_receiver(dir.join(name)).await {
                Ok(rx) => rx,
                Err(e) => return err_obs(&e),
            };
            match oo.open_sender(dir.join(name)).await {
                Ok(tx) => {
                    st.pipes.insert(p, CPipe { rx: Some(rx), tx: Some(tx), buffered: 0, fifo: true, slots: 0 });
                    obs("ok")
                }
                Err(e) => err_obs(&e),
            }
        }
        ["readall", name] => match compio_fs::read(dir.join(name)).await {
            Ok(c) => obs(format!("ok {}", hex(&c))),
            Err(e) => err_obs(&e),
        },
        ["writeall", name, data] => {
            let Some(d) = unhex_checked(data) else { return obs("bad-op") };
            res_obs(compio_fs::write(dir.join(name), d).await.0)
        }
        ["open", h, name, bits] => {
            let (Some(h), true) = (num(h), bits.len() == 5 && bits.bytes().all(|b| b == b'0' || b == b'1')) else { return obs("bad-op") };
            let b: Vec<bool> = bits.bytes().map(|x| x == b'1').collect();
            let mut oo = compio_fs::OpenOptions::new();
            oo.read(b[0]).write(b[1]).truncate(b[2]).create(b[3]).create_new(b[4]);
            match oo.open(dir.join(name)).await {
                Ok(f) => {
                    st.files.insert(h, f);
                    obs("ok")
                }
                Err(e) => err_obs(&e),
            }
        }
        ["close", h] => {
            let Some(h) = num(h) else { return obs("bad-op") };
            if let Some(f) = st.files.remove(&h) {
                res_obs(f.close().await)
            } else if st.seq.remove(&h).is_some() {
                obs("ok")
            } else {
                obs("nohandle")
            }
        }
        ["readat", h, pos, buf] => {
            let (Some(h), Some(pos), Some(sh)) = (num(h), num(pos), parse_rbuf(buf)) else { return obs("bad-op") };
            let Some(f) = st.files.get(&h) else { return obs("nohandle") };
            if !sh.wf() {
                return try_construct(&[sh]);
            }
            let (r, root) = if sh.sliced {
                let s = mk_slice(&sh);
                let compio_buf::BufResult(r, s) = f.read_at(s, pos).await;
                (r, s.into_inner())
            } else {
                let v = mk_vec(&sh);
                let compio_buf::BufResult(r, v) = f.read_at(v, pos).await;
                (r, v)
            };
            match r {
                Ok(n) => read_obs(n, &[sh], &[root], false),
                Err(e) => err_obs(&e),
            }
        }
        ["readv", h, pos, bufs] => {
            let shs: Option<Vec<Shape>> = list_of(bufs).into_iter().map(parse_rbuf).collect();
            let (Some(h), Some(pos), Some(shs)) = (num(h), num(pos), shs) else { return obs("bad-op") };
            let Some(f) = st.files.get(&h) else { return obs("nohandle") };
            if !wf_all(&shs) {
                return try_construct(&shs);
            }
            c_read_vec(&shs, async |b| match b {
                VecKind::Arr2(a) => {
                    let (r, a) = rd_at(f, a, pos).await;
                    (r, VecKind::Arr2(a))
                }
                VecKind::Plain(a) => {
                    let (r, a) = rd_at(f, a, pos).await;
                    (r, VecKind::Plain(a))
                }
                VecKind::Mixed(a) => {
                    let (r, a) = rd_at(f, a, pos).await;
                    (r, VecKind::Mixed(a))
                }
            })
            .await
        }
        ["writeat", h, pos, buf] => {
            let (Some(h), Some(pos), Some(sh)) = (num(h), num(pos), parse_wbuf(buf)) else { return obs("bad-op") };
            let Some(f) = st.files.get(&h) else { return obs("nohandle") };
            if !sh.wf() {
                return try_construct(&[sh]);
            }
            if pos > WRITE_LIMIT && pos != u64::MAX {
                return obs("unsupported");
            }
            let mut f = f;
            let r = match mk_any(&sh) {
                AnyBuf::V(v) => f.write_at(v, pos).await.0,
                AnyBuf::S(s) => f.write_at(s, pos).await.0,
            };
            match r {
                Ok(n) => obs(format!("ok {n}")),
                Err(e) => err_obs(&e),
            }
        }
        ["writev", h, pos, bufs] => {
            let shs: Option<Vec<Shape>> = list_of(bufs).into_iter().map(parse_wbuf).collect();
            let (Some(h), Some(pos), Some(shs)) = (num(h), num(pos), shs) else { return obs("bad-op") };
            let Some(f) = st.files.get(&h) else { return obs("nohandle") };
            if !wf_all(&shs) {
                return try_construct(&shs);
            }
            if pos > WRITE_LIMIT && pos != u64::MAX {
                return obs("unsupported");
            }
            let all_plain = shs.iter().all(|s| !s.sliced);
            let r = if all_plain && shs.len() == 2 {
                wr_at(f, [mk_vec(&shs[0]), mk_vec(&shs[1])], pos).await
            } else if all_plain {
                wr_at(f, shs.iter().map(mk_vec).collect::<Vec<_>>(), pos).await
            } else {
                wr_at(f, shs.iter().map(mk_any).collect::<Vec<_>>(), pos).await
            };
            match r {
                Ok(n) => obs(format!("ok {n}")),
                Err(e) => err_obs(&e),
            }
        }
        ["setlen", h, n] => {
            let (Some(h), Some(n)) = (num(h), num(n)) else { return obs("bad-op") };
            let Some(f) = st.files.get(&h) else { return obs("nohandle") };
            if n > WRITE_LIMIT {
                return obs("unsupported");
            }
            res_obs(f.set_len(n).await)
        }
        ["sync", h, which] => {
            let Some(h) = num(h) else { return obs("bad-op") };
            let Some(f) = st.files.get(&h) else { return obs("nohandle") };
            res_obs(if *which == "data" { f.sync_data().await } else { f.sync_all().await })
        }
        ["meta", h] => {
            let Some(h) = num(h) else { return obs("bad-op") };
            let Some(f) = st.files.get(&h) else { return obs("nohandle") };
            match f.metadata().await {
                Ok(m) => meta_obs(m.is_dir(), m.is_file(), m.is_symlink(), m.len(), m.mode(), m.nlink()),
                Err(e) => err_obs(&e),
            }
        }
        ["stat", name] => match compio_fs::metadata(dir.join(name)).await {
            Ok(m) => meta_obs(m.is_dir(), m.is_file(), m.is_symlink(), m.len(), m.mode(), m.nlink()),
            Err(e) => err_obs(&e),
        },
        ["lstat", name] => match compio_fs::symlink_metadata(dir.join(name)).await {
            Ok(m) => meta_obs(m.is_dir(), m.is_file(), m.is_symlink(), m.len(), m.mode(), m.nlink()),
            Err(e) => err_obs(&e),
        },
        ["mkdir", name] => res_obs(compio_fs::create_dir(dir.join(name)).await),
        ["rmdir", name] => res_obs(compio_fs::remove_dir(dir.join(name)).await),
        ["unlink", name] => res_obs(compio_fs::remove_file(dir.join(name)).await),
        ["rename", a, b] => res_obs(compio_fs::rename(dir.join(a), dir.join(b)).await),
        ["hardlink", a, b] => res_obs(compio_fs::hard_link(dir.join(a), dir.join(b)).await),
        ["symlink", t, n] => res_obs(compio_fs::symlink(t, dir.join(n)).await),
        // observation through std::fs ("file contents read back through std::fs")
        ["content", name] => match std::fs::read(dir.join(name)) {
            Ok(c) => obs(format!("ok {}", hex(&c))),
            Err(e) => err_obs(&e),
        },
        ["pipe", p] => {
            let Some(p) = num(p) else { return obs("bad-op") };
            match compio_fs::pipe::anonymous().await {
                Ok((rx, tx)) => {
                    st.pipes.insert(p, CPipe { rx: Some(rx), tx: Some(tx), buffered: 0, fifo: false, slots: 0 });
                    obs("ok")
                }
                Err(e) => err_obs(&e),
            }
        }
        ["pclose", p, which] => {
            let Some(p) = num(p) else { return obs("bad-op") };
            let Some(pp) = st.pipes.get_mut(&p) else { return obs("nohandle") };
            match *which {
                "r" => {
                    if let Some(rx) = pp.rx.take() {
                        let _ = rx.close().await;
                    }
                    obs("ok")
                }
                "w" => {
                    if let Some(tx) = pp.tx.take() {
                        let _ = tx.close().await;
                    }
                    obs("ok")
                }
                _ => obs("bad-op"),
            }
        }
        ["pwrite", p, buf] => {
            let (Some(p), Some(sh)) = (num(p), parse_wbuf(buf)) else { return obs("bad-op") };
            let Some(pp) = st.pipes.get_mut(&p) else { return obs("nohandle") };
            let Some(tx) = pp.tx.as_mut() else { return obs("closed") };
            if !sh.wf() {
                return try_construct(&[sh]);
            }
            if pp.slots >= SLOT_LIMIT || pp.buffered + sh.visible().len() > PIPE_LIMIT {
                return obs("full");
            }
            let r = match mk_any(&sh) {
                AnyBuf::V(v) => tx.write(v).await.0,
                AnyBuf::S(s) => tx.write(s).await.0,
            };
            match r {
                Ok(n) => {
                    pp.buffered += n;
                pp.slots += (n > 0) as usize;
                    obs(format!("ok {n}"))
                }
                Err(e) => err_obs(&e),
            }
        }
        ["pwritev", p, bufs] => {
            let shs: Option<Vec<Shape>> = list_of(bufs).into_iter().map(parse_wbuf).collect();
            let (Some(p), Some(shs)) = (num(p), shs) else { return obs("bad-op") };
            let Some(pp) = st.pipes.get_mut(&p) else { return obs("nohandle") };
            let Some(tx) = pp.tx.as_mut() else { return obs("closed") };
            if !wf_all(&shs) {
                return try_construct(&shs);
            }
            let total: usize = shs.iter().map(|s| s.visible().len()).sum();
            if pp.slots >= SLOT_LIMIT || pp.buffered + total > PIPE_LIMIT {
                return obs("full");
            }
            let all_plain = shs.iter().all(|s| !s.sliced);
            let r = if all_plain {
                tx.write_vectored(shs.iter().map(mk_vec).collect::<Vec<_>>()).await.0
            } else {
                tx.write_vectored(shs.iter().map(mk_any).collect::<Vec<_>>()).await.0
            };
            match r {
                Ok(n) => {
                    pp.buffered += n;
                pp.slots += (n > 0) as usize;
                    obs(format!("ok {n}"))
                }
                Err(e) => err_obs(&e),
            }
        }
        ["pread", p, buf] => {
            let (Some(p), Some(sh)) = (num(p), parse_rbuf(buf)) else { return obs("bad-op") };
            let Some(pp) = st.pipes.get_mut(&p) else { return obs("nohandle") };
            let writer_open = pp.tx.is_some() || pp.fifo;
            let Some(rx) = pp.rx.as_mut() else { return obs("closed") };
            if !sh.wf() {
                return try_construct(&[sh]);
            }
            if pp.buffered == 0 && writer_open {
                return obs("wouldblock");
            }
            let (r, root) = if sh.sliced {
                let s = mk_slice(&sh);
                let compio_buf::BufResult(r, s) = rx.read(s).await;
                (r, s.into_inner())
            } else {
                let v = mk_vec(&sh);
                let compio_buf::BufResult(r, v) = rx.read(v).await;
                (r, v)
            };
            match r {
                Ok(n) => {
                    pp.buffered -= n.min(pp.buffered);
                if pp.buffered == 0 { pp.slots = 0; }
                    read_obs(n, &[sh], &[root], false)
                }
                Err(e) => err_obs(&e),
            }
        }
        ["preadv", p, bufs] => {
            let shs: Option<Vec<Shape>> = list_of(bufs).into_iter().map(parse_rbuf).collect();
            let (Some(p), Some(shs)) = (num(p), shs) else { return obs("bad-op") };
            let Some(pp) = st.pipes.get_mut(&p) else { return obs("nohandle") };
            let writer_open = pp.tx.is_some() || pp.fifo;
            let Some(rx) = pp.rx.as_mut() else { return obs("closed") };
            if !wf_all(&shs) {
                return try_construct(&shs);
            }
            if pp.buffered == 0 && writer_open {
                return obs("wouldblock");
            }
            let mut got = 0;
            let o = c_read_vec(&shs, async |b| match b {
                VecKind::Arr2(a) => {
                    let compio_buf::BufResult(r, a) = rx.read_vectored(a).await;
                    got = *r.as_ref().unwrap_or(&0);
                    (r, VecKind::Arr2(a))
                }
                VecKind::Plain(a) => {
                    let compio_buf::BufResult(r, a) = rx.read_vectored(a).await;
                    got = *r.as_ref().unwrap_or(&0);
                    (r, VecKind::Plain(a))
                }
                VecKind::Mixed(a) => {
                    let compio_buf::BufResult(r, a) = rx.read_vectored(a).await;
                    got = *r.as_ref().unwrap_or(&0);
                    (r, VecKind::Mixed(a))
                }
            })
            .await;
            pp.buffered -= got.min(pp.buffered);
                if pp.buffered == 0 { pp.slots = 0; }
            o
        }
        ["fseqopen", h, name, rw] => {
            let Some(h) = num(h) else { return obs("bad-op") };
            let r = std::fs::OpenOptions::new().read(rw.contains('r')).write(rw.contains('w')).open(dir.join(name));
            match r.and_then(|f| {
                if f.metadata()?.is_dir() {
                    return Err(io::Error::from_raw_os_error(21));
                }
                AsyncFd::new(f)
            }) {
                Ok(fd) => {
                    st.seq.insert(h, fd);
                    obs("ok")
                }
                Err(e) => err_obs(&e),
            }
        }
        ["fseqread", h, buf] => {
            let (Some(h), Some(sh)) = (num(h), parse_rbuf(buf)) else { return obs("bad-op") };
            let Some(fd) = st.seq.get_mut(&h) else { return obs("nohandle") };
            if !sh.wf() {
                return try_construct(&[sh]);
            }
            let (r, root) = if sh.sliced {
                let s = mk_slice(&sh);
                let compio_buf::BufResult(r, s) = fd.read(s).await;
                (r, s.into_inner())
            } else {
                let v = mk_vec(&sh);
                let compio_buf::BufResult(r, v) = fd.read(v).await;
                (r, v)
            };
            match r {
                Ok(n) => read_obs(n, &[sh], &[root], false),
                Err(e) => err_obs(&e),
            }
        }
        ["fseqwrite", h, buf] => {
            let (Some(h), Some(sh)) = (num(h), parse_wbuf(buf)) else { return obs("bad-op") };
            let Some(fd) = st.seq.get_mut(&h) else { return obs("nohandle") };
            if !sh.wf() {
                return try_construct(&[sh]);
            }
            let r = match mk_any(&sh) {
                AnyBuf::V(v) => fd.write(v).await.0,
                AnyBuf::S(s) => fd.write(s).await.0,
            };
            match r {
                Ok(n) => obs(format!("ok {n}")),
                Err(e) => err_obs(&e),
            }
        }
        _ => obs("bad-op"),
    }
}

/// `ok <access mode>`; the comparable part also carries the status flags F_GETFL reports
fn openx_obs(fd: i32) -> Obs {
    let fl = unsafe { libc::fcntl(fd, libc::F_GETFL) };
    if fl < 0 {
        return err_obs(&io::Error::last_os_error());
    }
    let text = format!("ok {}", fl & libc::O_ACCMODE);
    let status = fl & (libc::O_APPEND | libc::O_SYNC | libc::O_DSYNC | libc::O_DIRECT | libc::O_NOATIME);
    Obs { cmp: format!("{text} status={status:o}"), text, unrecorded: None, shrunk: None }
}

fn parse_openx<'a>(w: &[&'a str]) -> Option<(u64, &'a str, Vec<bool>, i32, u32)> {
    let [_, h, name, bits, custom, mode] = w else { return None };
    if bits.len() != 5 || !bits.bytes().all(|b| b == b'0' || b == b'1') {
        return None;
    }
    let custom: u32 = custom.parse().ok()?;
    Some((h.parse().ok()?, name, bits.bytes().map(|x| x == b'1').collect(), custom as i32, u32::from_str_radix(mode, 8).ok()?))
}

/// result of a read into a fresh `Vec::with_capacity(huge)`: `ok N LEN HEX(recorded bytes, at most 64)`
fn huge_obs(r: io::Result<usize>, v: &Vec<u8>) -> Obs {
    match r {
        Ok(n) => obs(format!("ok {n} {} {}", v.len(), hex(&v[..v.len().min(64)]))),
        Err(e) => err_obs(&e),
    }
}

/// capacities of 4 GiB and more are only reserved (never touched), below 2^40
fn huge_cap(s: &str) -> Option<usize> {
    let c: usize = s.parse().ok()?;
    if c > (1 << 40) { None } else { Some(c) }
}

/// the tree of the directory-utility operations lives below `T/`
fn tpath(dir: &Path, p: &str) -> PathBuf {
    let mut out = dir.join("T");
    for c in p.split('/').filter(|c| c.len() != 0) {
        out.push(c);
    }
    out
}

/// sorted listing `path:kind` of everything below `T/` (symlinks not followed); the comparable part also has
/// the permission bits of directories
fn tree_obs(dir: &Path) -> Obs {
    fn walk(root: &Path, rel: &str, text: &mut Vec<String>, cmp: &mut Vec<String>) {
        let here = if rel.is_empty() { root.to_path_buf() } else { root.join(rel) };
        let Ok(rd) = std::fs::read_dir(&here) else { return };
        for e in rd.flatten() {
            let name = e.file_name().to_string_lossy().into_owned();
            let r = if rel.is_empty() { name } else { format!("{rel}/{name}") };
            let Ok(m) = std::fs::symlink_metadata(root.join(&r)) else { continue };
            let k = if m.file_type().is_symlink() {
                "l"
            } else if m.is_dir() {
                "d"
            } else {
                "f"
            };
            text.push(format!("{r}:{k}"));
            cmp.push(if k == "d" { format!("{r}:{k}:{:o}", m.mode() & 0o7777) } else { format!("{r}:{k}:{}", m.nlink()) });
            if k == "d" {
                walk(root, &r, text, cmp);
            }
        }
    }
    let (mut text, mut cmp) = (vec![], vec![]);
    walk(&dir.join("T"), "", &mut text, &mut cmp);
    text.sort();
    cmp.sort();
    Obs { text: format!("ok {}", join_or(text)), cmp: format!("ok {}", join_or(cmp)), unrecorded: None, shrunk: None }
}

fn kind_obs(m: io::Result<(bool, bool)>) -> Obs {
    match m {
        Ok((true, _)) => obs("ok dir"),
        Ok((_, true)) => obs("ok symlink"),
        Ok(_) => obs("ok file"),
        Err(e) => err_obs(&e),
    }
}

#[derive(Clone, Copy, PartialEq)]
enum End {
    F(u64),
    P(u64),
}

fn parse_end(s: &str) -> Option<End> {
    let n: u64 = s.get(1..)?.parse().ok()?;
    match s.as_bytes().first()? {
        b'f' => Some(End::F(n)),
        b'p' => Some(End::P(n)),
        _ => None,
    }
}

fn parse_off(s: &str) -> Option<Option<i64>> {
    if s == "-" { Some(None) } else { s.parse::<i64>().ok().filter(|o| *o >= 0).map(Some) }
}

/// `splice SRC DST LEN OFFIN OFFOUT`
fn parse_splice(w: &[&str]) -> Option<(End, End, usize, Option<i64>, Option<i64>)> {
    let [_, a, b, len, oi, oo] = w else { return None };
    Some((parse_end(a)?, parse_end(b)?, len.parse().ok()?, parse_off(oi)?, parse_off(oo)?))
}

async fn c_splice<I: AsFd + 'static, O: AsFd + 'static>(
    a: &impl compio_driver::ToSharedFd<I>,
    b: &impl compio_driver::ToSharedFd<O>,
    len: usize,
    oi: Option<i64>,
    oo: Option<i64>,
) -> Option<io::Result<usize>> {
    let mut sp = compio_fs::pipe::splice(a, b, len);
    if let Some(o) = oi {
        sp = sp.offset_in(o);
    }
    if let Some(o) = oo {
        sp = sp.offset_out(o);
    }
    compio_runtime::time::timeout(std::time::Duration::from_secs(3), std::future::IntoFuture::into_future(sp)).await.ok()
}

fn is_fifo_path(p: &Path) -> bool {
    use std::os::unix::fs::FileTypeExt;
    std::fs::metadata(p).map(|m| m.file_type().is_fifo()).unwrap_or(false)
}

/// opening a FIFO through the plain file API would block (no peer): such lines are not executed
fn fifo_guard(dir: &Path, w: &[&str]) -> bool {
    let name = match w {
        ["open", _, name, _] | ["fseqopen", _, name, _] | ["openx", _, name, _, _, _] => name,
        ["content", name] | ["readall", name] | ["writeall", name, _] => name,
        _ => return false,
    };
    is_fifo_path(&dir.join(name))
}

fn mkfifo(p: &Path) -> io::Result<()> {
    use std::os::unix::ffi::OsStrExt;
    let c = CString::new(p.as_os_str().as_bytes()).map_err(|_| io::Error::from_raw_os_error(22))?;
    if unsafe { libc::mkfifo(c.as_ptr(), 0o644) } != 0 { Err(io::Error::last_os_error()) } else { Ok(()) }
}

fn meta_obs(is_dir: bool, is_file: bool, is_symlink: bool, len: u64, mode: u32, nlink: u64) -> Obs {
    let text = if is_dir {
        "ok dir".to_string()
    } else if is_symlink {
        "ok symlink".to_string()
    } else if is_file {
        format!("ok file {len}")
    } else {
        "ok other".to_string()
    };
    Obs { cmp: format!("{text} mode={mode:o} nlink={nlink}"), text, unrecorded: None, shrunk: None }
}

fn run_compio(rt: &Runtime, dir: &Path, lines: &[String]) -> Vec<Obs> {
    let _ = std::fs::remove_dir_all(dir);
    std::fs::create_dir_all(dir.join("T")).expect("mkdir");
    let out = rt.block_on(async {
        let mut st = CState::default();
        let mut out = vec![];
        for l in lines {
            let w: Vec<&str> = l.split_whitespace().collect();
            out.push(compio_line(&mut st, dir, &w).await);
        }
        for (_, f) in st.files.drain() {
            let _ = f.close().await;
        }
        out
    });
    let _ = std::fs::remove_dir_all(dir);
    out
}

// ---------------------------------------------------------------------------------------------
// OS twin (std::fs + libc)
// ---------------------------------------------------------------------------------------------

struct OPipe {
    rx: Option<OwnedFd>,
    tx: Option<OwnedFd>,
    buffered: usize,
    fifo: bool,
    slots: usize,
}

#[derive(Default)]
struct OState {
    files: HashMap<u64, std::fs::File>,
    seq: HashMap<u64, std::fs::File>,
    pipes: HashMap<u64, OPipe>,
}

fn cvt(r: isize) -> io::Result<usize> {
    if r < 0 { Err(io::Error::last_os_error()) } else { Ok(r as usize) }
}

/// readv/preadv/read/pread into the windows of fresh copies of the shapes
fn os_read(fd: i32, shs: &[Shape], pos: Option<u64>, vectored: bool) -> Obs {
    let mut mems: Vec<Vec<u8>> = shs.iter().map(|s| s.mem.clone()).collect();
    let iov: Vec<libc::iovec> = shs
        .iter()
        .zip(mems.iter_mut())
        .map(|(s, m)| {
            let (off, wl) = s.window();
            libc::iovec { iov_base: unsafe { m.as_mut_ptr().add(off) } as *mut _, iov_len: wl }
        })
        .collect();
    let r = unsafe {
        match (vectored, pos) {
            (true, Some(p)) => libc::preadv(fd, iov.as_ptr(), iov.len() as _, p as i64),
            (true, None) => libc::readv(fd, iov.as_ptr(), iov.len() as _),
            (false, Some(p)) => libc::pread(fd, iov[0].iov_base, iov[0].iov_len, p as i64),
            (false, None) => libc::read(fd, iov[0].iov_base, iov[0].iov_len),
        }
    };
    match cvt(r) {
        Ok(n) => {
            let hexes: Vec<String> = mems.iter().map(|m| hex(m)).collect();
            if vectored {
                obs(format!("ok {n} {}", join_or(hexes)))
            } else {
                // what a caller of pread on `&mut buf[begin..end]` holds afterwards: the buffer keeps its
                // length unless the data extends beyond it
                let len = shs[0].len.max(shs[0].begin + n);
                obs(format!("ok {n} {len} {}", hexes[0]))
            }
        }
        Err(e) => err_obs(&e),
    }
}

fn os_write(fd: i32, shs: &[Shape], pos: Option<u64>, vectored: bool) -> io::Result<usize> {
    let iov: Vec<libc::iovec> =
        shs.iter().map(|s| libc::iovec { iov_base: s.visible().as_ptr() as *mut _, iov_len: s.visible().len() }).collect();
    let r = unsafe {
        match (vectored, pos) {
            (true, Some(p)) => libc::pwritev(fd, iov.as_ptr(), iov.len() as _, p as i64),
            (true, None) => libc::writev(fd, iov.as_ptr(), iov.len() as _),
            (false, Some(p)) => libc::pwrite(fd, iov[0].iov_base, iov[0].iov_len, p as i64),
            (false, None) => libc::write(fd, iov[0].iov_base, iov[0].iov_len),
        }
    };
    cvt(r)
}

fn std_meta(m: io::Result<std::fs::Metadata>) -> Obs {
    match m {
        Ok(m) => meta_obs(m.is_dir(), m.is_file(), m.file_type().is_symlink(), m.len(), m.mode(), m.nlink()),
        Err(e) => err_obs(&e),
    }
}

fn os_line(st: &mut OState, dir: &Path, w: &[&str]) -> Obs {
    let num = |s: &str| s.parse::<u64>().ok();
    if fifo_guard(dir, w) {
        return obs("unsupported");
    }
    let wr = |r: io::Result<usize>| match r {
        Ok(n) => obs(format!("ok {n}")),
        Err(e) => err_obs(&e),
    };
    match w {
        ["splice", ..] => {
            let Some((src, dst, len, oi, oo)) = parse_splice(w) else { return obs("bad-op") };
            if let End::P(p) = src {
                let Some(pp) = st.pipes.get(&p) else { return obs("nohandle") };
                if pp.rx.is_none() {
                    return obs("closed");
                }
                if pp.buffered == 0 && (pp.tx.is_some() || pp.fifo) {
                    return obs("wouldblock");
                }
            }
            if let End::P(p) = dst {
                let Some(pp) = st.pipes.get(&p) else { return obs("nohandle") };
                if pp.tx.is_none() {
                    return obs("closed");
                }
                if pp.slots >= SLOT_LIMIT || pp.buffered >= PIPE_CAPACITY {
                    return obs("full");
                }
            }
            let fd_of = |e: End, input: bool| -> Option<i32> {
                match e {
                    End::F(h) => st.files.get(&h).map(|f| f.as_raw_fd()),
                    End::P(p) => {
                        let pp = st.pipes.get(&p)?;
                        if input { pp.rx.as_ref().map(|f| f.as_raw_fd()) } else { pp.tx.as_ref().map(|f| f.as_raw_fd()) }
                    }
                }
            };
            let (Some(fi), Some(fo)) = (fd_of(src, true), fd_of(dst, false)) else { return obs("nohandle") };
            let (mut oi, mut oo) = (oi, oo);
            let pi = oi.as_mut().map(|o| o as *mut i64).unwrap_or(std::ptr::null_mut());
            let po = oo.as_mut().map(|o| o as *mut i64).unwrap_or(std::ptr::null_mut());
            match cvt(unsafe { libc::splice(fi, pi, fo, po, len, 0) }) {
                Err(e) => err_obs(&e),
                Ok(n) => {
                    if let End::P(p) = src {
                        let pp = st.pipes.get_mut(&p).unwrap();
                        pp.buffered -= n.min(pp.buffered);
                        if pp.buffered == 0 {
                            pp.slots = 0;
                        }
                    }
                    if let End::P(p) = dst {
                        let pp = st.pipes.get_mut(&p).unwrap();
                        pp.buffered += n;
                        pp.slots += (n > 0) as usize;
                    }
                    obs(format!("ok {n}"))
                }
            }
        }
        ["dtouch", p] => res_obs(std::fs::write(tpath(dir, p), b"")),
        ["dmkdir", p] => res_obs(std::fs::create_dir(tpath(dir, p))),
        ["dmkdirall", p] => res_obs(std::fs::create_dir_all(tpath(dir, p))),
        ["dbuild", rec, mode, p] => {
            use std::os::unix::fs::DirBuilderExt;
            let Ok(mode) = u32::from_str_radix(mode, 8) else { return obs("bad-op") };
            if *rec != "0" && *rec != "1" {
                return obs("bad-op");
            }
            let mut b = std::fs::DirBuilder::new();
            b.recursive(*rec == "1").mode(mode);
            res_obs(b.create(tpath(dir, p)))
        }
        ["drmdir", p] => res_obs(std::fs::remove_dir(tpath(dir, p))),
        ["drm", p] => res_obs(std::fs::remove_file(tpath(dir, p))),
        ["drename", a, b] => res_obs(std::fs::rename(tpath(dir, a), tpath(dir, b))),
        ["dlink", a, b] => res_obs(std::fs::hard_link(tpath(dir, a), tpath(dir, b))),
        ["dsymlink", t, p] => res_obs(std::os::unix::fs::symlink(tpath(dir, t), tpath(dir, p))),
        ["dstat", p] => kind_obs(std::fs::metadata(tpath(dir, p)).map(|m| (m.is_dir(), m.file_type().is_symlink()))),
        ["dlstat", p] => kind_obs(std::fs::symlink_metadata(tpath(dir, p)).map(|m| (m.is_dir(), m.file_type().is_symlink()))),
        ["dtree"] => tree_obs(dir),
        ["hread", h, pos, cap] => {
            let (Some(h), Some(pos), Some(cap)) = (num(h), num(pos), huge_cap(cap)) else { return obs("bad-op") };
            let Some(f) = st.files.get(&h) else { return obs("nohandle") };
            let mut v = Vec::<u8>::with_capacity(cap);
            let r = cvt(unsafe { libc::pread(f.as_raw_fd(), v.as_mut_ptr() as *mut _, cap, pos as i64) });
            if let Ok(n) = &r {
                unsafe { v.set_len(*n) };
            }
            huge_obs(r, &v)
        }
        ["hpread", p, cap] => {
            let (Some(p), Some(cap)) = (num(p), huge_cap(cap)) else { return obs("bad-op") };
            let Some(pp) = st.pipes.get_mut(&p) else { return obs("nohandle") };
            let writer_open = pp.tx.is_some() || pp.fifo;
            let Some(rx) = pp.rx.as_ref() else { return obs("closed") };
            if pp.buffered == 0 && writer_open {
                return obs("wouldblock");
            }
            let mut v = Vec::<u8>::with_capacity(cap);
            let r = cvt(unsafe { libc::read(rx.as_raw_fd(), v.as_mut_ptr() as *mut _, cap) });
            if let Ok(n) = &r {
                unsafe { v.set_len(*n) };
                pp.buffered -= (*n).min(pp.buffered);
                if pp.buffered == 0 { pp.slots = 0; }
            }
            huge_obs(r, &v)
        }
        ["openx", ..] => {
            use std::os::unix::fs::OpenOptionsExt;
            let Some((h, name, b, custom, mode)) = parse_openx(w) else { return obs("bad-op") };
            let mut oo = std::fs::OpenOptions::new();
            oo.read(b[0]).write(b[1]).truncate(b[2]).create(b[3]).create_new(b[4]).custom_flags(custom).mode(mode);
            match oo.open(dir.join(name)) {
                Ok(f) => {
                    let o = openx_obs(f.as_raw_fd());
                    st.files.insert(h, f);
                    o
                }
                Err(e) => err_obs(&e),
            }
        }
        ["mkfifo", name] => res_obs(mkfifo(&dir.join(name))),
        ["fifo", p, name] => {
            use std::os::unix::fs::FileTypeExt;
            let Some(p) = num(p) else { return obs("bad-op") };
            let open = || -> io::Result<std::fs::File> {
                let f = std::fs::OpenOptions::new().read(true).write(true).open(dir.join(name))?;
                if !f.metadata()?.file_type().is_fifo() {
                    return Err(io::Error::from_raw_os_error(22));
                }
                Ok(f)
            };
            match open().and_then(|rx| Ok((rx, open()?))) {
                Ok((rx, tx)) => {
                    st.pipes.insert(p, OPipe { rx: Some(rx.into()), tx: Some(tx.into()), buffered: 0, fifo: true, slots: 0 });
                    obs("ok")
                }
                Err(e) => err_obs(&e),
            }
        }
        ["readall", name] => match std::fs::read(dir.join(name)) {
            Ok(c) => obs(format!("ok {}", hex(&c))),
            Err(e) => err_obs(&e),
        },
        ["writeall", name, data] => {
            let Some(d) = unhex_checked(data) else { return obs("bad-op") };
            res_obs(std::fs::write(dir.join(name), d))
        }
        ["open", h, name, bits] => {
            let (Some(h), true) = (num(h), bits.len() == 5 && bits.bytes().all(|b| b == b'0' || b == b'1')) else { return obs("bad-op") };
            let b: Vec<bool> = bits.bytes().map(|x| x == b'1').collect();
            match std::fs::OpenOptions::new().read(b[0]).write(b[1]).truncate(b[2]).create(b[3]).create_new(b[4]).open(dir.join(name)) {
                Ok(f) => {
                    st.files.insert(h, f);
                    obs("ok")
                }
                Err(e) => err_obs(&e),
            }
        }
        ["close", h] => {
            let Some(h) = num(h) else { return obs("bad-op") };
            if st.files.remove(&h).is_some() || st.seq.remove(&h).is_some() { obs("ok") } else { obs("nohandle") }
        }
        ["readat", h, pos, buf] => {
            let (Some(h), Some(pos), Some(sh)) = (num(h), num(pos), parse_rbuf(buf)) else { return obs("bad-op") };
            let Some(f) = st.files.get(&h) else { return obs("nohandle") };
            if !sh.wf() {
                return obs("panic");
            }
            os_read(f.as_raw_fd(), &[sh], Some(pos), false)
        }
        ["readv", h, pos, bufs] => {
            let shs: Option<Vec<Shape>> = list_of(bufs).into_iter().map(parse_rbuf).collect();
            let (Some(h), Some(pos), Some(shs)) = (num(h), num(pos), shs) else { return obs("bad-op") };
            let Some(f) = st.files.get(&h) else { return obs("nohandle") };
            if !wf_all(&shs) {
                return obs("panic");
            }
            os_read(f.as_raw_fd(), &shs, Some(pos), true)
        }
        ["writeat", h, pos, buf] => {
            let (Some(h), Some(pos), Some(sh)) = (num(h), num(pos), parse_wbuf(buf)) else { return obs("bad-op") };
            let Some(f) = st.files.get(&h) else { return obs("nohandle") };
            if !sh.wf() {
                return obs("panic");
            }
            if pos > WRITE_LIMIT && pos != u64::MAX {
                return obs("unsupported");
            }
            // std's own positional write
            wr(f.write_at(sh.visible(), pos))
        }
        ["writev", h, pos, bufs] => {
            let shs: Option<Vec<Shape>> = list_of(bufs).into_iter().map(parse_wbuf).collect();
            let (Some(h), Some(pos), Some(shs)) = (num(h), num(pos), shs) else { return obs("bad-op") };
            let Some(f) = st.files.get(&h) else { return obs("nohandle") };
            if !wf_all(&shs) {
                return obs("panic");
            }
            if pos > WRITE_LIMIT && pos != u64::MAX {
                return obs("unsupported");
            }
            wr(os_write(f.as_raw_fd(), &shs, Some(pos), true))
        }
        ["setlen", h, n] => {
            let (Some(h), Some(n)) = (num(h), num(n)) else { return obs("bad-op") };
            let Some(f) = st.files.get(&h) else { return obs("nohandle") };
            if n > WRITE_LIMIT {
                return obs("unsupported");
            }
            res_obs(f.set_len(n))
        }
        ["sync", h, which] => {
            let Some(h) = num(h) else { return obs("bad-op") };
            let Some(f) = st.files.get(&h) else { return obs("nohandle") };
            res_obs(if *which == "data" { f.sync_data() } else { f.sync_all() })
        }
        ["meta", h] => {
            let Some(h) = num(h) else { return obs("bad-op") };
            let Some(f) = st.files.get(&h) else { return obs("nohandle") };
            std_meta(f.metadata())
        }
        ["stat", name] => std_meta(std::fs::metadata(dir.join(name))),
        ["lstat", name] => std_meta(std::fs::symlink_metadata(dir.join(name))),
        ["mkdir", name] => res_obs(std::fs::create_dir(dir.join(name))),
        ["rmdir", name] => res_obs(std::fs::remove_dir(dir.join(name))),
        ["unlink", name] => res_obs(std::fs::remove_file(dir.join(name))),
        ["rename", a, b] => res_obs(std::fs::rename(dir.join(a), dir.join(b))),
        ["hardlink", a, b] => res_obs(std::fs::hard_link(dir.join(a), dir.join(b))),
        ["symlink", t, n] => res_obs(std::os::unix::fs::symlink(t, dir.join(n))),
        ["content", name] => match std::fs::read(dir.join(name)) {
            Ok(c) => obs(format!("ok {}", hex(&c))),
            Err(e) => err_obs(&e),
        },
        ["pipe", p] => {
            let Some(p) = num(p) else { return obs("bad-op") };
            let mut fds = [0i32; 2];
            if unsafe { libc::pipe2(fds.as_mut_ptr(), libc::O_CLOEXEC) } != 0 {
                return err_obs(&io::Error::last_os_error());
            }
            let (rx, tx) = unsafe { (OwnedFd::from_raw_fd(fds[0]), OwnedFd::from_raw_fd(fds[1])) };
            st.pipes.insert(p, OPipe { rx: Some(rx), tx: Some(tx), buffered: 0, fifo: false, slots: 0 });
            obs("ok")
        }
        ["pclose", p, which] => {
            let Some(p) = num(p) else { return obs("bad-op") };
            let Some(pp) = st.pipes.get_mut(&p) else { return obs("nohandle") };
            match *which {
                "r" => {
                    pp.rx = None;
                    obs("ok")
                }
                "w" => {
                    pp.tx = None;
                    obs("ok")
                }
                _ => obs("bad-op"),
            }
        }
        ["pwrite", p, buf] | ["pwritev", p, buf] => {
            let vectored = w[0] == "pwritev";
            let shs: Option<Vec<Shape>> = if vectored { list_of(buf).into_iter().map(parse_wbuf).collect() } else { parse_wbuf(buf).map(|s| vec![s]) };
            let (Some(p), Some(shs)) = (num(p), shs) else { return obs("bad-op") };
            let Some(pp) = st.pipes.get_mut(&p) else { return obs("nohandle") };
            let Some(tx) = pp.tx.as_ref() else { return obs("closed") };
            if !wf_all(&shs) {
                return obs("panic");
            }
            let total: usize = shs.iter().map(|s| s.visible().len()).sum();
            if pp.slots >= SLOT_LIMIT || pp.buffered + total > PIPE_LIMIT {
                return obs("full");
            }
            let r = os_write(tx.as_raw_fd(), &shs, None, vectored);
            if let Ok(n) = &r {
                pp.buffered += n;
                pp.slots += (*n > 0) as usize;
            }
            wr(r)
        }
        ["pread", p, buf] | ["preadv", p, buf] => {
            let vectored = w[0] == "preadv";
            let shs: Option<Vec<Shape>> = if vectored { list_of(buf).into_iter().map(parse_rbuf).collect() } else { parse_rbuf(buf).map(|s| vec![s]) };
            let (Some(p), Some(shs)) = (num(p), shs) else { return obs("bad-op") };
            let Some(pp) = st.pipes.get_mut(&p) else { return obs("nohandle") };
            let writer_open = pp.tx.is_some() || pp.fifo;
            let Some(rx) = pp.rx.as_ref() else { return obs("closed") };
            if !wf_all(&shs) {
                return obs("panic");
            }
            if pp.buffered == 0 && writer_open {
                return obs("wouldblock");
            }
            let o = os_read(rx.as_raw_fd(), &shs, None, vectored);
            if let Some(n) = o.text.split(' ').nth(1).and_then(|x| x.parse::<usize>().ok()) {
                if o.text.starts_with("ok") {
                    pp.buffered -= n.min(pp.buffered);
                if pp.buffered == 0 { pp.slots = 0; }
                }
            }
            o
        }
        ["fseqopen", h, name, rw] => {
            let Some(h) = num(h) else { return obs("bad-op") };
            match std::fs::OpenOptions::new().read(rw.contains('r')).write(rw.contains('w')).open(dir.join(name)).and_then(|f| {
                if f.metadata()?.is_dir() {
                    return Err(io::Error::from_raw_os_error(21));
                }
                Ok(f)
            }) {
                Ok(f) => {
                    st.seq.insert(h, f);
                    obs("ok")
                }
                Err(e) => err_obs(&e),
            }
        }
        ["fseqread", h, buf] => {
            let (Some(h), Some(sh)) = (num(h), parse_rbuf(buf)) else { return obs("bad-op") };
            let Some(f) = st.seq.get(&h) else { return obs("nohandle") };
            if !sh.wf() {
                return obs("panic");
            }
            os_read(f.as_raw_fd(), &[sh], None, false)
        }
        ["fseqwrite", h, buf] => {
            let (Some(h), Some(sh)) = (num(h), parse_wbuf(buf)) else { return obs("bad-op") };
            let Some(f) = st.seq.get(&h) else { return obs("nohandle") };
            if !sh.wf() {
                return obs("panic");
            }
            wr(os_write(f.as_raw_fd(), &[sh], None, false))
        }
        _ => obs("bad-op"),
    }
}

fn run_os(dir: &Path, lines: &[String]) -> Vec<Obs> {
    let _ = std::fs::remove_dir_all(dir);
    std::fs::create_dir_all(dir.join("T")).expect("mkdir");
    let mut st = OState::default();
    let out = lines
        .iter()
        .map(|l| {
            let w: Vec<&str> = l.split_whitespace().collect();
            os_line(&mut st, dir, &w)
        })
        .collect();
    drop(st);
    let _ = std::fs::remove_dir_all(dir);
    out
}

// ---------------------------------------------------------------------------------------------
// generator
// ---------------------------------------------------------------------------------------------

fn rbytes(rng: &mut Rng, lo: u64, hi: u64) -> Vec<u8> {
    let n = rng.range(lo, hi) as usize;
    rng.bytes(n)
}

const NAMES: [&str; 4] = ["a", "b", "c", "d"];

fn gen_rbuf(rng: &mut Rng) -> String {
    let cap = *rng.pick(&[0u64, 1, 2, 3, 5, 8, 13, 16, 24]);
    let len = match rng.below(4) {
        0 => 0,
        1 => cap,
        _ => rng.below(cap + 1),
    };
    let fill = rng.below(256);
    if rng.chance(1, 4) {
        // slice view: `len..` (append into the spare capacity), `b..e`
        let begin = if rng.chance(1, 2) { len } else { rng.below(len + 1) };
        let end = if rng.chance(1, 2) { "-".to_string() } else { rng.range(begin, cap + 2).to_string() };
        format!("{cap}:{len}:{fill}:{begin}:{end}")
    } else {
        format!("{cap}:{len}:{fill}")
    }
}

fn gen_wbuf(rng: &mut Rng) -> String {
    let n = *rng.pick(&[0usize, 1, 2, 3, 5, 8, 13]);
    let data = rng.bytes(n);
    let spare = *rng.pick(&[0u64, 0, 1, 4]);
    if rng.chance(1, 5) {
        let begin = rng.below(n as u64 + 1);
        let end = if rng.chance(1, 2) { "-".to_string() } else { rng.range(begin, n as u64 + spare + 1).to_string() };
        format!("{}:{spare}:{begin}:{end}", hex(&data))
    } else {
        format!("{}:{spare}", hex(&data))
    }
}

fn gen_list(rng: &mut Rng, f: fn(&mut Rng) -> String) -> String {
    let n = match rng.below(8) {
        0 => 0,
        1 => 1,
        2 | 3 | 4 => 2,
        5 | 6 => 3,
        _ => 4,
    };
    join_or((0..n).map(|_| f(rng)).collect())
}

fn gen_pos(rng: &mut Rng, approx_len: u64) -> u64 {
    match rng.below(8) {
        0 => 0,
        1 => approx_len,
        2 => approx_len + rng.below(6),
        3 => rng.below(40),
        _ => rng.below(approx_len + 1),
    }
}

fn bits(r: bool, w: bool, t: bool, c: bool, n: bool) -> String {
    [r, w, t, c, n].iter().map(|b| if *b { '1' } else { '0' }).collect()
}

fn gen_file_ops(rng: &mut Rng, lines: &mut Vec<String>, handles: &[u64], n_ops: u64) {
    let mut approx = 16u64;
    for _ in 0..n_ops {
        let h = *rng.pick(handles);
        match rng.below(80) / 4 {
            0..=4 => lines.push(format!("readat {h} {} {}", gen_pos(rng, approx), gen_rbuf(rng))),
            5..=8 => lines.push(format!("readv {h} {} {}", gen_pos(rng, approx), gen_list(rng, gen_rbuf))),
            9..=12 => lines.push(format!("writeat {h} {} {}", gen_pos(rng, approx), gen_wbuf(rng))),
            13..=15 => lines.push(format!("writev {h} {} {}", gen_pos(rng, approx), gen_list(rng, gen_wbuf))),
            16 => {
                approx = rng.below(48);
                lines.push(format!("setlen {h} {approx}"));
            }
            17 if rng.chance(1, 6) => lines.push(format!("sync {h} {}", if rng.chance(1, 2) { "data" } else { "all" })),
            _ => lines.push(format!("meta {h}")),
        }
    }
}

fn gen_rw_case(rng: &mut Rng) -> Vec<String> {
    let mut l = vec![];
    let name = *rng.pick(&NAMES);
    l.push(format!("open 1 {name} {}", bits(true, true, false, true, false)));
    let n0 = rng.below(40) as usize;
    let init = rng.bytes(n0);
    l.push(format!("writeat 1 0 {}:0", hex(&init)));
    let mut handles = vec![1u64];
    if rng.chance(1, 3) {
        // second handle with restricted access
        let (r, w) = *rng.pick(&[(true, false), (false, true), (true, true)]);
        l.push(format!("open 2 {name} {}", bits(r, w, false, false, false)));
        handles.push(2);
    }
    let n = rng.range(4, 14);
    gen_file_ops(rng, &mut l, &handles, n);
    l.push(format!("content {name}"));
    l
}

fn gen_setup(rng: &mut Rng, l: &mut Vec<String>) {
    // a random flat directory: files, dirs, symlinks (to files, dirs, nothing, themselves)
    for name in NAMES {
        match rng.below(7) {
            0 | 1 => {
                l.push(format!("open 9 {name} {}", bits(false, true, false, true, false)));
                l.push(format!("writeat 9 0 {}:0", hex(&rbytes(rng, 0, 11))));
                l.push("close 9".into());
            }
            2 => l.push(format!("mkdir {name}")),
            3 => l.push(format!("symlink {} {name}", rng.pick(&NAMES))),
            _ => {}
        }
    }
}

/// custom flags: harmless ones, with and without access-mode bits (as copy-pasted from a C `open(2)` call)
fn gen_custom(rng: &mut Rng) -> u32 {
    let base = *rng.pick(&[0, 0, libc::O_NOFOLLOW, libc::O_NOFOLLOW, libc::O_SYNC, libc::O_CLOEXEC, libc::O_NOFOLLOW | libc::O_SYNC, libc::O_NOCTTY]);
    let acc = *rng.pick(&[0, 0, libc::O_WRONLY, libc::O_RDWR, libc::O_RDWR, 3]);
    (base | acc) as u32
}

fn gen_mode(rng: &mut Rng) -> &'static str {
    *rng.pick(&["666", "644", "600", "640", "444", "0", "755"])
}

fn gen_openx_case(rng: &mut Rng) -> Vec<String> {
    let mut l = vec![];
    gen_setup(rng, &mut l);
    let mut handles = vec![];
    for h in 1..=rng.range(1, 2) {
        let w = rng.chance(1, 2);
        let r = !w || rng.chance(1, 2);
        let b = bits(r, w, w && rng.chance(1, 4), w && rng.chance(1, 2), w && rng.chance(1, 6));
        l.push(format!("openx {h} {} {b} {} {}", rng.pick(&NAMES), gen_custom(rng), gen_mode(rng)));
        l.push(format!("meta {h}"));
        handles.push(h);
    }
    // what the descriptor can do: one read, one write, then random ops
    for h in &handles {
        l.push(format!("readat {h} 0 6:0:{}", rng.below(256)));
        l.push(format!("writeat {h} 1 {}:0", hex(&rbytes(rng, 1, 3))));
    }
    let n = rng.range(1, 4);
    gen_file_ops(rng, &mut l, &handles, n);
    for name in NAMES {
        l.push(format!("lstat {name}"));
        l.push(format!("content {name}"));
    }
    l
}

fn gen_open_case(rng: &mut Rng) -> Vec<String> {
    let mut l = vec![];
    gen_setup(rng, &mut l);
    let mut handles = vec![];
    for h in 1..=rng.range(1, 3) {
        let b = if rng.chance(1, 2) {
            // mostly valid combinations
            let w = rng.chance(3, 4);
            bits(rng.chance(2, 3) || !w, w, w && rng.chance(1, 3), w && rng.chance(1, 2), w && rng.chance(1, 5))
        } else {
            bits(rng.chance(1, 2), rng.chance(1, 2), rng.chance(1, 2), rng.chance(1, 2), rng.chance(1, 2))
        };
        l.push(format!("open {h} {} {b}", rng.pick(&NAMES)));
        handles.push(h);
    }
    let n = rng.range(2, 6);
    gen_file_ops(rng, &mut l, &handles, n);
    for name in NAMES {
        l.push(format!("lstat {name}"));
        l.push(format!("content {name}"));
    }
    l
}

fn gen_dir_case(rng: &mut Rng) -> Vec<String> {
    let mut l = vec![];
    gen_setup(rng, &mut l);
    let mut handles: Vec<u64> = vec![];
    for _ in 0..rng.range(4, 12) {
        let a = *rng.pick(&NAMES);
        let b = *rng.pick(&NAMES);
        match rng.below(16) {
            0 => l.push(format!("mkdir {a}")),
            1 => l.push(format!("rmdir {a}")),
            2 | 3 => l.push(format!("unlink {a}")),
            4..=6 => l.push(format!("rename {a} {b}")),
            7 | 8 => l.push(format!("hardlink {a} {b}")),
            9 => l.push(format!("symlink {a} {b}")),
            10 => l.push(format!("stat {a}")),
            11 if rng.chance(1, 2) => l.push(format!("lstat {a}")),
            11 if rng.chance(1, 2) => l.push(format!("readall {a}")),
            11 => l.push(format!("writeall {a} {}", hex(&rbytes(rng, 0, 9)))),
            12 | 13 => {
                let h = handles.len() as u64 + 1;
                l.push(format!("open {h} {a} {}", bits(true, rng.chance(1, 2), false, rng.chance(1, 3), false)));
                handles.push(h);
            }
            _ => {
                if !handles.is_empty() {
                    let hs = handles.clone();
                    gen_file_ops(rng, &mut l, &hs, 2);
                }
            }
        }
    }
    for name in NAMES {
        l.push(format!("lstat {name}"));
        l.push(format!("stat {name}"));
        l.push(format!("content {name}"));
    }
    l
}

fn gen_pipe_case(rng: &mut Rng) -> Vec<String> {
    let mut l = vec!["pipe 1".to_string()];
    let mut buffered: i64 = 0;
    let mut w_open = true;
    let mut r_open = true;
    for _ in 0..rng.range(4, 14) {
        match rng.below(12) {
            0..=2 if w_open => {
                l.push(format!("pwrite 1 {}", gen_wbuf(rng)));
                buffered += 13;
            }
            3 | 4 if w_open => {
                l.push(format!("pwritev 1 {}", gen_list(rng, gen_wbuf)));
                buffered += 13;
            }
            5..=7 if r_open => l.push(format!("pread 1 {}", gen_rbuf(rng))),
            8 | 9 if r_open => l.push(format!("preadv 1 {}", gen_list(rng, gen_rbuf))),
            10 if buffered > 0 && rng.chance(1, 2) => {
                l.push("pclose 1 w".into());
                w_open = false;
            }
            11 if rng.chance(1, 4) => {
                l.push("pclose 1 r".into());
                r_open = false;
            }
            _ => l.push(format!("pread 1 {}", gen_rbuf(rng))),
        }
    }
    // drain
    if w_open {
        l.push("pclose 1 w".into());
    }
    for _ in 0..3 {
        l.push("preadv 1 24:0:0,24:0:7".into());
    }
    l
}

/// short reads into buffers that already hold more than the read delivers (length must be kept)
fn gen_short_read_case(rng: &mut Rng) -> Vec<String> {
    let mut l = vec![];
    let flen = rng.range(6, 14);
    l.push(format!("writeall a {}", hex(&rbytes(rng, flen, flen))));
    l.push("open 1 a 10000".into());
    l.push("pipe 1".into());
    for _ in 0..rng.range(4, 9) {
        let cap = *rng.pick(&[8u64, 12, 16]);
        let len = if rng.chance(1, 2) { cap } else { cap / 2 };
        let fill = rng.below(256);
        let buf = if rng.chance(1, 5) { format!("{cap}:{len}:{fill}:{}:-", rng.below(len / 2 + 1)) } else { format!("{cap}:{len}:{fill}") };
        // at / near / beyond the end of the file
        let pos = match rng.below(5) {
            0 => flen,
            1 => flen + rng.range(1, 5),
            2 => flen.saturating_sub(rng.range(1, 3)),
            3 => flen.saturating_sub(rng.range(3, 6)),
            _ => rng.below(flen),
        };
        if rng.chance(3, 4) {
            l.push(format!("readat 1 {pos} {buf}"));
        } else {
            // the same through a pipe holding fewer bytes than the buffer's length
            l.push(format!("pwrite 1 {}:0", hex(&rbytes(rng, 1, 3))));
            l.push(format!("pread 1 {buf}"));
        }
    }
    l
}

/// capacities around 2^32 (`Vec::with_capacity`, reserved but never touched)
fn gen_huge_case(rng: &mut Rng) -> Vec<String> {
    let caps = [(1u64 << 32) - 1, 1 << 32, (1 << 32) + 5, 1 << 33, (1 << 32) + 4096];
    let mut l = vec![];
    l.push("writeall a 68656c6c6f2c20776f726c64210a".into());
    l.push("open 1 a 10000".into());
    for _ in 0..rng.range(2, 4) {
        l.push(format!("hread 1 {} {}", *rng.pick(&[0u64, 0, 3, 13, 14, 20]), rng.pick(&caps)));
    }
    l.push("pipe 1".into());
    l.push("pwrite 1 68656c6c6f2c20776f726c64210a:0".into());
    for _ in 0..rng.range(2, 3) {
        l.push(format!("hpread 1 {}", rng.pick(&caps)));
    }
    l.push("pclose 1 w".into());
    l.push(format!("hpread 1 {}", rng.pick(&caps)));
    l.push("pread 1 32:0:0".into());
    l.push("pread 1 32:0:0".into());
    l
}

/// the namespace every directory-utility case starts from: a regular file, a directory, a symlink to each,
/// a dangling symlink, a symlink loop; `miss` is missing
const TREE_SETUP: [&str; 7] = ["dtouch f", "dmkdir d", "dmkdir d/sub", "dsymlink f lf", "dsymlink d ld", "dsymlink nowhere dang", "dsymlink loop loop"];
const TREE_TOPS: [&str; 7] = ["f", "d", "lf", "ld", "dang", "miss", "loop"];

fn gen_tree_path(rng: &mut Rng) -> String {
    let top = *rng.pick(&TREE_TOPS);
    match rng.below(6) {
        0 | 1 => top.to_string(),
        2 | 3 => format!("{top}/{}", rng.pick(&["x", "sub", "y"])),
        4 => format!("{top}/{}/{}", rng.pick(&["x", "sub"]), rng.pick(&["y", "z"])),
        _ => format!("d/sub/{}", rng.pick(&["x", "y"])),
    }
}

fn gen_tree_case(rng: &mut Rng) -> Vec<String> {
    let mut l: Vec<String> = TREE_SETUP.iter().map(|s| s.to_string()).collect();
    for _ in 0..rng.range(4, 10) {
        let a = gen_tree_path(rng);
        let b = gen_tree_path(rng);
        match rng.below(20) {
            0..=3 => l.push(format!("dmkdirall {a}")),
            4 | 5 => l.push(format!("dbuild 1 {} {a}", rng.pick(&["777", "755", "700", "750"]))),
            6 => l.push(format!("dbuild 0 {} {a}", rng.pick(&["777", "755", "700"]))),
            7 | 8 => l.push(format!("dmkdir {a}")),
            9 => l.push(format!("drmdir {a}")),
            10 => l.push(format!("drm {a}")),
            11 | 12 => l.push(format!("drename {a} {b}")),
            13 => l.push(format!("dlink {a} {b}")),
            14 => l.push(format!("dsymlink {a} {b}")),
            15 => l.push(format!("dtouch {a}")),
            16 | 17 => l.push(format!("dstat {a}")),
            _ => l.push(format!("dlstat {a}")),
        }
    }
    l.push("dtree".into());
    l
}

const SPLICE_LENS: [u64; 8] = [0, 1, 3, 8, 100, 70000, 4294967301, 5];

fn gen_opt_off(rng: &mut Rng, around: u64) -> String {
    match rng.below(5) {
        0 | 1 => "-".to_string(),
        2 => "0".to_string(),
        3 => rng.below(around + 1).to_string(),
        _ => (around + rng.below(6)).to_string(),
    }
}

/// splice between a regular file and pipes (`with_file`) or between pipes only
fn gen_splice_case(rng: &mut Rng, with_file: bool) -> Vec<String> {
    let mut l = vec![];
    let flen = rng.range(8, 40);
    l.push(format!("writeall a {}", hex(&rbytes(rng, flen, flen))));
    l.push(format!("open 1 a {}", bits(true, true, false, false, false)));
    // the sink is another file: a pipe buffer spliced from a file is a reference to the file's page, and
    // copying it back into the same page is an overlapping copy the kernel does not specify
    l.push(format!("writeall b {}", hex(&rbytes(rng, 0, 12))));
    l.push(format!("open 2 b {}", bits(true, true, false, false, false)));
    l.push("pipe 1".into());
    l.push("pipe 2".into());
    let mut fills = 0;
    for _ in 0..rng.range(5, 11) {
        let len = *rng.pick(&SPLICE_LENS);
        match rng.below(12) {
            0..=2 if with_file && fills < 8 => {
                l.push(format!("splice f1 p{} {len} {} -", rng.range(1, 2), gen_opt_off(rng, flen)));
                fills += 1;
            }
            3 | 4 if with_file => l.push(format!("splice p{} f2 {len} - {}", rng.range(1, 2), gen_opt_off(rng, 12))),
            5 if with_file && rng.chance(1, 4) => l.push(format!("splice f1 f2 {len} 0 {}", gen_opt_off(rng, flen))),
            // zero copy: the pipe holds references to the file's pages, a later write shows through
            5 if with_file && rng.chance(1, 2) => l.push(format!("writeat 1 {} {}:0", rng.below(flen), hex(&rbytes(rng, 1, 4)))),
            0..=5 if fills < 8 => {
                l.push(format!("pwrite {} {}:0", rng.range(1, 2), hex(&rbytes(rng, 1, 12))));
                fills += 1;
            }
            6 | 7 | 8 if fills < 8 => {
                let a = rng.range(1, 2);
                l.push(format!("splice p{a} p{} {len} - -", 3 - a));
                fills += 1;
            }
            9 => l.push(format!("pread {} {}", rng.range(1, 2), gen_rbuf(rng))),
            10 if rng.chance(1, 6) => l.push(format!("splice p1 p2 {len} {} -", rng.below(4))),
            10 if rng.chance(1, 6) => l.push("splice p1 p1 4 - -".into()),
            _ => l.push(format!("preadv {} {}", rng.range(1, 2), gen_list(rng, gen_rbuf))),
        }
    }
    if rng.chance(1, 3) {
        l.push("pclose 2 r".into());
        l.push(if with_file { "splice f1 p2 4 0 -".to_string() } else { "splice p1 p2 4 - -".to_string() });
    }
    l.push("pclose 1 w".into());
    l.push(if with_file { "splice p1 f2 100 - 2".to_string() } else { "splice p1 p2 100 - -".to_string() });
    for p in [1, 2] {
        l.push(format!("preadv {p} 40:0:0,40:0:9"));
        l.push(format!("preadv {p} 40:0:0,40:0:9"));
    }
    l.push("content a".into());
    l.push("content b".into());
    l
}

fn gen_fifo_case(rng: &mut Rng) -> Vec<String> {
    let mut l = vec!["mkfifo p".to_string()];
    let mut name = "p";
    match rng.below(5) {
        0 => {
            l.push("symlink p q".into());
            name = "q";
        }
        1 => {
            l.push("hardlink p q".into());
            l.push("rename p q".into());
            name = "q";
        }
        2 => {
            l.push("rename p q".into());
            name = "q";
        }
        _ => {}
    }
    // things that are not FIFOs
    match rng.below(4) {
        0 => {
            l.push("writeall a 0102".into());
            l.push("fifo 2 a".into());
        }
        1 => l.push("fifo 2 b".into()),
        2 => {
            l.push("mkdir d".into());
            l.push("fifo 2 d".into());
        }
        _ => l.push(format!("open 3 {name} 11000")),
    }
    l.push(format!("fifo 1 {name}"));
    l.push(format!("lstat {name}"));
    l.push("stat p".into());
    for _ in 0..rng.range(3, 9) {
        match rng.below(6) {
            0 | 1 => l.push(format!("pwrite 1 {}", gen_wbuf(rng))),
            2 => l.push(format!("pwritev 1 {}", gen_list(rng, gen_wbuf))),
            3 | 4 => l.push(format!("pread 1 {}", gen_rbuf(rng))),
            _ => l.push(format!("preadv 1 {}", gen_list(rng, gen_rbuf))),
        }
    }
    if rng.chance(1, 3) {
        l.push("pclose 1 w".into());
        l.push("pread 1 8:0:0".into());
        l.push("pread 1 8:0:0".into());
    }
    l.push(format!("unlink {name}"));
    l.push("lstat p".into());
    l.push("lstat q".into());
    l
}

fn gen_fseq_case(rng: &mut Rng) -> Vec<String> {
    let mut l = vec![];
    l.push(format!("open 1 a {}", bits(true, true, false, true, false)));
    l.push(format!("writeat 1 0 {}:0", hex(&rbytes(rng, 8, 24))));
    l.push("close 1".into());
    l.push("fseqopen 2 a rw".into());
    for _ in 0..rng.range(2, 4) {
        if rng.chance(2, 3) {
            l.push(format!("fseqread 2 {}:0:{}", rng.range(1, 6), rng.below(256)));
        } else {
            l.push(format!("fseqwrite 2 {}:0", hex(&rbytes(rng, 1, 4))));
        }
    }
    l.push("content a".into());
    l
}

fn gen_hostile_case(rng: &mut Rng) -> Vec<String> {
    let mut l = vec![];
    l.push(format!("open 1 a {}", bits(true, true, false, true, false)));
    l.push(format!("writeat 1 0 {}:2", hex(&rng.bytes(9))));
    for _ in 0..rng.range(3, 8) {
        match rng.below(11) {
            0 => l.push(format!("readat 7 0 {}", gen_rbuf(rng))),
            1 => l.push("readat 1 0 4:2:0:3:-".into()),
            2 => l.push("readat 1 0 4:2:0:2:1".into()),
            3 => l.push(format!("readat 1 {} 8:0:1", *rng.pick(&[1u64 << 31, 1 << 32, (1 << 40) + 3, i64::MAX as u64, i64::MAX as u64 - 8, i64::MAX as u64 - 7, 1 << 63, u64::MAX - 1]))),
            4 => l.push("readv 1 0 .".into()),
            5 => l.push("writev 1 3 .".into()),
            6 => l.push(format!("readv 1 2 0:0:1,{},0:0:2", gen_rbuf(rng))),
            7 => l.push(format!("writev 1 {} -:0,{},-:3", rng.below(20), gen_wbuf(rng))),
            8 => l.push("close 5".into()),
            9 if rng.chance(1, 3) => {
                // offset u64::MAX (finding C08c)
                if rng.chance(1, 2) {
                    l.push(format!("readat 1 {} 4:0:9", u64::MAX));
                } else {
                    l.push(format!("writeat 1 {} {}:0", u64::MAX, hex(&rbytes(rng, 1, 3))));
                }
            }
            9 if rng.chance(1, 2) => {
                // zero-length reads of a directory handle (finding C08b)
                l.push("mkdir d".into());
                l.push("open 3 d 10000".into());
                l.push(format!("readat 3 {} 0:0:1", rng.below(3)));
                l.push("readv 3 0 0:0:1,0:0:2".into());
                l.push("readv 3 0 0:0:1,2:0:2".into());
                l.push("close 3".into());
            }
            _ => l.push(format!("setlen 1 {}", rng.below(4096))),
        }
    }
    l.push("content a".into());
    l
}

fn generate(tier: &str, rng: &mut Rng) -> Vec<Case> {
    let scale = if tier == "thorough" { 5 } else { 1 };
    let mut cases = vec![];
    let mut push = |name: String, lines: Vec<String>| cases.push(Case { name, lines });
    // all 32 open-option settings x what the name is
    for b in 0..32u32 {
        for (k, setup) in [
            ("missing", vec![]),
            ("file", vec!["open 9 a 01010".to_string(), "writeat 9 0 010203:0".into(), "close 9".into()]),
            ("dir", vec!["mkdir a".to_string()]),
            ("link", vec!["open 9 b 01010".to_string(), "writeat 9 0 0405:0".into(), "close 9".into(), "symlink b a".into()]),
            ("dangling", vec!["symlink c a".to_string()]),
            ("loop", vec!["symlink a a".to_string()]),
        ] {
            let bs: String = (0..5).map(|i| if b & (1 << (4 - i)) != 0 { '1' } else { '0' }).collect();
            let mut l = setup.clone();
            l.push(format!("open 1 a {bs}"));
            l.push("readat 1 0 4:0:0".into());
            l.push("writeat 1 1 aa:0".into());
            l.push("meta 1".into());
            for n in ["a", "b", "c"] {
                l.push(format!("lstat {n}"));
                l.push(format!("content {n}"));
            }
            push(format!("open/{k}/{bs}"), l);
        }
    }
    for i in 0..300 * scale {
        push(format!("rw/{i}"), gen_rw_case(rng));
    }
    // custom flags with / without access-mode bits on the three access settings, file and symlink
    for (ai, acc) in ["10000", "01000", "11000", "01010"].iter().enumerate() {
        for custom in [0, 1, 2, 3, libc::O_NOFOLLOW, libc::O_NOFOLLOW | 1, libc::O_NOFOLLOW | 2, libc::O_SYNC | 2, libc::O_CLOEXEC | 1] {
            for (k, setup) in [
                ("file", vec!["writeall a 30313233343536373839".to_string()]),
                ("link", vec!["writeall b 3031323334".to_string(), "symlink b a".to_string()]),
            ] {
                if tier != "thorough" && (ai + custom as usize + k.len()) % 2 == 1 {
                    continue;
                }
                let mut l = setup.clone();
                l.push(format!("openx 1 a {acc} {custom} 640"));
                l.push("meta 1".into());
                l.push("readat 1 2 4:0:0".into());
                l.push("writeat 1 0 7a7a:0".into());
                l.push("setlen 1 3".into());
                l.push("lstat a".into());
                l.push("content a".into());
                l.push("content b".into());
                push(format!("openx/{k}/{acc}/{custom}"), l);
            }
        }
    }
    for i in 0..120 * scale {
        push(format!("openx-rand/{i}"), gen_openx_case(rng));
    }
    for i in 0..100 * scale {
        push(format!("open-rand/{i}"), gen_open_case(rng));
    }
    for i in 0..100 * scale {
        push(format!("dir/{i}"), gen_dir_case(rng));
    }
    for i in 0..150 * scale {
        push(format!("pipe/{i}"), gen_pipe_case(rng));
    }
    for i in 0..40 * scale {
        push(format!("hostile/{i}"), gen_hostile_case(rng));
    }
    // the three capacities around 2^32, file and pipe, deterministic
    for cap in [(1u64 << 32) - 1, 1 << 32, (1 << 32) + 5] {
        push(
            format!("huge/{cap}"),
            vec![
                "writeall a 68656c6c6f2c20776f726c64210a".into(),
                "open 1 a 10000".into(),
                format!("hread 1 0 {cap}"),
                format!("hread 1 9 {cap}"),
                "pipe 1".into(),
                "pwrite 1 68656c6c6f2c20776f726c64210a:0".into(),
                format!("hpread 1 {cap}"),
                "pclose 1 w".into(),
                format!("hpread 1 {cap}"),
                format!("hpread 1 {cap}"),
            ],
        );
    }
    // create_dir_all / DirBuilder / create_dir on every kind of last component and below each of them
    for top in TREE_TOPS {
        for suffix in ["", "/x", "/x/y", "/sub"] {
            for (k, op) in [("all", "dmkdirall"), ("one", "dmkdir"), ("rec", "dbuild 1 750"), ("nonrec", "dbuild 0 750")] {
                if tier != "thorough" && (k == "nonrec" || (k == "one" && suffix == "/x/y")) {
                    continue;
                }
                let mut l: Vec<String> = TREE_SETUP.iter().map(|s| s.to_string()).collect();
                l.push(format!("{op} {top}{suffix}"));
                l.push(format!("dstat {top}{suffix}"));
                l.push(format!("dlstat {top}{suffix}"));
                l.push("dtree".into());
                push(format!("tree/{k}/{top}{}", suffix.replace('/', "_")), l);
            }
        }
    }
    for i in 0..120 * scale {
        push(format!("tree-rand/{i}"), gen_tree_case(rng));
    }
    // splice: a pipe filled to its capacity (16 pages) from a 70000-byte file, and pipe to pipe
    {
        let big: Vec<u8> = (0..70000u32).map(|i| (i % 251) as u8).collect();
        push(
            "splice/capacity".into(),
            vec![
                format!("writeall a {}", hex(&big)),
                "open 1 a 10000".into(),
                "pipe 1".into(),
                "pipe 2".into(),
                "splice f1 p1 100000 0 -".into(),
                "splice f1 p1 10 0 -".into(),
                "splice p1 p2 100000 - -".into(),
                "hpread 2 4294967296".into(),
                "splice f1 p1 4294967301 65530 -".into(),
                "pread 1 16:0:0".into(),
            ],
        );
        push(
            "splice/pipe-to-pipe-32k".into(),
            vec![
                "pipe 1".into(),
                "pipe 2".into(),
                format!("pwrite 1 {}:0", hex(&big[..16000])),
                format!("pwrite 1 {}:0", hex(&big[16000..32000])),
                "splice p1 p2 100000 - -".into(),
                "splice p1 p2 1 - -".into(),
                "pclose 1 w".into(),
                "splice p1 p2 1 - -".into(),
                "hpread 2 4294967296".into(),
            ],
        );
    }
    for i in 0..60 * scale {
        push(format!("splice-file/{i}"), gen_splice_case(rng, true));
    }
    for i in 0..60 * scale {
        push(format!("splice-pipes/{i}"), gen_splice_case(rng, false));
    }
    for i in 0..6 * scale {
        push(format!("huge-rand/{i}"), gen_huge_case(rng));
    }
    for i in 0..80 * scale {
        push(format!("short-read/{i}"), gen_short_read_case(rng));
    }
    for i in 0..40 * scale {
        push(format!("fifo/{i}"), gen_fifo_case(rng));
    }
    for i in 0..4 * scale {
        push(format!("fseq/{i}"), gen_fseq_case(rng));
    }
    cases
}

// ---------------------------------------------------------------------------------------------

/// distribution tags: buffer shapes and positions of a read/write line
fn shape_tags(line: &str) -> Vec<String> {
    let w: Vec<&str> = line.split_whitespace().collect();
    let (bufs, read) = match w.as_slice() {
        ["readat", _, _, b] | ["readv", _, _, b] | ["pread", _, b] | ["preadv", _, b] | ["fseqread", _, b] => (*b, true),
        ["writeat", _, _, b] | ["writev", _, _, b] | ["pwrite", _, b] | ["pwritev", _, b] | ["fseqwrite", _, b] => (*b, false),
        _ => return vec![],
    };
    let mut t = vec![];
    let items = list_of(bufs);
    if items.is_empty() {
        t.push("shape:empty-iovec-list".to_string());
    }
    for it in items {
        let sh = if read { parse_rbuf(it) } else { parse_wbuf(it) };
        let Some(sh) = sh else { continue };
        if !sh.wf() {
            t.push("shape:ill-formed".into());
            continue;
        }
        if sh.sliced {
            t.push(if sh.begin == sh.len && sh.end.is_none() { "shape:slice-append".into() } else { "shape:slice-window".to_string() });
        }
        if read {
            let (_, wl) = sh.window();
            t.push(
                if wl == 0 {
                    "shape:zero-capacity"
                } else if sh.len == 0 {
                    "shape:fresh-spare"
                } else if sh.len == sh.mem.len() {
                    "shape:fully-initialised"
                } else {
                    "shape:partly-initialised"
                }
                .to_string(),
            );
        } else {
            t.push(if sh.visible().is_empty() { "shape:zero-length-write" } else if sh.len < sh.mem.len() { "shape:write-with-spare" } else { "shape:write-exact" }.to_string());
        }
    }
    t
}

fn mk_rt(t: DriverType) -> Runtime {
    let mut pb = ProactorBuilder::new();
    pb.driver_type(t);
    let rt = compio_runtime::RuntimeBuilder::new().with_proactor(pb).build().expect("runtime");
    assert_eq!(rt.driver_type(), t, "requested driver not available");
    rt
}

fn main() {
    let base: PathBuf = std::env::temp_dir().join(format!("hx-c08-{}", std::process::id()));
    let _ = std::fs::remove_dir_all(&base);
    std::fs::create_dir_all(&base).expect("mkdir base");
    let _ = CString::new("x");
    let rt_iour = mk_rt(DriverType::IoUring);
    let rt_poll = mk_rt(DriverType::Poll);
    let (d_iour, d_poll, d_os) = (base.join("iour"), base.join("poll"), base.join("os"));

    let exec = |case: &Case| -> Exec {
        let mut ex = Exec::new();
        let t0 = std::time::Instant::now();
        let guarded = |rt: &Runtime, dir: &Path, drv: &str, ex: &mut Exec| match catch(|| run_compio(rt, dir, &case.lines)) {
            Ok(v) => v,
            Err(msg) => {
                ex.fail("C08:panic", format!("driver={drv}: panic while running the case: {msg}"));
                case.lines.iter().map(|_| obs("panic")).collect()
            }
        };
        let a = guarded(&rt_iour, &d_iour, "io_uring", &mut ex);
        let t1 = std::time::Instant::now();
        let b = guarded(&rt_poll, &d_poll, "polling", &mut ex);
        let t2 = std::time::Instant::now();
        let o = run_os(&d_os, &case.lines);
        let t3 = std::time::Instant::now();
        if std::env::var("C08_TIMING").is_ok() {
            eprintln!("T {} {:?} {:?} {:?}", case.name, t1 - t0, t2 - t1, t3 - t2);
        }
        let mut tainted: Option<&'static str> = None;
        let mut n_ok = 0;
        for (i, line) in case.lines.iter().enumerate() {
            let op = line.split_whitespace().next().unwrap_or("");
            let fseq = op.starts_with("fseq") && op != "fseqopen";
            ex.tag(format!("op:{op}"));
            for t in shape_tags(line) {
                ex.tag(t);
            }
            if a[i].text == b[i].text {
                ex.out.push(a[i].text.clone());
            } else {
                ex.out.push(format!("iour={} poll={}", a[i].text, b[i].text));
            }
            if a[i].text.starts_with("ok") {
                n_ok += 1;
            }
            if a[i].text.starts_with("err") {
                ex.tag(format!("err:{}", a[i].text));
            }
            let words: Vec<&str> = line.split_whitespace().collect();
            let minus_one = matches!(op, "readat" | "readv" | "writeat" | "writev") && words.get(2) == Some(&"18446744073709551615");
            let zero_read_dir = op == "readat"
                && words.get(3).and_then(|b| parse_rbuf(b)).map(|s| s.wf() && s.window().1 == 0).unwrap_or(false)
                && o[i].text == "err 21";
            let dir_util = matches!(
                op,
                "dtouch" | "dmkdir" | "dmkdirall" | "dbuild" | "drmdir" | "drm" | "drename" | "dlink" | "dsymlink" | "dstat" | "dlstat" | "dtree"
            );
            let splice_file = op == "splice"
                && words.iter().skip(1).take(2).any(|e| e.starts_with('f'))
                && b[i].text == "err 1"
                && a[i].cmp == o[i].cmp;
            let known = if fseq {
                Some("C08a:asyncfd-seq-regular-file")
            } else if minus_one {
                Some("C08c:iour-offset-minus-one")
            } else if zero_read_dir {
                Some("C08b:iour-zero-read-directory")
            } else if splice_file {
                Some("F080:poll-splice-regular-file")
            } else {
                tainted
            };
            let sig = |s: &str| known.map(|k| k.to_string()).unwrap_or(s.to_string());
            let mut bad = false;
            for (drv, x) in [("io_uring", &a[i]), ("polling", &b[i])] {
                if x.cmp != o[i].cmp {
                    bad = true;
                    ex.fail(
                        sig(if dir_util {
                            "C08:dir-util-differs"
                        } else if op == "splice" {
                            "C08:splice-differs"
                        } else {
                            "C08:os-divergence"
                        }),
                        format!("line {i} `{line}` driver={drv}: compio `{}` but the OS `{}`", x.cmp, o[i].cmp),
                    );
                }
                if let Some(d) = &x.shrunk {
                    ex.fail("C08:read-shrinks-buffer", format!("line {i} `{line}` driver={drv}: {d}"));
                }
                if let Some(d) = &x.unrecorded {
                    let vect = op == "readv" || op == "preadv";
                    ex.fail(
                        if vect { "F15:vectored-nonprefix-init" } else { "C08:read-not-recorded" },
                        format!("line {i} `{line}` driver={drv}: {d}"),
                    );
                    ex.tag("unrecorded");
                }
            }
            if a[i].text != b[i].text {
                bad = true;
                ex.fail(sig("C08:driver-divergence"), format!("line {i} `{line}`: io_uring `{}` but polling `{}`", a[i].text, b[i].text));
            }
            if bad && (fseq || minus_one || splice_file) {
                // the file position / content of the two drivers now differ: later differences of this case
                // are consequences of the same defect
                tainted = known;
            }
        }
        ex.nontrivial = n_ok >= 3;
        ex
    };
    run_harness(
        generate,
        exec,
        "non-trivial = at least 3 operations of the case succeed on the real code (every case runs on io_uring, polling and the OS twin)",
    );
    let _ = std::fs::remove_dir_all(&base);
}
