//! C02 — every operation completes exactly once, with its own result.
//!
//! Correspondence harness + implementation-only monitors on the REAL `compio_driver::Proactor`
//! (fusion build: io_uring and polling selectable per case, submission/event queue capacity per case) and,
//! in "future mode" (`cfg … fut`), on the REAL `compio_runtime::Runtime::submit` futures (`Submit`), polled by
//! the harness like an executor would: only after the task's waker was woken.
//!
//! A case is a little program over *channels* (pipes, socket pairs, memfd files) whose far ends are
//! driven by the harness with plain system calls, so the harness decides which operation becomes
//! ready when.  Lines (one output line each, reproduced by the Lean driver `c02d`):
//!
//!   cfg <poll|iour> <cap> [fut]      build the Proactor (resp. a Runtime around it)
//!   rpipe c | wpipe c | sock c | file c <hex>      create channel c
//!   feed c <hex> | eof c | hup c | fill c | drain c   harness-side system calls on the far end
//!   push k [lazy] <op…>              Proactor::push; then scan
//!   waker k                          Proactor::update_waker with a counting waker
//!   poll                             one Proactor::poll(Some(0)); then scan          (polling driver only)
//!   settle                           poll until quiescent; then scan
//!   release k…                       open the gates of thread-pool jobs, wait for them, settle, scan
//!   pop k                            Proactor::pop of a lazy key
//!   ctoken k | cancel k              Proactor::cancel_token / Proactor::cancel
//!
//! "scan" = `Proactor::pop` on every outstanding non-lazy key in push order; completions are printed as
//! `k=ok:<n>:<data>:w<wakes>` / `k=err:<errno>:-:w<wakes>`.
//!
//! Monitors (never consult the model): see `Mon` below.

use std::{
    collections::BTreeMap,
    future::Future,
    os::fd::{AsFd, AsRawFd, BorrowedFd, FromRawFd, OwnedFd, RawFd},
    pin::Pin,
    sync::{
        Arc,
        atomic::{AtomicBool, AtomicUsize, Ordering},
        mpsc,
    },
    task::{Context, Poll, Wake, Waker},
    time::Duration,
};

use compio_buf::{BufResult, IntoInner, SetLenExt};
use compio_driver::{
    AsyncifyPool, BufferPool, BufferRef, Cancel, DriverType, Key, OpCode, Proactor, PushEntry, TakeBuffer,
    op::{Asyncify, Interest, PollOnce, Read, ReadAt, ReadMulti, Recv, RecvFlags, Send, SendFlags, Splice, SpliceFlags, Write},
};
use compio_runtime::Runtime;
use hx_common::{Case, Exec, Rng, hex, run_harness, unhex};

const FILLER: u8 = 0xEE;
const CANARY: u8 = 0xA5;
const PAGE: usize = 4096;

struct Fdw(RawFd);
impl AsFd for Fdw {
    fn as_fd(&self) -> BorrowedFd<'_> {
        unsafe { BorrowedFd::borrow_raw(self.0) }
    }
}

struct CountWaker(AtomicUsize);
impl Wake for CountWaker {
    fn wake(self: Arc<Self>) {
        self.0.fetch_add(1, Ordering::SeqCst);
    }
    fn wake_by_ref(self: &Arc<Self>) {
        self.0.fetch_add(1, Ordering::SeqCst);
    }
}

// ---------------------------------------------------------------------------------------------
// raw system calls used by the harness side

fn sys_write(fd: RawFd, b: &[u8]) -> isize {
    unsafe { libc::write(fd, b.as_ptr() as _, b.len()) }
}

fn sys_read_all(fd: RawFd) -> Vec<u8> {
    let mut out = vec![];
    let mut buf = vec![0u8; 65536];
    loop {
        let k = unsafe { libc::read(fd, buf.as_mut_ptr() as _, buf.len()) };
        if k <= 0 {
            break;
        }
        out.extend_from_slice(&buf[..k as usize]);
    }
    out
}

/// bytes waiting to be read on a pipe / socket descriptor
fn fionread(fd: RawFd) -> usize {
    let mut n: libc::c_int = 0;
    let r = unsafe { libc::ioctl(fd, libc::FIONREAD, &mut n) };
    if r < 0 { 0 } else { n as usize }
}

/// spin (yielding, then sleeping) until `cond` holds or `bound` expired
fn wait_until(bound: Duration, mut cond: impl FnMut() -> bool) -> bool {
    let t0 = std::time::Instant::now();
    let mut spins = 0u32;
    loop {
        if cond() {
            return true;
        }
        if t0.elapsed() > bound {
            return false;
        }
        spins += 1;
        if spins < 200 {
            std::thread::yield_now();
        } else {
            std::thread::sleep(Duration::from_micros(200));
        }
    }
}

fn poll_ready(fd: RawFd, events: i16) -> bool {
    let mut p = libc::pollfd { fd, events, revents: 0 };
    let r = unsafe { libc::poll(&mut p, 1, 0) };
    r > 0 && (p.revents & (events | libc::POLLHUP | libc::POLLERR)) != 0
}

enum ChanKind {
    RPipe,
    WPipe,
    Sock,
    File,
}

struct Chan {
    kind: ChanKind,
    /// the descriptor the compio operations use
    near: OwnedFd,
    /// the harness side (None once closed / for files)
    far: Option<OwnedFd>,
    // ---- monitor state (implementation-only oracle) ----
    /// every byte the harness fed towards the compio side, in order
    fed: Vec<u8>,
    /// bytes handed to read-like operations on this channel (splice: moved out), in stream order
    consumed: Vec<u8>,
    /// what each completed read-like operation delivered
    segments: Vec<Vec<u8>>,
    /// payload each completed write-like operation reported as written
    wsegs: Vec<Vec<u8>>,
    /// payload bytes the harness drained from the far end
    drained: Vec<u8>,
    /// an operation on this channel was reported as failed / cancelled
    errored: bool,
    /// `dup c d`: this entry is only a second descriptor (`near`) for the kernel object of channel `alias`
    alias: Option<usize>,
    /// the user dropped the key of an operation on this channel: what that operation transferred is
    /// (legitimately) never reported, so the stream monitors cannot be exact here
    lossy: bool,
}

fn mk_pipe() -> (OwnedFd, OwnedFd) {
    let mut fds = [0i32; 2];
    let r = unsafe { libc::pipe2(fds.as_mut_ptr(), libc::O_NONBLOCK | libc::O_CLOEXEC) };
    assert_eq!(r, 0, "pipe2");
    unsafe { (OwnedFd::from_raw_fd(fds[0]), OwnedFd::from_raw_fd(fds[1])) }
}

fn mk_chan(kind: &str, content: &[u8]) -> Chan {
    let (k, near, far) = match kind {
        "rpipe" => {
            let (r, w) = mk_pipe();
            (ChanKind::RPipe, r, Some(w))
        }
        "wpipe" => {
            let (r, w) = mk_pipe();
            let rc = unsafe { libc::fcntl(w.as_raw_fd(), libc::F_SETPIPE_SZ, PAGE as libc::c_int) };
            assert!(rc >= PAGE as i32, "F_SETPIPE_SZ -> {rc}");
            (ChanKind::WPipe, w, Some(r))
        }
        "sock" => {
            let mut fds = [0i32; 2];
            let r = unsafe {
                libc::socketpair(libc::AF_UNIX, libc::SOCK_STREAM | libc::SOCK_NONBLOCK | libc::SOCK_CLOEXEC, 0, fds.as_mut_ptr())
            };
            assert_eq!(r, 0, "socketpair");
            let sz: libc::c_int = 64 * 1024;
            unsafe {
                libc::setsockopt(fds[0], libc::SOL_SOCKET, libc::SO_SNDBUF, &sz as *const _ as _, 4);
            }
            unsafe { (ChanKind::Sock, OwnedFd::from_raw_fd(fds[0]), Some(OwnedFd::from_raw_fd(fds[1]))) }
        }
        "file" => {
            let fd = unsafe { libc::memfd_create(c"c02".as_ptr(), libc::MFD_CLOEXEC) };
            assert!(fd >= 0, "memfd_create");
            let f = unsafe { OwnedFd::from_raw_fd(fd) };
            assert_eq!(sys_write(fd, content), content.len() as isize);
            unsafe { libc::lseek(fd, 0, libc::SEEK_SET) };
            (ChanKind::File, f, None)
        }
        _ => panic!("chan kind"),
    };
    Chan { kind: k, near, far, fed: content.to_vec(), consumed: vec![], segments: vec![], wsegs: vec![], drained: vec![], alias: None, lossy: false, errored: false }
}

// ---------------------------------------------------------------------------------------------
// type-erased pending operations

struct Done {
    res: Result<usize, i32>,
    /// bytes a read-like operation delivered
    data: Option<Vec<u8>>,
    /// monitor findings about the returned buffer / value
    complaints: Vec<String>,
}

/// the real code under test: the bare `Proactor`, or a `Runtime` whose `Submit` futures wrap it
enum Backend {
    Pro(Proactor),
    Rt(Runtime),
}

impl Backend {
    fn pro(&mut self) -> &mut Proactor {
        match self {
            Backend::Pro(p) => p,
            Backend::Rt(_) => panic!("harness: Proactor access in future mode"),
        }
    }
}

trait Pending {
    fn pop(self: Box<Self>, b: &mut Backend) -> Result<Done, Box<dyn Pending>>;
    /// multishot operations: `Proactor::pop_multishot`
    fn pop_item(&self, _b: &mut Backend) -> Option<Done> {
        None
    }
    fn waker(&self, b: &mut Backend, w: &Waker);
    fn cancel(self: Box<Self>, b: &mut Backend) -> Option<Done>;
    fn token(&self, b: &mut Backend) -> Option<Cancel>;
    /// future mode: from now on the future is polled under this (new) task waker
    fn retask(&mut self, _w: Arc<CountWaker>) {}
}

struct Held<T: OpCode + 'static> {
    key: Key<T>,
    fin: Box<dyn FnOnce(BufResult<usize, T>) -> Done>,
}

impl<T: OpCode + 'static> Pending for Held<T> {
    fn pop(self: Box<Self>, b: &mut Backend) -> Result<Done, Box<dyn Pending>> {
        let Held { key, fin } = *self;
        match b.pro().pop(key) {
            PushEntry::Ready(r) => Ok(fin(r)),
            PushEntry::Pending(key) => Err(Box::new(Held { key, fin })),
        }
    }

    fn waker(&self, b: &mut Backend, w: &Waker) {
        b.pro().update_waker(&self.key, w);
    }

    fn cancel(self: Box<Self>, b: &mut Backend) -> Option<Done> {
        let Held { key, fin } = *self;
        b.pro().cancel(key).map(fin)
    }

    fn token(&self, b: &mut Backend) -> Option<Cancel> {
        Some(b.pro().register_cancel(&self.key))
    }
}

/// a multishot operation on the bare Proactor (`pop_multishot` items, then `pop_with_extra`)
struct HeldMulti<T: OpCode + TakeBuffer<Buffer = BufferRef> + 'static> {
    key: Key<T>,
    pool: BufferPool,
}

fn buffer_done(res: std::io::Result<usize>, buf: Option<BufferRef>) -> Done {
    let res = canon(res);
    let mut complaints = vec![];
    let data = match (&res, buf) {
        (Ok(n), Some(mut b)) => {
            unsafe { b.advance_to(*n) };
            b.to_vec()
        }
        (Ok(0), None) | (Err(_), _) => vec![],
        (Ok(n), None) => {
            complaints.push(format!("C02:own-result {n} bytes reported but no buffer came with them"));
            vec![]
        }
    };
    Done { res, data: Some(data), complaints }
}

impl<T: OpCode + TakeBuffer<Buffer = BufferRef> + 'static> Pending for HeldMulti<T> {
    fn pop(self: Box<Self>, b: &mut Backend) -> Result<Done, Box<dyn Pending>> {
        let HeldMulti { key, pool } = *self;
        match b.pro().pop_with_extra(key) {
            PushEntry::Ready((BufResult(res, op), _extra)) => Ok(buffer_done(res, op.take_buffer())),
            PushEntry::Pending(key) => Err(Box::new(HeldMulti { key, pool })),
        }
    }

    fn pop_item(&self, b: &mut Backend) -> Option<Done> {
        let BufResult(res, extra) = b.pro().pop_multishot(&self.key)?;
        let buf = extra.buffer_id().ok().and_then(|id| self.pool.take(id).ok().flatten());
        Some(buffer_done(res, buf))
    }

    fn waker(&self, b: &mut Backend, w: &Waker) {
        b.pro().update_waker(&self.key, w);
    }

    fn cancel(self: Box<Self>, b: &mut Backend) -> Option<Done> {
        let HeldMulti { key, .. } = *self;
        b.pro().cancel(key).map(|BufResult(res, op)| buffer_done(res, op.take_buffer()))
    }

    fn token(&self, b: &mut Backend) -> Option<Cancel> {
        Some(b.pro().register_cancel(&self.key))
    }
}

/// a `Submit` future of compio-runtime (already mapped to the harness' `Done`), polled with its own waker
struct HeldFut {
    fut: Pin<Box<dyn Future<Output = Done>>>,
    waker: Arc<CountWaker>,
}

impl Pending for HeldFut {
    fn pop(mut self: Box<Self>, _: &mut Backend) -> Result<Done, Box<dyn Pending>> {
        let w = Waker::from(self.waker.clone());
        match self.fut.as_mut().poll(&mut Context::from_waker(&w)) {
            Poll::Ready(d) => Ok(d),
            Poll::Pending => Err(self),
        }
    }

    fn waker(&self, _: &mut Backend, _: &Waker) {}

    /// dropping the future = `Proactor::cancel(key)` in `Submit`'s `PinnedDrop`
    fn cancel(self: Box<Self>, _: &mut Backend) -> Option<Done> {
        drop(self);
        None
    }

    fn token(&self, _: &mut Backend) -> Option<Cancel> {
        None
    }

    fn retask(&mut self, w: Arc<CountWaker>) {
        self.waker = w;
    }
}

/// concatenate the non-empty pieces ordered by where their first byte occurs in `stream`
fn in_stream_order(pieces: &[Vec<u8>], stream: &[u8]) -> Vec<u8> {
    let mut ps: Vec<&Vec<u8>> = pieces.iter().filter(|p| !p.is_empty()).collect();
    ps.sort_by_key(|p| stream.iter().position(|b| *b == p[0]).unwrap_or(usize::MAX));
    ps.into_iter().flatten().copied().collect()
}

fn errno(e: &std::io::Error) -> i32 {
    e.raw_os_error().unwrap_or(0)
}

fn canon(r: std::io::Result<usize>) -> Result<usize, i32> {
    r.map_err(|e| errno(&e))
}

/// a read buffer of capacity `cap`, spare capacity pre-filled with the canary
fn read_buf(cap: usize) -> (Vec<u8>, usize, usize) {
    let mut v: Vec<u8> = Vec::with_capacity(cap);
    let c = v.capacity();
    unsafe { std::ptr::write_bytes(v.as_mut_ptr(), CANARY, c) };
    let p = v.as_ptr() as usize;
    (v, p, c)
}

fn fin_read(ptr: usize, cap: usize) -> impl FnOnce(std::io::Result<usize>, Vec<u8>) -> Done {
    move |res, buf| {
        let mut complaints = vec![];
        if buf.as_ptr() as usize != ptr || buf.capacity() != cap {
            complaints.push(format!("C02:buffer-identity returned buffer {:#x}/{} is not the submitted one {:#x}/{}",
                buf.as_ptr() as usize, buf.capacity(), ptr, cap));
        }
        let res = canon(res);
        let n = *res.as_ref().unwrap_or(&0);
        // the driver-level operation does not touch the length (the callers do `set_len`)
        if buf.len() != 0 {
            complaints.push(format!("C02:len-mismatch buffer len {} changed by the driver", buf.len()));
        }
        // nothing beyond the reported bytes may have been written
        let all = unsafe { std::slice::from_raw_parts(buf.as_ptr(), buf.capacity()) };
        if n > all.len() {
            complaints.push(format!("C02:own-result result {n} exceeds the buffer capacity {}", all.len()));
        }
        let n = n.min(all.len());
        if all[n..].iter().any(|b| *b != CANARY) {
            complaints.push(format!("C02:canary bytes beyond the reported count {n} were overwritten"));
        }
        let data = all[..n].to_vec();
        Done { res, data: Some(data), complaints }
    }
}

fn fin_write(ptr: usize, payload: Vec<u8>) -> impl FnOnce(std::io::Result<usize>, Vec<u8>) -> Done {
    move |res, buf| {
        let mut complaints = vec![];
        if buf.as_ptr() as usize != ptr || buf != payload {
            complaints.push("C02:buffer-identity write buffer came back different".to_string());
        }
        Done { res: canon(res), data: None, complaints }
    }
}

enum Pushed {
    Pending(Box<dyn Pending>, Option<Arc<CountWaker>>),
    Ready(Done),
}

fn push_op<T: OpCode + 'static>(
    b: &mut Backend,
    op: T,
    fin: impl FnOnce(BufResult<usize, T>) -> Done + 'static,
) -> Pushed {
    match b {
        Backend::Pro(p) => match p.push(op) {
            PushEntry::Pending(key) => Pushed::Pending(Box::new(Held { key, fin: Box::new(fin) }), None),
            PushEntry::Ready(r) => Pushed::Ready(fin(r)),
        },
        Backend::Rt(rt) => {
            // `Runtime::submit` gives the `Submit` future; the first poll submits the operation
            let submit = rt.submit(op);
            let mut fut: Pin<Box<dyn Future<Output = Done>>> = Box::pin(async move { fin(submit.await) });
            let cw = Arc::new(CountWaker(AtomicUsize::new(0)));
            let w = Waker::from(cw.clone());
            match fut.as_mut().poll(&mut Context::from_waker(&w)) {
                Poll::Ready(d) => Pushed::Ready(d),
                Poll::Pending => Pushed::Pending(Box::new(HeldFut { fut, waker: cw.clone() }), Some(cw)),
            }
        }
    }
}

#[derive(Clone, Debug)]
enum Kind {
    Read(usize, usize),
    Recv(usize, usize),
    ReadF(usize, usize),
    Write(usize, Vec<u8>),
    Send(usize, Vec<u8>),
    POnce(usize, bool),
    Job(Result<usize, i32>),
    ReadAt(usize, u64, usize),
    Splice(usize, usize, usize),
    RMulti(usize),
}

fn parse_kind(w: &[&str]) -> Option<Kind> {
    let n = |s: &str| s.parse::<usize>().ok();
    Some(match w {
        ["read", c, cap] => Kind::Read(n(c)?, n(cap)?),
        ["recv", c, cap] => Kind::Recv(n(c)?, n(cap)?),
        ["readf", c, cap] => Kind::ReadF(n(c)?, n(cap)?),
        ["write", c, h] => Kind::Write(n(c)?, unhex(h)),
        ["send", c, h] => Kind::Send(n(c)?, unhex(h)),
        ["ponce", c, "r"] => Kind::POnce(n(c)?, true),
        ["ponce", c, "w"] => Kind::POnce(n(c)?, false),
        ["job", "ok", v] => Kind::Job(Ok(n(v)?)),
        ["job", "err", v] => Kind::Job(Err(n(v)? as i32)),
        ["readat", c, off, cap] => Kind::ReadAt(n(c)?, n(off)? as u64, n(cap)?),
        ["splice", a, b, l] => Kind::Splice(n(a)?, n(b)?, n(l)?),
        ["rmulti", c] => Kind::RMulti(n(c)?),
        _ => return None,
    })
}

struct OpRec {
    kind: Kind,
    pending: Option<Box<dyn Pending>>,
    lazy: bool,
    /// every waker this operation was given, oldest first (the last one is the task that owns it now)
    wakers: Vec<Arc<CountWaker>>,
    gate: Option<mpsc::Sender<()>>,
    done: bool,
    dropped: bool,
    cancel_requested: bool,
    /// future mode: wake count when the future was polled last
    polled_wakes: usize,
}

struct World {
    p: Backend,
    iour: bool,
    fut: bool,
    chans: BTreeMap<usize, Chan>,
    ops: BTreeMap<usize, OpRec>,
    /// push order of outstanding non-lazy keys
    live: Vec<usize>,
    job_token: u64,
    /// io_uring: submission-queue entries the harness knows to be staged but not yet handed to the kernel
    /// (operation ids; `usize::MAX` = an AsyncCancel), and the queue's size
    staged: Vec<usize>,
    sq_cap: usize,
}

thread_local! {
    static POOL: AsyncifyPool = AsyncifyPool::new(64, Duration::from_secs(5));
}

impl World {
    fn new(iour: bool, cap: u32, fut: bool) -> Result<Self, String> {
        let pool = POOL.with(|p| p.clone());
        let mut pb = Proactor::builder();
        pb.driver_type(if iour { DriverType::IoUring } else { DriverType::Poll }).capacity(cap).reuse_thread_pool(pool);
        let p = if fut {
            Backend::Rt(Runtime::builder().with_proactor(pb).build().map_err(|e| format!("{e:?}"))?)
        } else {
            Backend::Pro(pb.build().map_err(|e| format!("{e:?}"))?)
        };
        Ok(World { p, iour, fut, chans: BTreeMap::new(), ops: BTreeMap::new(), live: vec![], job_token: 0, staged: vec![], sq_cap: (cap.max(1) as usize).next_power_of_two() })
    }

    /// the channel whose kernel object (and stream bookkeeping) descriptor `c` refers to
    fn root(&self, c: usize) -> usize {
        self.chans[&c].alias.unwrap_or(c)
    }

    fn near(&self, c: usize) -> RawFd {
        self.chans[&c].near.as_raw_fd()
    }

    fn push(&mut self, id: usize, kind: Kind, lazy: bool, ex: &mut Exec) -> String {
        let mut gate = None;
        let pushed = match kind.clone() {
            Kind::Read(c, cap) => {
                let fd = self.near(c);
                let (buf, ptr, cap) = read_buf(cap);
                let f = fin_read(ptr, cap);
                push_op(&mut self.p, Read::new(Fdw(fd), buf), move |BufResult(r, op)| f(r, op.into_inner()))
            }
            Kind::ReadF(c, cap) => {
                let fd = self.near(c);
                let (buf, ptr, cap) = read_buf(cap);
                let f = fin_read(ptr, cap);
                push_op(&mut self.p, Read::new(Fdw(fd), buf), move |BufResult(r, op)| f(r, op.into_inner()))
            }
            Kind::Recv(c, cap) => {
                let fd = self.near(c);
                let (buf, ptr, cap) = read_buf(cap);
                let f = fin_read(ptr, cap);
                push_op(&mut self.p, Recv::new(Fdw(fd), buf, RecvFlags::empty()), move |BufResult(r, op)| {
                    f(r, op.into_inner())
                })
            }
            Kind::ReadAt(c, off, cap) => {
                let fd = self.near(c);
                let (buf, ptr, cap) = read_buf(cap);
                let f = fin_read(ptr, cap);
                push_op(&mut self.p, ReadAt::new(Fdw(fd), off, buf), move |BufResult(r, op)| {
                    f(r, op.into_inner())
                })
            }
            Kind::Write(c, data) => {
                let fd = self.near(c);
                let buf = data.clone();
                let f = fin_write(buf.as_ptr() as usize, data);
                push_op(&mut self.p, Write::new(Fdw(fd), buf), move |BufResult(r, op)| f(r, op.into_inner()))
            }
            Kind::Send(c, data) => {
                let fd = self.near(c);
                let buf = data.clone();
                let f = fin_write(buf.as_ptr() as usize, data);
                push_op(&mut self.p, Send::new(Fdw(fd), buf, SendFlags::empty()), move |BufResult(r, op)| {
                    f(r, op.into_inner())
                })
            }
            Kind::POnce(c, rd) => {
                let fd = self.near(c);
                let interest = if rd { Interest::Readable } else { Interest::Writable };
                push_op(&mut self.p, PollOnce::new(Fdw(fd), interest), move |BufResult(r, op)| {
                    let mut complaints = vec![];
                    if op.into_inner().0 != fd {
                        complaints.push("C02:buffer-identity PollOnce returned another descriptor".to_string());
                    }
                    // io_uring reports the poll mask, the polling driver 0: canonicalised to 0
                    Done { res: canon(r).map(|_| 0), data: None, complaints }
                })
            }
            Kind::Splice(a, b, len) => {
                let (fa, fb) = (self.near(a), self.near(b));
                push_op(
                    &mut self.p,
                    Splice::new(Fdw(fa), -1, Fdw(fb), -1, len, SpliceFlags::NONBLOCK),
                    move |BufResult(r, op)| {
                        let (x, y) = op.into_inner();
                        let mut complaints = vec![];
                        if x.0 != fa || y.0 != fb {
                            complaints.push("C02:buffer-identity Splice returned other descriptors".to_string());
                        }
                        Done { res: canon(r), data: None, complaints }
                    },
                )
            }
            Kind::RMulti(c) => {
                let fd = self.near(c);
                let p = self.p.pro();
                let pool = p.buffer_pool().expect("buffer pool");
                let op = ReadMulti::new(Fdw(fd), &pool, 0).expect("ReadMulti::new");
                match p.push(op) {
                    PushEntry::Pending(key) => Pushed::Pending(Box::new(HeldMulti { key, pool }), None),
                    PushEntry::Ready(BufResult(res, op)) => Pushed::Ready(buffer_done(res, op.take_buffer())),
                }
            }
            Kind::Job(res) => {
                self.job_token += 1;
                let token = 0xC0DE_0000_0000u64 + ((id as u64) << 16) + self.job_token;
                let (tx, rx) = mpsc::channel::<()>();
                gate = Some(tx);
                let op = Asyncify::new(move || {
                    let _ = rx.recv();
                    BufResult(res.map_err(std::io::Error::from_raw_os_error), token)
                });
                push_op(&mut self.p, op, move |BufResult(r, op)| {
                    let mut complaints = vec![];
                    let got = op.into_inner();
                    if got != token {
                        complaints.push(format!("C02:result-swapped job returned token {got:#x}, its own is {token:#x}"));
                    }
                    Done { res: canon(r), data: None, complaints }
                })
            }
        };
        let mut rec = OpRec { kind, pending: None, lazy, wakers: vec![], gate, done: false, dropped: false, cancel_requested: false, polled_wakes: 0 };
        match pushed {
            Pushed::Pending(pd, cw) => {
                if !matches!(rec.kind, Kind::Job(_)) {
                    self.note_staged(id);
                }
                rec.pending = Some(pd);
                rec.wakers.extend(cw);
                if !lazy {
                    self.live.push(id);
                }
                self.ops.insert(id, rec);
                "pending".into()
            }
            Pushed::Ready(d) => {
                // monitor: `push` may only report an error the OS produced for THIS operation.  On io_uring the
                // operation has not even been submitted when `push` returns, so any `Ready(Err)` is made up by
                // the driver; on the polling driver the only immediate failure of these cases is epoll refusing
                // a regular file (`Read` on a memfd: EPERM).
                if let Err(e) = &d.res {
                    let legit = !self.iour && matches!(rec.kind, Kind::ReadF(..)) && *e == libc::EPERM;
                    if !legit {
                        ex.fail(
                            "C02:push-fabricated-error",
                            format!("op {id} ({:?}): push returned Ready(Err({e})) for a valid descriptor; the OS never produced that error for this operation", rec.kind),
                        );
                    }
                }
                rec.done = true;
                self.ops.insert(id, rec);
                let s = self.account(id, d, ex);
                format!("ready {s}")
            }
        }
    }

    /// monitor bookkeeping for a delivered result; returns `ok:n:data` / `err:e:-`
    fn account(&mut self, id: usize, d: Done, ex: &mut Exec) -> String {
        for c in &d.complaints {
            let (sig, rest) = c.split_once(' ').unwrap_or((c.as_str(), ""));
            ex.fail(sig, format!("op {id}: {rest}"));
        }
        // the stream bookkeeping lives with the kernel object, not with the (possibly dup'd) descriptor
        let kind = match self.ops[&id].kind.clone() {
            Kind::Read(c, n) => Kind::Read(self.root(c), n),
            Kind::Recv(c, n) => Kind::Recv(self.root(c), n),
            k => k,
        };
        match (&kind, &d.res) {
            (Kind::Read(c, _) | Kind::Recv(c, _) | Kind::RMulti(c), Ok(_)) => {
                self.chans.get_mut(c).unwrap().segments.push(d.data.clone().unwrap_or_default());
            }
            (Kind::Write(c, data) | Kind::Send(c, data), Ok(n)) => {
                if *n > data.len() {
                    ex.fail("C02:own-result", format!("op {id}: wrote {n} of {} bytes", data.len()));
                }
                self.chans.get_mut(c).unwrap().wsegs.push(data[..(*n).min(data.len())].to_vec());
            }
            (Kind::ReadAt(c, off, cap), Ok(n)) => {
                let content = &self.chans[c].fed;
                let lo = (*off as usize).min(content.len());
                let hi = (lo + cap).min(content.len());
                if d.data.as_deref() != Some(&content[lo..hi]) || *n != hi - lo {
                    ex.fail("C02:own-result", format!("op {id}: ReadAt returned {:?}, file has {:?}", d.data, &content[lo..hi]));
                }
            }
            (Kind::Job(want), got) => {
                if want != got {
                    ex.fail("C02:result-swapped", format!("op {id}: job result {got:?}, its own is {want:?}"));
                }
            }
            (Kind::Splice(a, b, _), Ok(n)) => {
                // the spliced bytes leave channel a's stream and enter channel b's
                let start: usize = self.chans[a].segments.iter().map(|s| s.len()).sum();
                let moved: Vec<u8> = self.chans[a].fed.get(start..start + n).map(|s| s.to_vec()).unwrap_or_default();
                if moved.len() != *n {
                    ex.fail("C02:own-result", format!("op {id}: splice reports {n} bytes, only {} were available", moved.len()));
                }
                self.chans.get_mut(a).unwrap().segments.push(moved.clone());
                self.chans.get_mut(b).unwrap().wsegs.push(moved);
            }
            _ => {}
        }
        if d.res.is_err() {
            let chans: Vec<usize> = match &kind {
                Kind::Read(c, _) | Kind::Recv(c, _) | Kind::Write(c, _) | Kind::Send(c, _) | Kind::RMulti(c) => vec![*c],
                Kind::Splice(a, b, _) => vec![*a, *b],
                _ => vec![],
            };
            for c in chans {
                let c = self.root(c);
                self.chans.get_mut(&c).unwrap().errored = true;
            }
        }
        match &d.res {
            Ok(n) => format!("ok:{n}:{}", d.data.as_deref().map(hex).unwrap_or_else(|| "-".into())),
            Err(e) => format!("err:{e}:-"),
        }
    }

    /// (channel, is_read) an operation queues on in the polling driver
    fn queue_of(k: &Kind) -> Option<(usize, bool)> {
        match k {
            Kind::Read(c, _) | Kind::Recv(c, _) | Kind::POnce(c, true) => Some((*c, true)),
            Kind::Write(c, _) | Kind::Send(c, _) | Kind::POnce(c, false) => Some((*c, false)),
            _ => None,
        }
    }

    fn wakes(&self, id: usize) -> usize {
        self.ops[&id].wakers.iter().map(|w| w.0.load(Ordering::SeqCst)).sum()
    }

    /// `Proactor::pop` on one key; `Some(report)` when it was ready
    fn try_pop(&mut self, id: usize, ex: &mut Exec) -> Option<String> {
        let pd = self.ops.get_mut(&id)?.pending.take()?;
        match pd.pop(&mut self.p) {
            Ok(d) => {
                self.ops.get_mut(&id).unwrap().done = true;
                // FIFO monitor (polling driver): an operation must not overtake an earlier one that waits
                // for the same descriptor and direction
                if !self.iour && d.res.is_ok() {
                    if let Some(slot) = Self::queue_of(&self.ops[&id].kind) {
                        let overtaken: Vec<usize> = self
                            .ops
                            .iter()
                            .filter(|(j, o)| **j < id && o.pending.is_some() && !o.lazy && !o.cancel_requested && Self::queue_of(&o.kind) == Some(slot))
                            .map(|(j, _)| *j)
                            .collect();
                        if !overtaken.is_empty() {
                            ex.fail("C02:fifo", format!("op {id} completed before the earlier ops {overtaken:?} queued on the same descriptor and direction {slot:?}"));
                        }
                    }
                }
                let w = self.wakes(id);
                // waker monitor: a registered waker is woken exactly once by the completion
                if !self.ops[&id].wakers.is_empty() && !matches!(self.ops[&id].kind, Kind::RMulti(_)) {
                    let counts: Vec<usize> = self.ops[&id].wakers.iter().map(|w| w.0.load(Ordering::SeqCst)).collect();
                    let latest = *counts.last().unwrap();
                    if w != 1 {
                        ex.fail("C02:wake", format!("op {id} completed, its registered waker was woken {w} times"));
                    } else if latest != 1 {
                        // exactly one wake-up happened, but it went to a waker that had been replaced
                        ex.fail(
                            "C02:stale-waker",
                            format!("op {id} completed: wake counts per registered waker (oldest first) {counts:?}; the latest waker was not woken, a replaced one was"),
                        );
                    }
                }
                let s = self.account(id, d, ex);
                Some(format!("{id}={s}:w{w}"))
            }
            Err(pd) => {
                self.ops.get_mut(&id).unwrap().pending = Some(pd);
                let w = self.wakes(id);
                self.ops.get_mut(&id).unwrap().polled_wakes = w;
                if w != 0 && !self.fut && !matches!(self.ops[&id].kind, Kind::RMulti(_)) {
                    ex.fail("C02:wake", format!("op {id} is still pending but its waker was woken {w} times"));
                }
                None
            }
        }
    }

    /// the multishot items of one key that are queued right now: `k+ok:n:data`
    fn pop_items(&mut self, id: usize, ex: &mut Exec) -> Vec<String> {
        let mut out = vec![];
        loop {
            let item = match self.ops.get(&id).and_then(|o| o.pending.as_ref()) {
                Some(pd) => pd.pop_item(&mut self.p),
                None => None,
            };
            let Some(d) = item else { break };
            let s = self.account(id, d, ex);
            out.push(format!("{id}+{s}"));
            if out.len() > 64 {
                ex.fail("C02:duplicated", format!("op {id}: more than 64 multishot items in one scan"));
                break;
            }
        }
        out
    }

    fn scan(&mut self, ex: &mut Exec) -> String {
        let ids = self.live.clone();
        let mut out = vec![];
        for id in ids {
            if matches!(self.ops[&id].kind, Kind::RMulti(_)) {
                out.extend(self.pop_items(id, ex));
            }
            // like an executor: a future is polled again only after its waker was woken
            if self.fut && self.wakes(id) <= self.ops[&id].polled_wakes {
                continue;
            }
            if let Some(s) = self.try_pop(id, ex) {
                self.live.retain(|x| *x != id);
                out.push(s);
            }
        }
        if out.is_empty() { "-".into() } else { out.join(",") }
    }

    fn poll_once(&mut self, t: Duration) -> String {
        self.staged.clear();
        match &mut self.p {
            Backend::Rt(rt) => {
                rt.poll_with(Some(t));
                "ok".into()
            }
            Backend::Pro(p) => match p.poll(Some(t)) {
                Ok(()) => "ok".into(),
                Err(e) if e.kind() == std::io::ErrorKind::TimedOut => "timeout".into(),
                Err(e) if e.kind() == std::io::ErrorKind::Interrupted => "ok".into(),
                Err(e) => format!("err:{}", errno(&e)),
            },
        }
    }

    /// has the kernel been handed this operation?  (polling driver: there is nothing to hand over)
    fn submitted(&self, id: usize) -> bool {
        !self.iour || !self.staged.contains(&id)
    }

    /// io_uring bookkeeping of the harness: one more SQE is staged (a full queue is submitted first)
    fn note_staged(&mut self, id: usize) {
        if self.iour {
            if self.staged.len() >= self.sq_cap {
                self.staged.clear();
            }
            self.staged.push(id);
        }
    }

    fn ring_fd(&self) -> RawFd {
        match &self.p {
            Backend::Pro(p) => compio_driver::AsRawFd::as_raw_fd(p),
            Backend::Rt(rt) => compio_driver::AsRawFd::as_raw_fd(rt),
        }
    }

    /// the pending operations of the given direction on kernel object `root` that the kernel has been handed
    fn armed_ops(&self, root: usize, read: bool) -> Vec<usize> {
        self.ops
            .iter()
            .filter(|(id, o)| {
                o.pending.is_some()
                    && self.submitted(**id)
                    && match &o.kind {
                        Kind::Read(c, _) | Kind::Recv(c, _) | Kind::RMulti(c) => read && self.root(*c) == root,
                        Kind::Write(c, _) | Kind::Send(c, _) => !read && self.root(*c) == root,
                        _ => false,
                    }
            })
            .map(|(id, _)| *id)
            .collect()
    }

    /// `poll(None)`: blocks until the driver has something to deliver.  A watchdog thread wakes the driver
    /// after `bound`; returns true when only the watchdog ended the wait.
    fn poll_blocking(&mut self, bound: Duration) -> bool {
        self.staged.clear();
        let waker = match &self.p {
            Backend::Pro(p) => p.waker(),
            Backend::Rt(rt) => rt.waker(),
        };
        let (tx, rx) = mpsc::channel::<()>();
        let fired = Arc::new(AtomicBool::new(false));
        let f2 = fired.clone();
        let h = std::thread::spawn(move || {
            if rx.recv_timeout(bound).is_err() {
                f2.store(true, Ordering::SeqCst);
                waker.wake();
            }
        });
        match &mut self.p {
            Backend::Pro(p) => {
                let _ = p.poll(None);
            }
            Backend::Rt(rt) => rt.poll_with(None),
        }
        let _ = tx.send(());
        let _ = h.join();
        fired.load(Ordering::SeqCst)
    }

    fn total_wakes(&self) -> usize {
        self.ops.values().flat_map(|o| o.wakers.iter()).map(|w| w.0.load(Ordering::SeqCst)).sum()
    }

    /// poll until the driver has nothing more to do
    fn settle(&mut self) {
        if self.fut {
            // `Runtime::poll_with` hides the result: every pending future has its waker registered, so a
            // poll that completes anything wakes somebody; two polls without a wake = quiescent
            let mut quiet = 0;
            for _ in 0..64 {
                let before = self.total_wakes();
                let _ = self.poll_once(Duration::ZERO);
                if self.total_wakes() == before {
                    quiet += 1;
                    if quiet >= 2 {
                        break;
                    }
                } else {
                    quiet = 0;
                }
            }
        } else if self.iour {
            // io_uring: a poll that reaped nothing returns TimedOut; two in a row = quiescent
            let mut quiet = 0;
            for _ in 0..64 {
                if self.poll_once(Duration::ZERO) == "timeout" {
                    quiet += 1;
                    if quiet >= 2 {
                        break;
                    }
                } else {
                    quiet = 0;
                }
            }
        } else {
            for _ in 0..64 {
                let r = self.poll_once(Duration::ZERO);
                if r == "timeout" || r.starts_with("err") {
                    break;
                }
            }
        }
    }

    /// wait (bounded) until the given keys have completed, popping them into `got`
    fn wait_for(&mut self, ids: &[usize], ex: &mut Exec) -> Vec<String> {
        let mut got = vec![];
        let mut waiting: Vec<usize> = ids.iter().copied().filter(|i| self.ops.get(i).is_some_and(|o| o.pending.is_some())).collect();
        for _ in 0..400 {
            if waiting.is_empty() {
                break;
            }
            let _ = self.poll_once(Duration::from_millis(25));
            let mut still = vec![];
            for id in waiting {
                match self.try_pop(id, ex) {
                    Some(s) => {
                        self.live.retain(|x| *x != id);
                        got.push((id, s));
                    }
                    None => still.push(id),
                }
            }
            waiting = still;
        }
        for id in waiting {
            ex.fail("C02:undelivered", format!("op {id}: thread-pool job / file read finished but was not delivered within 10 s of polling"));
        }
        got.sort();
        got.into_iter().map(|x| x.1).collect()
    }

    /// end-of-case monitor: after the driver is quiescent nothing may be left waiting on a ready descriptor
    fn check_stranded(&mut self, ex: &mut Exec) {
        self.settle();
        let ids: Vec<usize> = self.ops.iter().filter(|(_, o)| o.pending.is_some()).map(|(i, _)| *i).collect();
        for id in ids {
            if self.try_pop(id, ex).is_some() {
                continue;
            }
            let kind = self.ops[&id].kind.clone();
            let ready = match &kind {
                Kind::Read(c, _) | Kind::Recv(c, _) | Kind::POnce(c, true) | Kind::RMulti(c) => poll_ready(self.near(*c), libc::POLLIN),
                Kind::Write(c, _) | Kind::Send(c, _) | Kind::POnce(c, false) => poll_ready(self.near(*c), libc::POLLOUT),
                Kind::Splice(a, b, _) => poll_ready(self.near(*a), libc::POLLIN) && poll_ready(self.near(*b), libc::POLLOUT),
                _ => false,
            };
            if ready {
                let sig = if matches!(kind, Kind::Splice(..)) && !self.iour { "C02a:multi-fd-stranded" } else { "C02:stranded" };
                ex.fail(sig, format!("op {id} ({kind:?}) is still pending after the driver went quiescent although every descriptor it waits for is ready"));
            }
        }
    }

    fn drain_all(&mut self) {
        for ch in self.chans.values_mut() {
            if let (Some(far), ChanKind::WPipe | ChanKind::Sock) = (&ch.far, &ch.kind) {
                let rest: Vec<u8> = sys_read_all(far.as_raw_fd()).into_iter().filter(|b| *b != FILLER).collect();
                ch.drained.extend_from_slice(&rest);
            }
        }
    }

    /// stream monitors: nothing swapped, lost or duplicated on any channel
    fn check_streams(&mut self, ex: &mut Exec) {
        // draining the far ends lets blocked writers finish: collect their results too, then drain again
        self.drain_all();
        self.settle();
        let ids: Vec<usize> = self.ops.iter().filter(|(_, o)| o.pending.is_some()).map(|(i, _)| *i).collect();
        for id in ids {
            let _ = self.try_pop(id, ex);
        }
        self.drain_all();
        for (c, ch) in self.chans.iter_mut() {
            if matches!(ch.kind, ChanKind::File) || ch.lossy || ch.alias.is_some() {
                continue;
            }
            // payload bytes are unique per case, so the pieces can be put back into stream order
            ch.consumed = in_stream_order(&ch.segments, &ch.fed);
            // an outcome reported as failed / cancelled must not have had effects: every byte fed is either
            // in a delivered result or still in the socket / pipe
            if matches!(ch.kind, ChanKind::RPipe | ChanKind::Sock) && ch.fed.starts_with(&ch.consumed) {
                let remaining = sys_read_all(ch.near.as_raw_fd());
                let mut all = ch.consumed.clone();
                all.extend_from_slice(&remaining);
                if all != ch.fed {
                    let sig = if ch.errored { "C02:effect-without-outcome" } else { "C02:result-swapped" };
                    ex.fail(sig, format!("channel {c}: {} bytes were fed, results delivered {} and {} are still unread: bytes were consumed by an operation that did not report them{}",
                        ch.fed.len(), hex(&ch.consumed), hex(&remaining),
                        if ch.errored { " (an operation on this channel was reported failed / cancelled)" } else { "" }));
                }
            }
            if !ch.fed.starts_with(&ch.consumed) {
                ex.fail("C02:result-swapped", format!("channel {c}: reads delivered {:?}, which is not a partition of a prefix of the stream fed {}", ch.segments.iter().map(|s| hex(s)).collect::<Vec<_>>(), hex(&ch.fed)));
            }
            // what the operations reported as written must be exactly what arrives at the far end
            if matches!(ch.kind, ChanKind::WPipe | ChanKind::Sock) {
                let written = in_stream_order(&ch.wsegs, &ch.drained);
                if ch.drained != written {
                    let sig = if ch.errored && ch.drained.len() > written.len() { "C02:effect-without-outcome" } else { "C02:own-result" };
                    ex.fail(sig, format!("channel {c}: completed writes claim {:?} but the far end received {}", ch.wsegs.iter().map(|s| hex(s)).collect::<Vec<_>>(), hex(&ch.drained)));
                }
            }
        }
    }

    fn finish(&mut self, ex: &mut Exec) {
        // let every gated job run so that no pool thread outlives the Proactor holding a key
        let ids: Vec<usize> = self.ops.iter().filter(|(_, o)| o.gate.is_some() && o.pending.is_some()).map(|(i, _)| *i).collect();
        for id in &ids {
            if let Some(g) = self.ops.get_mut(id).unwrap().gate.take() {
                let _ = g.send(());
            }
        }
        let mut scratch = Exec::new();
        let _ = self.wait_for(&ids, &mut scratch);
        ex.failures.extend(scratch.failures);
        // dropped (cancelled) jobs: give the pool a moment to hand their entries back
        let dropped_jobs = self.ops.values().any(|o| o.dropped && matches!(o.kind, Kind::Job(_)));
        if dropped_jobs {
            for o in self.ops.values_mut() {
                if let Some(g) = o.gate.take() {
                    let _ = g.send(());
                }
            }
            for _ in 0..4 {
                let _ = self.poll_once(Duration::from_millis(5));
            }
        }
    }
}

fn exec(case: &Case) -> Exec {
    match hx_common::catch(|| exec_inner(case)) {
        Ok(ex) => ex,
        Err(msg) => {
            let mut ex = Exec::new();
            ex.out = case.lines.iter().map(|_| format!("harness-panic {msg}")).collect();
            ex.fail("C02:harness-panic", msg);
            ex
        }
    }
}

fn exec_inner(case: &Case) -> Exec {
    let mut ex = Exec::new();
    let mut w: Option<World> = None;
    let mut tokens: BTreeMap<usize, Cancel> = BTreeMap::new();
    let mut n_push = 0;
    for line in &case.lines {
        let words: Vec<&str> = line.split_whitespace().collect();
        let out: String = match words.as_slice() {
            ["cfg", drv, cap, rest @ ..] => {
                let iour = *drv == "iour";
                let fut = rest.first() == Some(&"fut");
                if fut {
                    ex.tag("mode:future");
                }
                match World::new(iour, cap.parse().unwrap_or(1024), fut) {
                    Ok(x) => {
                        w = Some(x);
                        ex.tag(format!("drv:{drv}"));
                        ex.tag(format!("cap:{cap}"));
                        "cfg".into()
                    }
                    Err(e) => format!("cfg-failed {e}"),
                }
            }
            _ => {
                let Some(wd) = w.as_mut() else {
                    ex.out.push("no-cfg".into());
                    continue;
                };
                match words.as_slice() {
                    [k @ ("rpipe" | "wpipe" | "sock"), c] => {
                        wd.chans.insert(c.parse().unwrap(), mk_chan(k, &[]));
                        "ok".into()
                    }
                    ["file", c, h] => {
                        wd.chans.insert(c.parse().unwrap(), mk_chan("file", &unhex(h)));
                        "ok".into()
                    }
                    ["dup", c, c2] => {
                        // a second descriptor for the same socket / pipe end (dup, try_clone, inherited fd)
                        let c: usize = c.parse().unwrap();
                        let root = wd.root(c);
                        let fd = unsafe { libc::fcntl(wd.near(c), libc::F_DUPFD_CLOEXEC, 0) };
                        assert!(fd >= 0, "dup");
                        let kind = match wd.chans[&root].kind {
                            ChanKind::Sock => ChanKind::Sock,
                            ChanKind::RPipe => ChanKind::RPipe,
                            ChanKind::WPipe => ChanKind::WPipe,
                            ChanKind::File => ChanKind::File,
                        };
                        wd.chans.insert(
                            c2.parse().unwrap(),
                            Chan {
                                kind,
                                near: unsafe { OwnedFd::from_raw_fd(fd) },
                                far: None,
                                fed: vec![],
                                consumed: vec![],
                                segments: vec![],
                                wsegs: vec![],
                                drained: vec![],
                                alias: Some(root),
                                lossy: false,
                                errored: false,
                            },
                        );
                        ex.tag("dup");
                        "ok".into()
                    }
                    ["feed", c, h] => {
                        let c: usize = c.parse().unwrap();
                        let b = unhex(h);
                        // io_uring: a read the kernel holds armed on this object consumes the data as soon as it
                        // arrives.  The model assumes that has happened when the next line runs, so wait for it
                        // (bounded) instead of relying on the completion being synchronous with `write(2)`.
                        let (near, unread0, delivered) = {
                            let ch = &wd.chans[&c];
                            (ch.near.as_raw_fd(), fionread(ch.near.as_raw_fd()), ch.segments.iter().map(|s| s.len()).sum::<usize>())
                        };
                        let armed = if wd.iour && !wd.chans[&c].lossy { wd.armed_ops(c, true) } else { vec![] };
                        let in_flight = wd.chans[&c].fed.len() as isize - delivered as isize - unread0 as isize;
                        let ch = wd.chans.get_mut(&c).unwrap();
                        let n = sys_write(ch.far.as_ref().unwrap().as_raw_fd(), &b);
                        assert_eq!(n, b.len() as isize, "harness: feed was partial");
                        ch.fed.extend_from_slice(&b);
                        if !b.is_empty() && unread0 == 0 && in_flight == 0 {
                            if let Some(id) = armed.first() {
                                let multi = matches!(wd.ops[id].kind, Kind::RMulti(_));
                                if !wait_until(Duration::from_secs(3), || {
                                    let u = fionread(near);
                                    if multi { u == 0 } else { u < b.len() }
                                }) {
                                    ex.tag("wait-bound-expired:feed");
                                }
                            }
                        }
                        "ok".into()
                    }
                    ["eof", c] => {
                        let c: usize = c.parse().unwrap();
                        // io_uring: an armed read on an empty object completes with 0 at end of stream; the only
                        // thing to observe is the completion queue becoming non-empty
                        let ring = wd.ring_fd();
                        // (bytes fed but neither delivered nor unread = a completion the harness has not popped
                        // yet, e.g. of a lazy key: then that read is not armed any more)
                        let in_flight = {
                            let ch = &wd.chans[&c];
                            ch.fed.len() as isize
                                - ch.segments.iter().map(|s| s.len()).sum::<usize>() as isize
                                - fionread(ch.near.as_raw_fd()) as isize
                        };
                        let watch = wd.iour
                            && !wd.chans[&c].lossy
                            && in_flight == 0
                            && !poll_ready(ring, libc::POLLIN)
                            && fionread(wd.chans[&c].near.as_raw_fd()) == 0
                            && !wd.armed_ops(c, true).is_empty();
                        let ch = wd.chans.get_mut(&c).unwrap();
                        match ch.kind {
                            ChanKind::Sock => unsafe {
                                libc::shutdown(ch.far.as_ref().unwrap().as_raw_fd(), libc::SHUT_WR);
                            },
                            _ => ch.far = None,
                        }
                        if watch {
                            if !wait_until(Duration::from_secs(3), || poll_ready(ring, libc::POLLIN)) {
                                ex.tag("wait-bound-expired:eof");
                            }
                        }
                        "ok".into()
                    }
                    ["hup", c] => {
                        let ch = wd.chans.get_mut(&c.parse().unwrap()).unwrap();
                        // whatever is still in the pipe is accounted for first
                        if let Some(far) = &ch.far {
                            let rest: Vec<u8> = sys_read_all(far.as_raw_fd()).into_iter().filter(|b| *b != FILLER).collect();
                            ch.drained.extend_from_slice(&rest);
                        }
                        ch.far = None;
                        "ok".into()
                    }
                    ["fill", c] => {
                        let ch = wd.chans.get_mut(&c.parse().unwrap()).unwrap();
                        let fd = ch.near.as_raw_fd();
                        match ch.kind {
                            ChanKind::WPipe => {
                                let n = sys_write(fd, &[FILLER; PAGE]);
                                assert_eq!(n, PAGE as isize, "harness: fill of a non-empty pipe");
                            }
                            _ => {
                                let chunk = [FILLER; 16384];
                                while sys_write(fd, &chunk) > 0 {}
                            }
                        }
                        "ok".into()
                    }
                    ["drain", c] => {
                        let c: usize = c.parse().unwrap();
                        let far = wd.chans[&c].far.as_ref().unwrap().as_raw_fd();
                        let mut all = sys_read_all(far);
                        // io_uring: a write / send the kernel holds armed on this object is retried as soon as
                        // there is room, and the model counts what it writes into this drain.  Wait (bounded)
                        // for that write to land instead of relying on it being synchronous with `read(2)`.
                        if wd.iour {
                            for id in wd.armed_ops(c, false) {
                                let payload = match &wd.ops[&id].kind {
                                    Kind::Write(_, d) | Kind::Send(_, d) => d.clone(),
                                    _ => continue,
                                };
                                let seen = |hay: &[u8]| payload.is_empty() || hay.windows(payload.len()).any(|w| w == &payload[..]);
                                if seen(&wd.chans[&c].drained) || seen(&all) {
                                    continue;
                                }
                                if !wait_until(Duration::from_secs(3), || poll_ready(far, libc::POLLIN)) {
                                    ex.tag("wait-bound-expired:drain");
                                }
                                all.extend(sys_read_all(far));
                            }
                        }
                        let ch = wd.chans.get_mut(&c).unwrap();
                        let filler = all.iter().any(|b| *b == FILLER);
                        let payload: Vec<u8> = all.into_iter().filter(|b| *b != FILLER).collect();
                        ch.drained.extend_from_slice(&payload);
                        format!("data f={} {}", filler as u8, hex(&payload))
                    }
                    ["push", k, rest @ ..] => {
                        let id: usize = k.parse().unwrap();
                        let (lazy, rest) = if rest.first() == Some(&"lazy") { (true, &rest[1..]) } else { (false, rest) };
                        match parse_kind(rest) {
                            None => "bad-op".into(),
                            Some(kind) => {
                                n_push += 1;
                                ex.tag(format!("op:{}", rest[0]));
                                let is_readat = matches!(kind, Kind::ReadAt(..));
                                let r = wd.push(id, kind, lazy, &mut ex);
                                if r == "pending" && is_readat && !lazy {
                                    let mut got = wd.wait_for(&[id], &mut ex);
                                    wd.settle();
                                    let sc = wd.scan(&mut ex);
                                    if sc != "-" {
                                        got.push(sc);
                                    }
                                    // report in key order like a plain scan
                                    got.sort_by_key(|s| s.split('=').next().unwrap().parse::<usize>().unwrap_or(0));
                                    format!("pending | {}", if got.is_empty() { "-".into() } else { got.join(",") })
                                } else {
                                    if r.starts_with("ready") {
                                        ex.tag("push-ready");
                                    }
                                    format!("{r} | {}", wd.scan(&mut ex))
                                }
                            }
                        }
                    }
                    ["waker", k] => {
                        let id: usize = k.parse().unwrap();
                        // every `waker k` line hands the operation a NEW waker: another task owns it now
                        let cw = Arc::new(CountWaker(AtomicUsize::new(0)));
                        let mut out = "ok".to_string();
                        if wd.fut {
                            // future mode: the same `Submit` future is polled again under the new waker
                            let live = wd.live.contains(&id);
                            if let Some(rec) = wd.ops.get_mut(&id) {
                                if live && rec.pending.is_some() {
                                    rec.pending.as_mut().unwrap().retask(cw.clone());
                                    rec.wakers.push(cw);
                                    ex.tag("rewaker");
                                    if let Some(s) = wd.try_pop(id, &mut ex) {
                                        wd.live.retain(|x| *x != id);
                                        out = format!("ok {s}");
                                    }
                                }
                            }
                        } else if let Some(rec) = wd.ops.get_mut(&id) {
                            if let Some(pd) = &rec.pending {
                                if !rec.wakers.is_empty() {
                                    ex.tag("rewaker");
                                }
                                rec.wakers.push(cw.clone());
                                pd.waker(&mut wd.p, &Waker::from(cw));
                                ex.tag("waker");
                            }
                        }
                        out
                    }
                    ["poll"] => {
                        let r = wd.poll_once(Duration::ZERO);
                        format!("{r} | {}", wd.scan(&mut ex))
                    }
                    ["settle"] => {
                        wd.settle();
                        format!("settled | {}", wd.scan(&mut ex))
                    }
                    ["release", ks @ ..] => {
                        let ids: Vec<usize> = ks.iter().map(|k| k.parse().unwrap()).collect();
                        for id in &ids {
                            if let Some(g) = wd.ops.get_mut(id).and_then(|o| o.gate.take()) {
                                let _ = g.send(());
                            }
                        }
                        let mut got = wd.wait_for(&ids, &mut ex);
                        wd.settle();
                        let sc = wd.scan(&mut ex);
                        if sc != "-" {
                            got.push(sc);
                        }
                        let mut items: Vec<String> = got.iter().flat_map(|s| s.split(',')).map(|s| s.to_string()).collect();
                        items.sort_by_key(|s| s.split('=').next().unwrap().parse::<usize>().unwrap_or(0));
                        ex.tag("release");
                        format!("released | {}", if items.is_empty() { "-".into() } else { items.join(",") })
                    }
                    ["pop", k] => {
                        let id: usize = k.parse().unwrap();
                        if wd.fut && !wd.ops.get(&id).is_some_and(|o| o.lazy) {
                            "none".into()
                        } else {
                            wd.try_pop(id, &mut ex).unwrap_or_else(|| "none".into())
                        }
                    }
                    ["flush"] => {
                        wd.staged.clear();
                        match &mut wd.p {
                            Backend::Pro(p) => {
                                let _ = p.flush();
                            }
                            Backend::Rt(rt) => {
                                let _ = rt.flush();
                            }
                        }
                        "ok".into()
                    }
                    [cmd @ ("ctoken" | "ctokenb"), k] => {
                        let id: usize = k.parse().unwrap();
                        let tok = match tokens.get(&id) {
                            Some(t) => Some(t.clone()),
                            None => wd.ops.get(&id).and_then(|o| o.pending.as_ref()).and_then(|pd| pd.token(&mut wd.p)),
                        };
                        let r = match tok {
                            Some(t) => {
                                tokens.insert(id, t.clone());
                                if let Some(o) = wd.ops.get_mut(&id) {
                                    o.cancel_requested = true;
                                }
                                {
                                    let issued = wd.p.pro().cancel_token(t);
                                    if issued && wd.iour && wd.staged.len() < wd.sq_cap {
                                        wd.staged.push(usize::MAX);
                                    }
                                    issued
                                }
                            }
                            None => false,
                        };
                        ex.tag("ctoken");
                        if *cmd == "ctokenb" && r {
                            // the submitter keeps waiting: a blocking poll must come back with the outcome
                            ex.tag("blocking-poll");
                            if wd.poll_blocking(Duration::from_millis(400)) {
                                ex.fail(
                                    "C02:outcome-not-delivered",
                                    format!("op {id}: after cancel_token a blocking poll(None) did not return within 400 ms although the final outcome was already owed (only the watchdog woke the driver)"),
                                );
                            }
                            wd.settle();
                        }
                        format!("{r} | {}", wd.scan(&mut ex))
                    }
                    ["cancel", k] => {
                        let id: usize = k.parse().unwrap();
                        wd.live.retain(|x| *x != id);
                        ex.tag("cancel");
                        let r = match wd.ops.get_mut(&id).and_then(|o| o.pending.take()) {
                            None => "none".to_string(),
                            Some(pd) => match pd.cancel(&mut wd.p) {
                                Some(d) => {
                                    wd.ops.get_mut(&id).unwrap().done = true;
                                    format!("ready {}", wd.account(id, d, &mut ex))
                                }
                                None => {
                                    wd.ops.get_mut(&id).unwrap().dropped = true;
                                    let chans: Vec<usize> = match &wd.ops[&id].kind {
                                        Kind::Read(c, _) | Kind::Recv(c, _) | Kind::Write(c, _) | Kind::Send(c, _) | Kind::RMulti(c) => vec![*c],
                                        Kind::Splice(a, b, _) => vec![*a, *b],
                                        _ => vec![],
                                    };
                                    for c in chans {
                                        let c = wd.root(c);
                                        wd.chans.get_mut(&c).unwrap().lossy = true;
                                    }
                                    "none".to_string()
                                }
                            },
                        };
                        format!("{r} | {}", wd.scan(&mut ex))
                    }
                    _ => "bad-op".into(),
                }
            }
        };
        ex.out.push(out);
    }
    if let Some(mut wd) = w {
        wd.finish(&mut ex);
        wd.check_stranded(&mut ex);
        wd.check_streams(&mut ex);
        let n_done = wd.ops.values().filter(|o| o.done).count();
        ex.nontrivial = n_push >= 2 && n_done >= 1;
        ex.tag(format!("completed:{}", n_done.min(8)));
        drop(tokens);
        // keys first, then the driver
        wd.ops.clear();
    }
    ex
}

// ---------------------------------------------------------------------------------------------
// generators

struct Gen<'a> {
    rng: &'a mut Rng,
    lines: Vec<String>,
    iour: bool,
    exact: bool,
    next_id: usize,
    seq: u8,
    /// (chan, is_read_dir) with an operation that may still be pending (io_uring discipline)
    busy: Vec<(usize, bool)>,
    pending: Vec<usize>,
    lazy: Vec<usize>,
    jobs: Vec<usize>,
    sends: BTreeMap<usize, usize>,
}

impl Gen<'_> {
    fn payload(&mut self, n: usize) -> Vec<u8> {
        // unique, never the filler byte
        (0..n)
            .map(|_| {
                self.seq = self.seq.wrapping_add(1);
                if self.seq == FILLER || self.seq == 0 {
                    self.seq = 1;
                }
                self.seq
            })
            .collect()
    }

    fn polls(&mut self) {
        if self.exact && self.rng.chance(3, 4) {
            self.lines.push("poll".into());
        } else {
            self.lines.push("settle".into());
            self.busy_after_settle();
        }
    }

    fn busy_after_settle(&mut self) {}
}

/// random mixes of concurrently pending operations over 1..4 channels
fn gen_random(rng: &mut Rng, idx: usize) -> Case {
    let iour = rng.chance(1, 2);
    let cap = *rng.pick(&[1u32, 2, 4, 1024]);
    let nch = rng.range(1, 4) as usize;
    // a quarter of the cases drive `Submit` futures of compio-runtime instead of the bare Proactor
    let fut = rng.chance(1, 4);
    let exact = !iour && !fut && cap as usize >= nch + 1;
    let mut g = Gen {
        rng,
        lines: vec![format!("cfg {} {}{}", if iour { "iour" } else { "poll" }, cap, if fut { " fut" } else { "" })],
        iour,
        exact,
        next_id: 0,
        seq: 0,
        busy: vec![],
        pending: vec![],
        lazy: vec![],
        jobs: vec![],
        sends: BTreeMap::new(),
    };
    let mut kinds: Vec<&str> = vec![];
    for c in 0..nch {
        let k = *g.rng.pick(&["rpipe", "rpipe", "wpipe", "sock", "sock", "file"]);
        kinds.push(k);
        if k == "file" {
            let n = g.rng.range(0, 12) as usize;
            let b = g.payload(n);
            g.lines.push(format!("file {c} {}", hex(&b)));
        } else {
            g.lines.push(format!("{k} {c}"));
            if k == "wpipe" && g.rng.chance(1, 2) {
                g.lines.push(format!("fill {c}"));
            }
            if k == "sock" && g.rng.chance(1, 3) {
                g.lines.push(format!("fill {c}"));
            }
        }
    }
    // channels whose far end was closed
    let mut eof: Vec<usize> = vec![];
    let mut hup: Vec<usize> = vec![];
    // write channels the generator knows to be empty and free of pending writers (for `fill`)
    let steps = g.rng.range(6, 28);
    for _ in 0..steps {
        let c = g.rng.below(nch as u64) as usize;
        let k = kinds[c];
        let roll = g.rng.below(100);
        if roll < 38 && g.next_id < 14 {
            // push an operation on channel c (or a job)
            let id = g.next_id;
            let lazy = g.rng.chance(1, 6);
            let lz = if lazy { "lazy " } else { "" };
            let mut dir: Option<bool> = None;
            let op = if g.rng.chance(1, 9) && g.jobs.len() < 4 && !lazy {
                g.jobs.push(id);
                if g.rng.chance(4, 5) { format!("job ok {}", 1000 + id) } else { format!("job err {}", 70 + id) }
            } else {
                match k {
                    "rpipe" => {
                        dir = Some(true);
                        if g.rng.chance(1, 5) { format!("ponce {c} r") } else { format!("read {c} {}", g.rng.range(1, 9)) }
                    }
                    "wpipe" => {
                        dir = Some(false);
                        if g.rng.chance(1, 5) {
                            format!("ponce {c} w")
                        } else {
                            let n = g.rng.range(1, 7) as usize;
                            format!("write {c} {}", hex(&g.payload(n)))
                        }
                    }
                    "sock" => match g.rng.below(6) {
                        0 => {
                            dir = Some(true);
                            format!("read {c} {}", g.rng.range(1, 9))
                        }
                        1 | 2 => {
                            dir = Some(true);
                            format!("recv {c} {}", g.rng.range(1, 9))
                        }
                        3 => {
                            dir = Some(g.rng.chance(1, 2));
                            format!("ponce {c} {}", if dir == Some(true) { "r" } else { "w" })
                        }
                        _ => {
                            dir = Some(false);
                            *g.sends.entry(c).or_insert(0) += 1;
                            let n = g.rng.range(1, 7) as usize;
                            format!("send {c} {}", hex(&g.payload(n)))
                        }
                    },
                    _ => {
                        if lazy {
                            continue;
                        }
                        if g.rng.chance(1, 3) && !iour {
                            format!("readf {c} {}", g.rng.range(1, 9))
                        } else {
                            format!("readat {c} {} {}", g.rng.range(0, 6), g.rng.range(1, 9))
                        }
                    }
                }
            };
            if let Some(d) = dir {
                // io_uring does not order concurrent requests on one descriptor: keep one per direction;
                // a closed far end makes completion order kernel-defined as well
                if iour && (g.busy.contains(&(c, d)) || hup.contains(&c)) {
                    continue;
                }
                if op.starts_with("send") && g.sends[&c] > 12 {
                    continue;
                }
                g.busy.push((c, d));
            }
            g.next_id += 1;
            g.lines.push(format!("push {id} {lz}{op}"));
            if lazy {
                g.lazy.push(id);
            } else {
                g.pending.push(id);
            }
            if g.rng.chance(1, 3) && !op.starts_with("readat") {
                g.lines.push(format!("waker {id}"));
            }
        } else if roll < 58 {
            // make a read direction ready
            if matches!(k, "rpipe" | "sock") && !eof.contains(&c) {
                let n = g.rng.range(1, 10) as usize;
                let b = g.payload(n);
                g.lines.push(format!("feed {c} {}", hex(&b)));
                if iour {
                    g.lines.push("settle".into());
                    g.busy.retain(|x| *x != (c, true));
                }
            }
        } else if roll < 70 {
            // make a write direction ready
            if matches!(k, "wpipe" | "sock") && !hup.contains(&c) {
                g.lines.push(format!("drain {c}"));
                g.sends.insert(c, 0);
                if iour {
                    let was_busy = g.busy.contains(&(c, false));
                    g.lines.push("settle".into());
                    g.busy.retain(|x| *x != (c, false));
                    if g.rng.chance(1, 4) && (!was_busy || k == "sock") {
                        g.lines.push(format!("fill {c}"));
                    }
                } else if g.rng.chance(1, 4) {
                    g.lines.push(format!("fill {c}"));
                }
            }
        } else if roll < 84 {
            // sometimes the operation changes hands first: a new waker for an outstanding key / future
            if g.rng.chance(1, 4) && !g.pending.is_empty() {
                let i = g.rng.below(g.pending.len() as u64) as usize;
                let id = g.pending[i];
                g.lines.push(format!("waker {id}"));
            }
            g.polls();
        } else if roll < 88 {
            // (end-of-stream on sockets is left out: what a half-closed AF_UNIX peer reports to a
            // writability poll is kernel detail the OS model does not claim)
            if k == "rpipe" && !eof.contains(&c) && g.rng.chance(1, 2) {
                eof.push(c);
                g.lines.push(format!("eof {c}"));
                if iour {
                    g.lines.push("settle".into());
                    g.busy.retain(|x| *x != (c, true));
                }
            } else if k == "wpipe" && !hup.contains(&c) && !iour {
                hup.push(c);
                g.lines.push(format!("hup {c}"));
            }
        } else if roll < 92 {
            if !g.lazy.is_empty() {
                let i = g.rng.below(g.lazy.len() as u64) as usize;
                let id = g.lazy[i];
                g.lines.push(format!("pop {id}"));
            }
        } else if roll < 96 {
            if !g.jobs.is_empty() {
                let k = g.rng.range(1, g.jobs.len() as u64) as usize;
                let ids: Vec<String> = g.jobs.drain(..k).map(|x| x.to_string()).collect();
                g.lines.push(format!("release {}", ids.join(" ")));
            }
        } else if !iour {
            // cancellation (polling driver; the io_uring path belongs to C05)
            let all: Vec<usize> = g.pending.iter().chain(g.lazy.iter()).copied().collect();
            if !all.is_empty() {
                let id = *g.rng.pick(&all);
                if g.rng.chance(1, 2) && !fut {
                    g.lines.push(format!("ctoken {id}"));
                } else {
                    g.lines.push(format!("cancel {id}"));
                    g.pending.retain(|x| *x != id);
                    g.lazy.retain(|x| *x != id);
                    g.jobs.retain(|x| *x != id);
                }
            }
        }
    }
    g.lines.push("settle".into());
    for id in g.lazy.clone() {
        g.lines.push(format!("pop {id}"));
    }
    Case { name: format!("rnd{idx}"), lines: g.lines }
}

/// several operations on the SAME descriptor and direction, fed in bursts: FIFO on the polling driver
fn gen_fifo(rng: &mut Rng, idx: usize) -> Case {
    let cap = *rng.pick(&[1u32, 2, 4, 1024]);
    let fut = rng.chance(1, 4);
    let exact = cap >= 4 && !fut;
    let mut lines = vec![format!("cfg poll {cap}{}", if fut { " fut" } else { "" })];
    let kind = *rng.pick(&["rpipe", "sock", "wpipe"]);
    lines.push(format!("{kind} 0"));
    let n = rng.range(2, 6) as usize;
    let mut seq = 0u8;
    let mut pay = |n: usize| -> Vec<u8> {
        (0..n)
            .map(|_| {
                seq = seq.wrapping_add(1);
                if seq == FILLER || seq == 0 {
                    seq = 1
                }
                seq
            })
            .collect()
    };
    if kind == "wpipe" {
        lines.push("fill 0".into());
        for id in 0..n {
            let len = rng.range(1, 6) as usize;
            lines.push(format!("push {id} write 0 {}", hex(&pay(len))));
            if rng.chance(1, 2) {
                lines.push(format!("waker {id}"));
            }
        }
        for _ in 0..n + 1 {
            lines.push("drain 0".into());
            lines.push(if exact { "poll".into() } else { "settle".into() });
            if rng.chance(1, 3) {
                lines.push(if exact { "poll".into() } else { "settle".into() });
            }
        }
    } else {
        for id in 0..n {
            let op = if kind == "sock" && rng.chance(1, 2) { "recv" } else { "read" };
            lines.push(format!("push {id} {op} 0 {}", rng.range(1, 6)));
            if rng.chance(1, 2) {
                lines.push(format!("waker {id}"));
            }
        }
        for _ in 0..n {
            let len = rng.range(1, 12) as usize;
            lines.push(format!("feed 0 {}", hex(&pay(len))));
            for _ in 0..rng.range(1, 3) {
                lines.push(if exact { "poll".into() } else { "settle".into() });
            }
        }
    }
    lines.push("settle".into());
    Case { name: format!("fifo{idx}"), lines }
}

/// operations on BOTH directions of one descriptor (socket): recv + send pending together
fn gen_bidir(rng: &mut Rng, idx: usize) -> Case {
    let cap = *rng.pick(&[2u32, 4, 1024]);
    let iour = rng.chance(1, 3);
    let mut lines = vec![format!("cfg {} {cap}", if iour { "iour" } else { "poll" }), "sock 0".into(), "fill 0".into()];
    let p = if iour { "settle" } else { "poll" };
    lines.push("push 0 recv 0 8".into());
    lines.push("push 1 send 0 0102030405".into());
    if !iour {
        lines.push("push 2 ponce 0 w".into());
        lines.push("push 3 read 0 3".into());
    }
    lines.push("waker 0".into());
    lines.push("waker 1".into());
    lines.push(p.into());
    let order = rng.below(3);
    let feed = format!("feed 0 {}", hex(&{ let n = rng.range(1, 12) as usize; rng.bytes(n) }.iter().map(|b| b | 1).map(|b| if b == FILLER { 1 } else { b }).collect::<Vec<_>>()));
    match order {
        0 => {
            lines.push(feed);
            lines.push(p.into());
            lines.push("drain 0".into());
            lines.push(p.into());
        }
        1 => {
            lines.push("drain 0".into());
            lines.push(p.into());
            lines.push(feed);
            lines.push(p.into());
        }
        _ => {
            lines.push(feed);
            lines.push("drain 0".into());
            lines.push(p.into());
        }
    }
    lines.push(p.into());
    lines.push(p.into());
    lines.push("settle".into());
    lines.push("drain 0".into());
    Case { name: format!("bidir{idx}"), lines }
}

/// more ready operations than submission-queue entries: the `push_raw` overflow path of io_uring
fn gen_overflow(rng: &mut Rng, idx: usize) -> Case {
    let cap = *rng.pick(&[1u32, 2, 4]);
    let n = rng.range(cap as u64 + 1, cap as u64 * 2 + 3) as usize;
    let mut lines = vec![format!("cfg iour {cap}{}", if rng.chance(1, 3) { " fut" } else { "" })];
    let mut seq = 0u8;
    for c in 0..n {
        lines.push(format!("rpipe {c}"));
    }
    // some channels already readable when their read is pushed (complete inside the overflow drain)
    let mut fed = vec![false; n];
    for c in 0..n {
        if rng.chance(1, 2) {
            seq += 1;
            lines.push(format!("feed {c} {:02x}{:02x}", seq, seq + 100));
            fed[c] = true;
        }
    }
    if rng.chance(1, 2) {
        lines.push("settle".into());
    }
    for c in 0..n {
        lines.push(format!("push {c} read {c} {}", rng.range(1, 4)));
        if rng.chance(1, 3) {
            lines.push(format!("waker {c}"));
        }
    }
    lines.push("settle".into());
    let mut order: Vec<usize> = (0..n).filter(|c| !fed[*c]).collect();
    // completion order chosen by the harness
    for i in (1..order.len()).rev() {
        let j = rng.below(i as u64 + 1) as usize;
        order.swap(i, j);
    }
    for (i, c) in order.iter().enumerate() {
        seq += 1;
        lines.push(format!("feed {c} {:02x}", seq));
        if rng.chance(1, 2) || i + 1 == order.len() {
            lines.push("settle".into());
        }
    }
    lines.push("settle".into());
    Case { name: format!("ovf{idx}"), lines }
}

/// more receives than submission-queue entries on IDLE sockets: nothing in flight can complete while the
/// overflow loop of `push_raw` runs, every push must still be `Pending`; then data arrives in shuffled order
fn gen_idle_burst(rng: &mut Rng, idx: usize) -> Case {
    let cap = *rng.pick(&[1u32, 1, 2, 2, 4]);
    let fut = if rng.chance(1, 4) { " fut" } else { "" };
    let n = rng.range(cap as u64 + 1, cap as u64 + 4) as usize;
    let mut lines = vec![format!("cfg iour {cap}{fut}")];
    for c in 0..n {
        lines.push(format!("{} {c}", if rng.chance(1, 2) { "sock" } else { "rpipe" }));
    }
    if rng.chance(1, 2) {
        lines.push("settle".into());
    }
    for c in 0..n {
        let op = if lines[1 + c].starts_with("sock") { "recv" } else { "read" };
        lines.push(format!("push {c} {op} {c} {}", rng.range(1, 4)));
        if rng.chance(1, 3) {
            lines.push(format!("waker {c}"));
        }
    }
    lines.push("settle".into());
    let mut order: Vec<usize> = (0..n).collect();
    for i in (1..order.len()).rev() {
        let j = rng.below(i as u64 + 1) as usize;
        order.swap(i, j);
    }
    for (i, c) in order.iter().enumerate() {
        lines.push(format!("feed {c} {:02x}{:02x}", 0x10 + i, 0x30 + i));
        if rng.chance(1, 2) {
            lines.push("settle".into());
        }
    }
    lines.push("settle".into());
    Case { name: format!("idle{idx}"), lines }
}

/// "stolen readiness": two or three descriptors of ONE socket / pipe (dup, try_clone), receives pending on
/// each, bytes arriving one at a time: every registration fires, one receive gets the byte, the others see
/// EAGAIN and must be re-queued *not ready* and re-armed so that the next byte reaches them
fn gen_stolen(rng: &mut Rng, idx: usize) -> Case {
    let fut = rng.chance(1, 5);
    let mut lines = vec![format!("cfg poll 1024{}", if fut { " fut" } else { "" })];
    let sock = rng.chance(2, 3);
    lines.push(format!("{} 0", if sock { "sock" } else { "rpipe" }));
    let nfd = rng.range(2, 3) as usize;
    for d in 1..nfd {
        lines.push(format!("dup 0 {d}"));
    }
    let p = if fut { "settle" } else { "poll" };
    let nops = rng.range(2, 4) as usize;
    let mut id = 0;
    // some data may be there already
    if rng.chance(1, 4) {
        lines.push("feed 0 7f".into());
    }
    let mut seq = 0u8;
    for i in 0..nops {
        let fd = if i < nfd { i } else { rng.below(nfd as u64) as usize };
        let op = if sock && rng.chance(2, 3) { "recv" } else { "read" };
        lines.push(format!("push {id} {op} {fd} {}", rng.range(1, 2)));
        if rng.chance(1, 2) {
            lines.push(format!("waker {id}"));
        }
        id += 1;
        if rng.chance(1, 4) {
            lines.push(p.into());
        }
    }
    for _ in 0..nops + 2 {
        seq += 1;
        let n = if rng.chance(1, 5) { 2 } else { 1 };
        let bytes: Vec<u8> = (0..n).map(|k| seq * 2 + k).collect();
        lines.push(format!("feed 0 {}", hex(&bytes)));
        lines.push(p.into());
        if rng.chance(1, 3) {
            lines.push(p.into());
        }
        if rng.chance(1, 5) && id < 6 {
            let fd = rng.below(nfd as u64) as usize;
            lines.push(format!("push {id} read {fd} 1"));
            id += 1;
        }
    }
    lines.push("settle".into());
    Case { name: format!("stolen{idx}"), lines }
}

/// an operation that changes hands before it completes: polled / registered under waker A, then under
/// waker B (the future was moved into another task, a select loser handed on, a hand-written poll_fn), then
/// the data arrives: exactly B must be woken
fn gen_rewake(rng: &mut Rng, idx: usize) -> Case {
    let iour = rng.chance(1, 2);
    let fut = rng.chance(1, 2);
    let cap = *rng.pick(&[1u32, 2, 4, 1024]);
    let mut lines = vec![format!("cfg {} {cap}{}", if iour { "iour" } else { "poll" }, if fut { " fut" } else { "" })];
    let n = rng.range(1, 3) as usize;
    for c in 0..n {
        lines.push(format!("{} {c}", if rng.chance(1, 2) { "sock" } else { "rpipe" }));
    }
    for c in 0..n {
        let op = if lines[1 + c].starts_with("sock") && rng.chance(1, 2) { "recv" } else { "read" };
        lines.push(format!("push {c} {op} {c} {}", rng.range(1, 4)));
        if rng.chance(3, 4) {
            lines.push(format!("waker {c}"));
        }
    }
    if rng.chance(1, 2) {
        lines.push("settle".into());
    }
    // hand the operations on, some of them more than once
    for c in 0..n {
        for _ in 0..rng.range(0, 2) {
            lines.push(format!("waker {c}"));
            if rng.chance(1, 3) {
                lines.push("settle".into());
            }
        }
    }
    let mut order: Vec<usize> = (0..n).collect();
    for i in (1..order.len()).rev() {
        let j = rng.below(i as u64 + 1) as usize;
        order.swap(i, j);
    }
    for (i, c) in order.iter().enumerate() {
        lines.push(format!("feed {c} {:02x}{:02x}", 0x50 + i, 0x60 + i));
        lines.push("settle".into());
    }
    lines.push("settle".into());
    Case { name: format!("rewake{idx}"), lines }
}

/// cancellation by token around completion: the op is parked (cancel must deliver ECANCELED even to a
/// submitter that blocks in `poll(None)`), or it has ALREADY completed in the kernel but its completion has
/// not been reaped (then the real outcome must be reported: a cancel is only a request)
fn gen_cancel_window(rng: &mut Rng, idx: usize) -> Case {
    let iour = rng.chance(1, 2);
    let cap = *rng.pick(&[2u32, 4, 1024]);
    let mut lines = vec![format!("cfg {} {cap}", if iour { "iour" } else { "poll" })];
    lines.push(format!("{} 0", if rng.chance(2, 3) { "sock" } else { "rpipe" }));
    lines.push("sock 1".into());
    let sock0 = lines[1].starts_with("sock");
    let rd = if sock0 && rng.chance(1, 2) { "recv" } else { "read" };
    let mut id = 0;
    let rounds = rng.range(1, 3);
    let mut seq = 0x20u8;
    for _ in 0..rounds {
        match rng.below(4) {
            0 => {
                // parked, then cancelled while the submitter blocks
                lines.push(format!("push {id} {rd} 0 {}", rng.range(1, 4)));
                if rng.chance(1, 2) {
                    lines.push(format!("waker {id}"));
                }
                lines.push("settle".into());
                lines.push(format!("ctokenb {id}"));
                id += 1;
            }
            1 | 2 => {
                // the data arrives, THEN the cancel: completed-but-unreaped on io_uring, still parked on polling
                lines.push(format!("push {id} {rd} 0 {}", rng.range(1, 4)));
                lines.push("settle".into());
                seq += 2;
                lines.push(format!("feed 0 {:02x}{:02x}", seq, seq + 1));
                lines.push(format!("{} {id}", if rng.chance(1, 2) { "ctokenb" } else { "ctoken" }));
                lines.push("settle".into());
                id += 1;
                // whatever was not delivered must still be readable
                lines.push(format!("push {id} {rd} 0 4"));
                lines.push("settle".into());
                lines.push(format!("ctokenb {id}"));
                id += 1;
            }
            _ => {
                // a send that the kernel has finished before the cancel arrives
                seq += 3;
                lines.push(format!("push {id} send 1 {:02x}{:02x}{:02x}", seq, seq + 1, seq + 2));
                if rng.chance(1, 2) {
                    lines.push("flush".into());
                }
                lines.push(format!("ctoken {id}"));
                lines.push("settle".into());
                lines.push("drain 1".into());
                id += 1;
            }
        }
    }
    lines.push("settle".into());
    Case { name: format!("cwin{idx}"), lines }
}

/// the multi-descriptor operation (Splice) with the two ends becoming ready in either order
fn gen_splice(rng: &mut Rng, idx: usize, order: u64) -> Case {
    let mut lines = vec!["cfg poll 1024".to_string(), "rpipe 0".into(), "wpipe 1".into(), "fill 1".into()];
    // an unrelated operation next to it
    lines.push("rpipe 2".into());
    lines.push("push 1 read 2 4".into());
    lines.push(format!("push 0 splice 0 1 {}", rng.range(1, 20)));
    lines.push("poll".into());
    let data = hex(&{ let n = rng.range(1, 10) as usize; rng.bytes(n) }.iter().map(|b| (b | 1) & 0x7f).collect::<Vec<_>>());
    if order == 0 {
        // input first, then output
        lines.push(format!("feed 0 {data}"));
        lines.push("poll".into());
        lines.push("drain 1".into());
        lines.push("poll".into());
    } else {
        // output first, then input
        lines.push("drain 1".into());
        lines.push("poll".into());
        lines.push(format!("feed 0 {data}"));
        lines.push("poll".into());
    }
    lines.push("feed 2 0a0b".into());
    lines.push("poll".into());
    lines.push("poll".into());
    lines.push("settle".into());
    lines.push("drain 1".into());
    Case { name: format!("splice{idx}-{order}"), lines }
}

/// thread-pool jobs released in a harness-chosen order, mixed with descriptor operations
fn gen_jobs(rng: &mut Rng, idx: usize) -> Case {
    let iour = rng.chance(1, 2);
    let cap = *rng.pick(&[1u32, 2, 4, 1024]);
    let fut = if rng.chance(1, 3) { " fut" } else { "" };
    let mut lines = vec![format!("cfg {} {cap}{fut}", if iour { "iour" } else { "poll" }), "rpipe 0".into()];
    let n = rng.range(2, 4) as usize;
    for id in 0..n {
        if rng.chance(4, 5) {
            lines.push(format!("push {id} job ok {}", 500 + id * 7));
        } else {
            lines.push(format!("push {id} job err {}", 60 + id));
        }
        if rng.chance(1, 2) {
            lines.push(format!("waker {id}"));
        }
    }
    lines.push(format!("push {n} read 0 4"));
    lines.push("settle".into());
    let mut order: Vec<usize> = (0..n).collect();
    for i in (1..order.len()).rev() {
        let j = rng.below(i as u64 + 1) as usize;
        order.swap(i, j);
    }
    let mut i = 0;
    while i < order.len() {
        let k = rng.range(1, (order.len() - i) as u64) as usize;
        let ids: Vec<String> = order[i..i + k].iter().map(|x| x.to_string()).collect();
        lines.push(format!("release {}", ids.join(" ")));
        i += k;
        if rng.chance(1, 3) {
            lines.push("feed 0 7172".into());
            lines.push("settle".into());
        }
    }
    lines.push("feed 0 73".into());
    lines.push("settle".into());
    Case { name: format!("jobs{idx}"), lines }
}

/// all distinct orderings of a small multiset of harness actions around a fixed set of pending operations:
/// two reads queued on one pipe, one read on a second pipe, one blocked write; actions = two feeds of the
/// first pipe, one feed of the second, one drain, three polls (7!/(2!·3!) = 420 orders per configuration)
fn gen_enum(tier: &str, rng: &mut Rng) -> Vec<Case> {
    fn perms(items: &mut Vec<u8>, k: usize, out: &mut Vec<Vec<u8>>) {
        if k == items.len() {
            out.push(items.clone());
            return;
        }
        let mut seen = vec![];
        for i in k..items.len() {
            if seen.contains(&items[i]) {
                continue;
            }
            seen.push(items[i]);
            items.swap(k, i);
            perms(items, k + 1, out);
            items.swap(k, i);
        }
    }
    let mut orders = vec![];
    perms(&mut vec![0, 0, 1, 2, 3, 3, 3], 0, &mut orders);
    let mut cases = vec![];
    let cfgs: Vec<(&str, u32, &str)> = vec![
        ("poll", 1024, ""), ("poll", 1, ""), ("poll", 2, " fut"), ("iour", 1, ""), ("iour", 2, ""), ("iour", 1024, " fut"),
    ];
    for (ci, (drv, cap, fut)) in cfgs.iter().enumerate() {
        for (oi, order) in orders.iter().enumerate() {
            // quick: a random tenth of the orders
            if tier != "thorough" && !rng.chance(1, 10) {
                continue;
            }
            let exact = *drv == "poll" && *cap >= 4 && fut.is_empty();
            let p = if exact { "poll" } else { "settle" };
            let mut lines = vec![format!("cfg {drv} {cap}{fut}"), "rpipe 0".into(), "rpipe 1".into(), "wpipe 2".into(), "fill 2".into()];
            lines.push("push 0 read 0 3".into());
            if *drv == "poll" {
                // a second reader on the same descriptor: FIFO (io_uring gives no order there)
                lines.push("push 1 read 0 3".into());
            }
            lines.push("push 2 read 1 4".into());
            lines.push("push 3 write 2 c1c2c3".into());
            lines.push("waker 0".into());
            lines.push("waker 3".into());
            let mut fed0 = 0u8;
            for a in order {
                match a {
                    0 => {
                        fed0 += 1;
                        lines.push(format!("feed 0 {}", if fed0 == 1 { "0102" } else { "03040506" }));
                        if *drv == "iour" {
                            lines.push("settle".into());
                            if fed0 == 1 {
                                lines.push("push 4 read 0 3".into());
                            }
                        }
                    }
                    1 => lines.push("feed 1 2122232425".into()),
                    2 => lines.push("drain 2".into()),
                    _ => lines.push(p.into()),
                }
            }
            lines.push("settle".into());
            lines.push("drain 2".into());
            cases.push(Case { name: format!("enum{ci}-{oi}"), lines });
        }
    }
    cases
}

/// multishot read (`ReadMulti` with the driver's buffer pool): one item per feed on io_uring, the final
/// completion at end of stream; a single managed read on the polling driver
fn gen_multi(rng: &mut Rng, idx: usize) -> Case {
    let iour = rng.chance(2, 3);
    // the kernel ends a multishot request when the completion queue (2 x SQ entries) is full: keep the
    // queue large enough for the at most five completions that can be pending between two scans
    let cap = *rng.pick(&[4u32, 1024]);
    let mut lines = vec![format!("cfg {} {cap}", if iour { "iour" } else { "poll" }), "rpipe 0".into(), "rpipe 1".into()];
    let mut seq = 0u8;
    let mut pay = |n: usize| -> Vec<u8> {
        (0..n)
            .map(|_| {
                seq = seq.wrapping_add(1);
                if seq == FILLER || seq == 0 {
                    seq = 1
                }
                seq
            })
            .collect()
    };
    if rng.chance(1, 3) {
        lines.push(format!("feed 0 {}", hex(&pay(rng.range(1, 5) as usize))));
    }
    lines.push("push 0 rmulti 0".into());
    if rng.chance(1, 2) {
        lines.push("waker 0".into());
    }
    lines.push("push 1 read 1 4".into());
    let steps = rng.range(2, 8);
    let mut unscanned = 0;
    for _ in 0..steps {
        match rng.below(5) {
            0 | 1 | 2 => {
                if unscanned < 4 {
                    lines.push(format!("feed 0 {}", hex(&pay(rng.range(1, 6) as usize))));
                    unscanned += 1;
                }
            }
            3 => lines.push(format!("feed 1 {}", hex(&pay(rng.range(1, 6) as usize)))),
            _ => {
                lines.push("settle".into());
                unscanned = 0;
            }
        }
    }
    lines.push("settle".into());
    lines.push("eof 0".into());
    lines.push("settle".into());
    Case { name: format!("multi{idx}"), lines }
}

fn generate(tier: &str, rng: &mut Rng) -> Vec<Case> {
    let scale = if tier == "thorough" { 12 } else { 1 };
    let mut cases = vec![];
    for i in 0..700 * scale {
        cases.push(gen_random(&mut rng.fork(), i));
    }
    for i in 0..150 * scale {
        cases.push(gen_fifo(&mut rng.fork(), i));
    }
    for i in 0..60 * scale {
        cases.push(gen_bidir(&mut rng.fork(), i));
    }
    for i in 0..150 * scale {
        cases.push(gen_overflow(&mut rng.fork(), i));
    }
    for i in 0..20 * scale {
        cases.push(gen_splice(&mut rng.fork(), i, (i % 2) as u64));
    }
    for i in 0..80 * scale {
        cases.push(gen_idle_burst(&mut rng.fork(), i));
    }
    for i in 0..120 * scale {
        cases.push(gen_stolen(&mut rng.fork(), i));
    }
    for i in 0..100 * scale {
        cases.push(gen_rewake(&mut rng.fork(), i));
    }
    for i in 0..60 * scale {
        cases.push(gen_cancel_window(&mut rng.fork(), i));
    }
    for i in 0..60 * scale {
        cases.push(gen_jobs(&mut rng.fork(), i));
    }
    for i in 0..80 * scale {
        cases.push(gen_multi(&mut rng.fork(), i));
    }
    cases.extend(gen_enum(tier, &mut rng.fork()));
    cases
}

fn main() {
    run_harness(
        generate,
        exec,
        "a case is non-trivial when it pushes at least two operations and at least one of them completes",
    );
}
