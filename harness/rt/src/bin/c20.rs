//! C20 — child processes: complete stdio and the real exit status.
//!
//! One scenario per line (see lean/Drivers/C20.lean for the format). The harness compiles the child
//! script into a `/bin/sh -c` command made of coreutils (`cat`, `dd bs=`, `head -c`, `wc -c`, `tr`,
//! `sleep`, `kill`), runs it through `compio_process` on the requested driver with the requested
//! order of the parent's activities, and prints what it observed. The same command is also run through
//! `std::process` with plain threads: that run is the implementation-only oracle of the monitors.
//!
//! A watchdog thread decides "deadlock": no progress of the parent for a while, every thread of the
//! harness asleep and every process of the child's group asleep in `read`/`write`/`wait` (or a zombie).
//! It then kills the group, which lets every pending future of the parent finish.
//! Generated cases run on `WORKERS` threads, each with its own runtimes (corpus / replay cases on the main
//! thread). Debugging aids: `C20_TIMES=1` (time per line), `C20_DEBUG=1` (dump of the processes, pipes and
//! epoll sets when a deadlock is declared), `C20_THRESH=<ms>` (silence before a deadlock is declared).

use std::{
    fs, io,
    os::unix::process::{CommandExt, ExitStatusExt},
    process::{ExitStatus, Stdio},
    sync::atomic::{AtomicBool, AtomicI32, AtomicU64, Ordering},
    time::{Duration, Instant},
};

use compio_buf::BufResult;
use compio_driver::{
    AsFd, AsRawFd, BorrowedFd, DriverType, ProactorBuilder, RawFd, SharedFd,
    op::{Interest, PollOnce},
};
use compio_io::{AsyncRead, AsyncReadExt, AsyncWriteExt};
use compio_process::{ChildStdin, Command};
use compio_runtime::Runtime;
use hx_common::{Case, Exec, Rng, run_harness};

const NOP_MS: u64 = 60;
const CAT_BLK: u64 = 131072;
const HEAD_BLK: u64 = 8192;
const WC_BLK: u64 = 16384;

// ---------------------------------------------------------------- scenario text

#[derive(Clone, Debug, PartialEq)]
enum Act {
    Copy { lim: Option<u64>, blk: u64, dst: char },
    Emit { dst: char, byte: u8, n: u64 },
    Nop,
    Exit(u32),
    Kill(u32),
}

#[derive(Clone, Debug)]
struct Scn {
    drv: String,
    route: String,
    capin: u64,
    capout: u64,
    caperr: u64,
    plan: String,
    wch: usize,
    rch: usize,
    stdin_null: bool,
    paylen: usize,
    payseed: u64,
    mode: String,
    script: Vec<Act>,
    opts: Vec<String>,
}

fn act_text(a: &Act) -> String {
    match a {
        Act::Copy { lim, blk, dst } => {
            format!("copy:{}:{}:{}", lim.map(|n| n.to_string()).unwrap_or("*".into()), blk, dst)
        }
        Act::Emit { dst, byte, n } => format!("emit:{dst}:{byte}:{n}"),
        Act::Nop => "nop".into(),
        Act::Exit(c) => format!("exit:{c}"),
        Act::Kill(s) => format!("kill:{s}"),
    }
}

fn script_text(s: &[Act]) -> String {
    if s.is_empty() { "-".into() } else { s.iter().map(act_text).collect::<Vec<_>>().join(";") }
}

impl Scn {
    fn line(&self) -> String {
        format!(
            "run {} {} {} {} {} {} {} {} {} {} {} {} {} {}",
            self.drv,
            self.route,
            self.capin,
            self.capout,
            self.caperr,
            self.plan,
            self.wch,
            self.rch,
            if self.stdin_null { "null" } else { "pipe" },
            self.paylen,
            self.payseed,
            self.mode,
            script_text(&self.script),
            if self.opts.is_empty() { "-".into() } else { self.opts.join(",") }
        )
    }

    fn opt(&self, o: &str) -> bool {
        self.opts.iter().any(|x| x == o)
    }

    /// value of an option `key=value`
    fn opt_val(&self, key: &str) -> Option<&str> {
        self.opts.iter().find_map(|x| x.strip_prefix(key).and_then(|r| r.strip_prefix('=')))
    }

    /// stdout / stderr are piped but stay inside the `Child` (dropped when the wait has completed)
    fn out_held(&self) -> bool {
        self.plan == "outheld" || self.plan == "allheld"
    }

    fn err_held(&self) -> bool {
        self.plan == "errheld" || self.plan == "allheld"
    }
}

fn parse_act(t: &str) -> Option<Act> {
    let p: Vec<&str> = t.split(':').collect();
    let dst = |s: &str| match s {
        "o" => Some('o'),
        "e" => Some('e'),
        "n" => Some('n'),
        _ => None,
    };
    match p.as_slice() {
        ["copy", lim, blk, d] => Some(Act::Copy {
            lim: if *lim == "*" { None } else { Some(lim.parse().ok()?) },
            blk: blk.parse().ok()?,
            dst: dst(d)?,
        }),
        ["emit", d, b, n] => Some(Act::Emit { dst: dst(d)?, byte: b.parse().ok()?, n: n.parse().ok()? }),
        ["nop"] => Some(Act::Nop),
        ["exit", c] => Some(Act::Exit(c.parse().ok()?)),
        ["kill", s] => Some(Act::Kill(s.parse().ok()?)),
        _ => None,
    }
}

fn parse_line(l: &str) -> Option<Scn> {
    let w: Vec<&str> = l.split_whitespace().collect();
    if w.len() != 15 || w[0] != "run" {
        return None;
    }
    let script = if w[13] == "-" {
        vec![]
    } else {
        w[13].split(';').map(parse_act).collect::<Option<Vec<_>>>()?
    };
    let sc = Scn {
        drv: w[1].into(),
        route: w[2].into(),
        capin: w[3].parse().ok()?,
        capout: w[4].parse().ok()?,
        caperr: w[5].parse().ok()?,
        plan: w[6].into(),
        wch: w[7].parse().ok()?,
        rch: w[8].parse().ok()?,
        stdin_null: match w[9] {
            "null" => true,
            "pipe" => false,
            _ => return None,
        },
        paylen: w[10].parse().ok()?,
        payseed: w[11].parse().ok()?,
        mode: w[12].into(),
        script,
        opts: if w[14] == "-" { vec![] } else { w[14].split(',').map(String::from).collect() },
    };
    let ok = ["uring", "poll"].contains(&sc.drv.as_str())
        && ["pool", "pidfd"].contains(&sc.route.as_str())
        && ["conc", "drainwait", "waitdrain", "seq", "held", "outheld", "errheld", "allheld"].contains(&sc.plan.as_str())
        && sc.wch > 0
        && sc.rch > 0
        && sc.script.iter().all(|a| !matches!(a, Act::Copy { blk: 0, .. }));
    ok.then_some(sc)
}

fn payload_of(len: usize, seed: u64) -> Vec<u8> {
    (0..len as u64).map(|i| ((seed * 7 + i * 31 + (i / 256) * 17) % 251) as u8).collect()
}

fn fnv(bs: &[u8]) -> u64 {
    let mut h: u64 = 0xcbf2_9ce4_8422_2325;
    for b in bs {
        h ^= *b as u64;
        h = h.wrapping_mul(0x0100_0000_01b3);
    }
    h
}

fn show_bytes(bs: &[u8]) -> String {
    format!("{}:{}", bs.len(), fnv(bs))
}

fn show_status(st: &ExitStatus) -> String {
    if let Some(c) = st.code() {
        format!("code:{c}")
    } else if let Some(s) = st.signal() {
        format!("sig:{s}")
    } else {
        "other".into()
    }
}

/// the child program as a `/bin/sh -c` text
fn compile(script: &[Act]) -> String {
    let redir = |d: char| match d {
        'e' => " >&2",
        _ => "",
    };
    let mut parts = vec![];
    for a in script {
        parts.push(match a {
            Act::Copy { lim: None, blk, dst: 'n' } => {
                if *blk == WC_BLK { "wc -c >>\"$C20F\"".to_string() } else { format!("dd bs={blk} status=none | wc -c >>\"$C20F\"") }
            }
            Act::Copy { lim: None, blk, dst } => {
                if *blk == CAT_BLK { format!("cat{}", redir(*dst)) } else { format!("dd bs={blk} status=none{}", redir(*dst)) }
            }
            Act::Copy { lim: Some(n), dst: 'n', .. } => format!("head -c {n} | wc -c >>\"$C20F\""),
            Act::Copy { lim: Some(n), dst, .. } => format!("head -c {n}{}", redir(*dst)),
            Act::Emit { dst: 'n', .. } => ":".to_string(),
            Act::Emit { dst, byte, n } => {
                if *n <= 60000 && *n > 0 && byte.is_ascii_alphanumeric() {
                    format!("printf %s {}{}", String::from_utf8(vec![*byte; *n as usize]).unwrap(), redir(*dst))
                } else if *n == 0 {
                    ":".to_string()
                } else {
                    format!("head -c {n} /dev/zero | tr '\\000' '\\{:03o}'{}", byte, redir(*dst))
                }
            }
            Act::Nop => format!("sleep 0.{NOP_MS:03}"),
            Act::Exit(c) => format!("exit {c}"),
            Act::Kill(s) => format!("kill -{s} $$"),
        });
    }
    if parts.is_empty() { ":".into() } else { parts.join("; ") }
}

fn read_sunk(path: &str) -> u64 {
    let s = fs::read_to_string(path).unwrap_or_default();
    let _ = fs::remove_file(path);
    s.split_whitespace().filter_map(|t| t.parse::<u64>().ok()).sum()
}

// ---------------------------------------------------------------- watchdog

/// one slot per thread that runs cases (slot 0 = the main thread)
struct Slot {
    pid: AtomicI32,
    progress: AtomicU64,
    deadlock: AtomicBool,
    thresh_ms: AtomicU64,
    t0_ms: AtomicU64,
    tid: AtomicI32,
}

const WORKERS: usize = 8;

#[allow(clippy::declare_interior_mutable_const)]
const SLOT_INIT: Slot = Slot {
    pid: AtomicI32::new(0),
    progress: AtomicU64::new(0),
    deadlock: AtomicBool::new(false),
    thresh_ms: AtomicU64::new(300),
    t0_ms: AtomicU64::new(0),
    tid: AtomicI32::new(0),
};
static SLOTS: [Slot; WORKERS + 1] = [SLOT_INIT; WORKERS + 1];
static LINES: std::sync::Mutex<Vec<String>> = std::sync::Mutex::new(Vec::new());

thread_local! {
    static MY_SLOT: std::cell::Cell<usize> = const { std::cell::Cell::new(0) };
}

fn slot() -> &'static Slot {
    &SLOTS[MY_SLOT.with(|s| s.get())]
}

fn enter_slot(i: usize) {
    MY_SLOT.with(|s| s.set(i));
    SLOTS[i].tid.store(unsafe { libc::syscall(libc::SYS_gettid) } as i32, Ordering::SeqCst);
}

fn now_ms() -> u64 {
    std::time::SystemTime::now().duration_since(std::time::UNIX_EPOCH).unwrap().as_millis() as u64
}

fn bump() {
    slot().progress.fetch_add(1, Ordering::Relaxed);
}

fn proc_state(path: &str) -> Option<char> {
    let s = fs::read_to_string(path).ok()?;
    let r = s.rfind(')')?;
    s[r + 1..].trim_start().chars().next()
}

fn descendants(pid: i32, out: &mut Vec<i32>) {
    out.push(pid);
    if let Ok(rd) = fs::read_dir(format!("/proc/{pid}/task")) {
        for t in rd.flatten() {
            if let Ok(s) = fs::read_to_string(t.path().join("children")) {
                for c in s.split_whitespace().filter_map(|x| x.parse::<i32>().ok()) {
                    if !out.contains(&c) {
                        descendants(c, out);
                    }
                }
            }
        }
    }
}

/// every process below `pid` is a zombie / gone or asleep in read, write, wait4, waitid;
/// second component: some process is asleep in a read or a write (blocked on a pipe)
fn group_blocked(pid: i32) -> (bool, bool) {
    let mut ps = vec![];
    descendants(pid, &mut ps);
    let mut on_pipe = false;
    for p in ps {
        match proc_state(&format!("/proc/{p}/stat")) {
            None | Some('Z') | Some('X') => continue,
            Some('S') => {
                let sc = fs::read_to_string(format!("/proc/{p}/syscall")).unwrap_or_default();
                let nr = sc.split_whitespace().next().and_then(|x| x.parse::<i64>().ok());
                match nr {
                    Some(0) | Some(1) | Some(17) | Some(18) | Some(19) | Some(20) => on_pipe = true,
                    Some(61) | Some(247) => {}
                    _ => return (false, false),
                }
            }
            _ => return (false, false),
        }
    }
    (true, on_pipe)
}

/// the thread that runs the case (the compio runtime lives on it) is asleep, and so are the kernel-side
/// helpers of its ring (`iou-wrk-<tid>` / `iou-sqp-<tid>` threads: a punted read/write runs there)
fn thread_asleep(tid: i32) -> bool {
    if !matches!(proc_state(&format!("/proc/self/task/{tid}/stat")), Some('S') | Some('I')) {
        return false;
    }
    for t in ring_helpers(tid) {
        if !matches!(proc_state(&format!("/proc/self/task/{t}/stat")), None | Some('S') | Some('I') | Some('Z') | Some('X')) {
            return false;
        }
    }
    true
}

fn ring_helpers(tid: i32) -> Vec<i32> {
    let mut v = vec![];
    if let Ok(rd) = fs::read_dir("/proc/self/task") {
        for e in rd.flatten() {
            let comm = fs::read_to_string(e.path().join("comm")).unwrap_or_default();
            let comm = comm.trim();
            if comm == format!("iou-wrk-{tid}") || comm == format!("iou-sqp-{tid}") {
                if let Ok(t) = e.file_name().to_string_lossy().parse::<i32>() {
                    v.push(t);
                }
            }
        }
    }
    v
}

fn ctx_switches(path: &str) -> u64 {
    fs::read_to_string(path)
        .unwrap_or_default()
        .lines()
        .filter(|l| l.starts_with("voluntary_ctxt_switches") || l.starts_with("nonvoluntary_ctxt_switches"))
        .filter_map(|l| l.split_whitespace().last().and_then(|x| x.parse::<u64>().ok()))
        .sum()
}

/// Load-independent evidence that nothing ran: number of context switches of every process of the child's
/// group, of the runtime thread and of its ring helpers, plus the set of processes. A process that was
/// scheduled at all between two samples changes this number, however short the time it ran.
fn activity(pid: i32, tid: i32) -> u64 {
    let mut ps = vec![];
    descendants(pid, &mut ps);
    let mut h: u64 = ps.len() as u64;
    for p in ps {
        h = h.wrapping_mul(1_000_003).wrapping_add(p as u64).wrapping_add(ctx_switches(&format!("/proc/{p}/status")) << 20);
    }
    h = h.wrapping_mul(1_000_003).wrapping_add(ctx_switches(&format!("/proc/self/task/{tid}/status")));
    for t in ring_helpers(tid) {
        h = h.wrapping_mul(1_000_003).wrapping_add(ctx_switches(&format!("/proc/self/task/{t}/status")));
    }
    h
}

/// how much longer than on a quiet machine a runnable process may have to wait for a CPU: 1-minute load
/// average per CPU, between 1 and 8. Only the time to the verdict grows, not what is decided.
fn load_factor() -> u32 {
    let load = fs::read_to_string("/proc/loadavg").ok().and_then(|s| s.split_whitespace().next().and_then(|x| x.parse::<f64>().ok())).unwrap_or(0.0);
    let cpus = std::thread::available_parallelism().map(|n| n.get()).unwrap_or(1) as f64;
    ((load / cpus).ceil() as u32).clamp(1, 8)
}

fn start_watchdog() {
    std::thread::spawn(|| {
        struct W {
            cur: i32,
            last: u64,
            // time of the last observed progress, start of the current streak of "everything asleep" samples
            moved: Instant,
            asleep_since: Option<Instant>,
            // context-switch fingerprint at the start of the streak
            act: u64,
        }
        let mut ws: Vec<W> = (0..=WORKERS).map(|_| W { cur: 0, last: 0, moved: Instant::now(), asleep_since: None, act: 0 }).collect();
        loop {
            std::thread::sleep(Duration::from_millis(20));
            for (i, w) in ws.iter_mut().enumerate() {
                let sl = &SLOTS[i];
                let pid = sl.pid.load(Ordering::SeqCst);
                let t0 = sl.t0_ms.load(Ordering::SeqCst);
                if t0 != 0 && now_ms() > t0 + 180_000 {
                    eprintln!("c20 harness: a case exceeded 180 s, aborting");
                    if pid != 0 {
                        unsafe { libc::kill(-pid, libc::SIGKILL) };
                    }
                    std::process::abort();
                }
                if pid == 0 {
                    w.cur = 0;
                    continue;
                }
                let p = sl.progress.load(Ordering::Relaxed);
                if pid != w.cur || p != w.last || sl.deadlock.load(Ordering::SeqCst) {
                    w.cur = pid;
                    w.last = p;
                    w.moved = Instant::now();
                    w.asleep_since = None;
                    continue;
                }
                let thresh = Duration::from_millis(sl.thresh_ms.load(Ordering::Relaxed)) * load_factor();
                if w.moved.elapsed() < thresh / 2 {
                    continue;
                }
                let tid = sl.tid.load(Ordering::SeqCst);
                let (blocked, on_pipe) = group_blocked(pid);
                if !(thread_asleep(tid) && blocked) {
                    w.asleep_since = None;
                    continue;
                }
                // asleep in every sample is not enough on a loaded machine: nobody may have been scheduled
                // at all during the streak (context-switch counters unchanged)
                let act = activity(pid, tid);
                if w.asleep_since.is_some() && act != w.act {
                    w.asleep_since = None;
                }
                if w.asleep_since.is_none() {
                    w.act = act;
                }
                // nobody of the child's group waits on a pipe (exited, or gone): only a very long silence counts
                let thresh = if on_pipe { thresh } else { thresh * 4 };
                let t = *w.asleep_since.get_or_insert_with(Instant::now);
                if t.elapsed() >= thresh / 2 && w.moved.elapsed() >= thresh {
                    // re-confirm: five more samples, 100 ms apart, everything still asleep and not scheduled once
                    let mut confirmed = true;
                    for _ in 0..5 {
                        std::thread::sleep(Duration::from_millis(100));
                        let (b2, _) = group_blocked(pid);
                        if !(b2 && thread_asleep(tid)) || activity(pid, tid) != w.act || sl.progress.load(Ordering::Relaxed) != p || sl.pid.load(Ordering::SeqCst) != pid {
                            confirmed = false;
                            break;
                        }
                    }
                    if !confirmed {
                        w.asleep_since = None;
                        continue;
                    }
                    if std::env::var("C20_DEBUG").is_ok() {
                        let mut ps = vec![];
                        descendants(pid, &mut ps);
                        let mut d = format!("deadlock slot {i} pid {pid} progress {p} line {:?}:", LINES.lock().unwrap().get(i));
                        for q in ps {
                            d += &format!(
                                " [{q} {:?} sys={} cmd={}]",
                                proc_state(&format!("/proc/{q}/stat")),
                                fs::read_to_string(format!("/proc/{q}/syscall")).unwrap_or_default().split_whitespace().take(2).collect::<Vec<_>>().join(","),
                                fs::read_to_string(format!("/proc/{q}/cmdline")).unwrap_or_default().replace('\0', " ")
                            );
                        }
                        let tid = sl.tid.load(Ordering::SeqCst);
                        d += &format!(
                            " thread {tid} sys={} wchan={}",
                            fs::read_to_string(format!("/proc/self/task/{tid}/syscall")).unwrap_or_default().split_whitespace().take(2).collect::<Vec<_>>().join(","),
                            fs::read_to_string(format!("/proc/self/task/{tid}/wchan")).unwrap_or_default()
                        );
                        // pipes of the child and who else holds them; epoll registrations of this process
                        let mut ps2 = vec![];
                        descendants(pid, &mut ps2);
                        if let Some(q) = ps2.last() {
                            for n in 0..3 {
                                d += &format!(" child-fd{n}={:?}", fs::read_link(format!("/proc/{q}/fd/{n}")).ok());
                            }
                        }
                        if let Ok(rd) = fs::read_dir("/proc/self/fd") {
                            for e in rd.flatten() {
                                let l = fs::read_link(e.path()).map(|p| p.to_string_lossy().into_owned()).unwrap_or_default();
                                if l.starts_with("pipe:") {
                                    d += &format!(" self:{}={}", e.file_name().to_string_lossy(), l);
                                }
                                if l.contains("eventpoll") {
                                    let fi = fs::read_to_string(format!("/proc/self/fdinfo/{}", e.file_name().to_string_lossy())).unwrap_or_default();
                                    let regs: Vec<String> = fi.lines().filter(|x| x.starts_with("tfd:")).map(|x| x.split_whitespace().take(4).collect::<Vec<_>>().join(" ")).collect();
                                    d += &format!(" epoll:{}=[{}]", e.file_name().to_string_lossy(), regs.join("; "));
                                }
                            }
                        }
                        eprintln!("{d}");
                    }
                    sl.deadlock.store(true, Ordering::SeqCst);
                    unsafe {
                        libc::kill(-pid, libc::SIGKILL);
                        libc::kill(pid, libc::SIGKILL);
                    }
                    w.asleep_since = None;
                }
            }
        }
    });
}

// ---------------------------------------------------------------- observations

#[derive(Default, Debug, Clone)]
struct Obs {
    out: Vec<u8>,
    err: Vec<u8>,
    sunk: u64,
    /// "ok" | "epipe" | other error kinds
    w: String,
    status: Option<ExitStatus>,
    errors: Vec<String>,
    deadlock: bool,
    /// the child still existed (signal 0 deliverable) right after `wait` returned
    alive_after_wait: bool,
    /// `reaped`: the status taken by the harness' own `waitpid` before compio waited
    stolen: Option<ExitStatus>,
    /// `wait` failed with ECHILD
    lost: bool,
    elapsed: Duration,
    capin: i64,
    capout: i64,
    caperr: i64,
}

fn set_pipe_sizes(capin: u64, capout: u64, caperr: u64) -> impl FnMut() -> io::Result<()> + Send + Sync + 'static {
    move || {
        unsafe {
            libc::fcntl(0, libc::F_SETPIPE_SZ, capin as libc::c_int);
            libc::fcntl(1, libc::F_SETPIPE_SZ, capout as libc::c_int);
            libc::fcntl(2, libc::F_SETPIPE_SZ, caperr as libc::c_int);
        }
        Ok(())
    }
}

fn pipe_size(fd: RawFd) -> i64 {
    unsafe { libc::fcntl(fd, libc::F_GETPIPE_SZ) as i64 }
}

/// the same command under `std::process` with one thread per direction
fn oracle(sc: &Scn, cmd: &str, payload: &[u8], file: &str) -> Obs {
    let mut o = Obs::default();
    let mut c = std::process::Command::new("/bin/sh");
    c.arg("-c").arg(cmd).env("C20F", file);
    c.stdin(if sc.stdin_null { Stdio::null() } else { Stdio::piped() });
    if sc.route == "pidfd" {
        c.stdout(Stdio::null()).stderr(Stdio::null());
    } else {
        c.stdout(Stdio::piped()).stderr(Stdio::piped());
    }
    unsafe { c.pre_exec(set_pipe_sizes(sc.capin, sc.capout, sc.caperr)) };
    c.process_group(0);
    let mut child = match c.spawn() {
        Ok(c) => c,
        Err(e) => {
            o.errors.push(format!("oracle-spawn:{:?}", e.kind()));
            return o;
        }
    };
    use std::io::{Read, Write};
    let held = sc.plan == "held" || sc.plan == "allheld";
    let stdin = if held { None } else { child.stdin.take() };
    let pay = payload.to_vec();
    let wt = std::thread::spawn(move || match stdin {
        Some(mut s) => match s.write_all(&pay) {
            Ok(()) => "ok".to_string(),
            Err(e) if e.kind() == io::ErrorKind::BrokenPipe => "epipe".to_string(),
            Err(e) => format!("{:?}", e.kind()),
        },
        None => "ok".to_string(),
    });
    let stderr = if sc.err_held() { None } else { child.stderr.take() };
    let et = std::thread::spawn(move || {
        let mut v = vec![];
        if let Some(mut s) = stderr {
            let _ = s.read_to_end(&mut v);
        }
        v
    });
    let stdout = if sc.out_held() { None } else { child.stdout.take() };
    let ot = std::thread::spawn(move || {
        let mut v = vec![];
        if let Some(mut s) = stdout {
            let _ = s.read_to_end(&mut v);
        }
        v
    });
    // `held`: std's `wait` closes the stdin it still holds. Handles left inside the `Child` are not read by
    // anybody: a child that writes more than the pipe holds blocks under std as well; bound the wait.
    let opid = child.id() as i32;
    let done = std::sync::Arc::new(AtomicBool::new(false));
    let killed = std::sync::Arc::new(AtomicBool::new(false));
    if sc.out_held() || sc.err_held() {
        let (done, killed) = (done.clone(), killed.clone());
        std::thread::spawn(move || {
            let t = Instant::now();
            while t.elapsed() < Duration::from_millis(2500) {
                std::thread::sleep(Duration::from_millis(25));
                if done.load(Ordering::SeqCst) {
                    return;
                }
            }
            killed.store(true, Ordering::SeqCst);
            unsafe { libc::kill(-opid, libc::SIGKILL) };
        });
    }
    o.status = child.wait().ok();
    done.store(true, Ordering::SeqCst);
    o.deadlock = killed.load(Ordering::SeqCst);
    o.out = ot.join().unwrap();
    o.w = wt.join().unwrap();
    o.err = et.join().unwrap();
    o.sunk = read_sunk(file);
    o
}

/// one step of a read plan: `read` with that much room, `read_exact` of a frame, `read_to_end`
#[derive(Clone, Debug, PartialEq)]
enum RStep {
    Read(usize),
    Exact(usize),
    ToEnd,
}

/// `16.x8200.8192.e`: capacities of consecutive `read` calls, `x<n>` = `read_exact` of n bytes, `e` = `read_to_end`;
/// the plan is repeated until end of file
fn parse_rplan(t: &str) -> Option<Vec<RStep>> {
    t.split('.')
        .map(|x| {
            if x == "e" {
                Some(RStep::ToEnd)
            } else if let Some(n) = x.strip_prefix('x') {
                n.parse().ok().filter(|n| *n > 0).map(RStep::Exact)
            } else {
                x.parse().ok().filter(|n| *n > 0).map(RStep::Read)
            }
        })
        .collect()
}

/// Read one handle with mixed request sizes. `expected` (what the same child produced under std::process)
/// only decides whether a whole `read_exact` frame is still to come.
async fn read_plan<R: AsyncRead>(mut r: R, plan: Vec<RStep>, expected: usize) -> (Vec<u8>, Option<String>) {
    let mut acc: Vec<u8> = vec![];
    loop {
        for st in &plan {
            let st = match st {
                RStep::Exact(n) if acc.len() + n > expected => RStep::Read(*n),
                s => s.clone(),
            };
            match st {
                RStep::Read(n) => {
                    let BufResult(res, buf) = r.read(Vec::with_capacity(n)).await;
                    match res {
                        Ok(0) => return (acc, None),
                        Ok(k) => {
                            bump();
                            if k != buf.len() || k > buf.capacity() {
                                return (acc, Some(format!("read-count:{k}/{}", buf.len())));
                            }
                            acc.extend_from_slice(&buf);
                        }
                        Err(e) if e.kind() == io::ErrorKind::Interrupted => {}
                        Err(e) => return (acc, Some(format!("{:?}", e.kind()))),
                    }
                }
                RStep::Exact(n) => {
                    use compio_buf::{IntoInner, IoBufExt};
                    let BufResult(res, buf) = r.read_exact(Vec::with_capacity(n).slice(..n)).await;
                    let buf = buf.into_inner();
                    match res {
                        Ok(()) => {
                            bump();
                            if buf.len() != n {
                                return (acc, Some(format!("read_exact-len:{}/{n}", buf.len())));
                            }
                            acc.extend_from_slice(&buf);
                        }
                        Err(e) => {
                            acc.extend_from_slice(&buf);
                            return (acc, Some(format!("read_exact:{:?}", e.kind())));
                        }
                    }
                }
                RStep::ToEnd => {
                    let BufResult(res, buf) = r.read_to_end(acc).await;
                    bump();
                    return match res {
                        Ok(_) => (buf, None),
                        Err(e) => (buf, Some(format!("{:?}", e.kind()))),
                    };
                }
            }
        }
    }
}

async fn read_loop<R: AsyncRead>(mut r: R, rch: usize, toend: bool) -> (Vec<u8>, Option<String>) {
    if toend {
        let BufResult(res, buf) = r.read_to_end(vec![]).await;
        bump();
        return match res {
            Ok(n) if n == buf.len() => (buf, None),
            Ok(n) => (buf, Some(format!("read_to_end-count:{n}"))),
            Err(e) => (buf, Some(format!("{:?}", e.kind()))),
        };
    }
    let mut acc = vec![];
    loop {
        let BufResult(res, buf) = r.read(Vec::with_capacity(rch)).await;
        match res {
            Ok(0) => return (acc, None),
            Ok(n) => {
                bump();
                if n != buf.len() || n > rch {
                    return (acc, Some(format!("read-count:{n}/{}", buf.len())));
                }
                acc.extend_from_slice(&buf);
            }
            Err(e) if e.kind() == io::ErrorKind::Interrupted => {}
            Err(e) => return (acc, Some(format!("{:?}", e.kind()))),
        }
    }
}

async fn write_loop(mut w: ChildStdin, payload: Vec<u8>, wch: usize) -> String {
    for chunk in payload.chunks(wch) {
        let BufResult(res, _) = w.write_all(chunk.to_vec()).await;
        match res {
            Ok(()) => bump(),
            Err(e) if e.kind() == io::ErrorKind::BrokenPipe => return "epipe".into(),
            Err(e) => return format!("{:?}", e.kind()),
        }
    }
    drop(w);
    "ok".into()
}

/// transcription of compio-process/src/linux.rs `child_wait` (feature `linux_pidfd`, nightly only):
/// the pidfd comes from `pidfd_open` instead of `ChildExt::pidfd`
async fn child_wait_pidfd(child: std::process::Child) -> io::Result<ExitStatus> {
    struct PidFdWrap {
        child: std::process::Child,
        fd: RawFd,
    }
    impl AsRawFd for PidFdWrap {
        fn as_raw_fd(&self) -> RawFd {
            self.fd
        }
    }
    impl AsFd for PidFdWrap {
        fn as_fd(&self) -> BorrowedFd<'_> {
            unsafe { BorrowedFd::borrow_raw(self.fd) }
        }
    }
    let raw = unsafe { libc::syscall(libc::SYS_pidfd_open, child.id() as libc::c_int, 0) } as RawFd;
    if raw < 0 {
        return Err(io::Error::last_os_error());
    }
    let fd = PidFdWrap { child, fd: raw };
    let fd = SharedFd::new(fd);
    let op = PollOnce::new(fd.clone(), Interest::Readable);
    let r = compio_runtime::submit(op).await.0;
    if let Err(e) = r {
        unsafe { libc::close(raw) };
        return Err(e);
    }
    let mut fd = fd.take().await.ok_or_else(|| io::Error::other("take-none"))?;
    let r = fd.child.wait();
    unsafe { libc::close(raw) };
    r
}

fn after_wait(o: &mut Obs, pid: u32, r: io::Result<ExitStatus>) {
    bump();
    o.alive_after_wait = unsafe { libc::kill(pid as i32, 0) } == 0;
    match r {
        Ok(st) => o.status = Some(st),
        Err(e) if e.raw_os_error() == Some(libc::ECHILD) => o.lost = true,
        Err(e) => o.errors.push(format!("wait:{:?}", e.kind())),
    }
}

async fn run_compio(sc: &Scn, cmd: &str, payload: Vec<u8>, file: &str, expect: (usize, usize)) -> Obs {
    let mut o = Obs::default();
    let t0 = Instant::now();
    let toend = sc.opt("toend");
    if sc.route == "pidfd" {
        // status plumbing only: the stdio wrappers of compio-process cannot be built from outside
        let mut c = std::process::Command::new("/bin/sh");
        c.arg("-c").arg(cmd).env("C20F", file).stdin(Stdio::null()).stdout(Stdio::null()).stderr(Stdio::null());
        c.process_group(0);
        let child = match c.spawn() {
            Ok(c) => c,
            Err(e) => {
                o.errors.push(format!("spawn:{:?}", e.kind()));
                return o;
            }
        };
        let pid = child.id();
        slot().pid.store(pid as i32, Ordering::SeqCst);
        let r = child_wait_pidfd(child).await;
        after_wait(&mut o, pid, r);
        o.w = "ok".into();
        o.elapsed = t0.elapsed();
        return o;
    }
    let mut c = Command::new("/bin/sh");
    c.arg("-c").arg(cmd).env("C20F", file);
    c.process_group(0);
    if sc.stdin_null {
        c.stdin(Stdio::null()).unwrap();
    } else {
        c.stdin(Stdio::piped()).unwrap();
    }
    c.stdout(Stdio::piped()).unwrap();
    c.stderr(Stdio::piped()).unwrap();
    unsafe { c.pre_exec(set_pipe_sizes(sc.capin, sc.capout, sc.caperr)) };
    if sc.opt("status") {
        // `Command::status()`: spawn + wait with every piped handle left inside the `Child`
        match c.status().await {
            Ok(st) => o.status = Some(st),
            Err(e) => o.errors.push(format!("status:{:?}", e.kind())),
        }
        bump();
        o.w = "ok".into();
        o.capin = sc.capin as i64;
        o.capout = sc.capout as i64;
        o.caperr = sc.caperr as i64;
        o.elapsed = t0.elapsed();
        return o;
    }
    let mut child = match c.spawn() {
        Ok(c) => c,
        Err(e) => {
            o.errors.push(format!("spawn:{:?}", e.kind()));
            return o;
        }
    };
    let pid = child.id();
    slot().pid.store(pid as i32, Ordering::SeqCst);
    o.capin = child.stdin.as_ref().map(|s| pipe_size(s.as_raw_fd())).unwrap_or(sc.capin as i64);
    o.capout = child.stdout.as_ref().map(|s| pipe_size(s.as_raw_fd())).unwrap_or(-1);
    o.caperr = child.stderr.as_ref().map(|s| pipe_size(s.as_raw_fd())).unwrap_or(-1);

    let (wch, rch) = (sc.wch, sc.rch);
    let held = sc.plan == "held" || sc.plan == "allheld";
    let wwo = sc.opt("wwo");
    let stdin = if held { None } else { child.stdin.take() };
    let spawn_w = move |stdin: Option<ChildStdin>, payload: Vec<u8>| {
        compio_runtime::spawn(async move {
            match stdin {
                Some(s) => write_loop(s, payload, wch).await,
                None => "ok".to_string(),
            }
        })
    };
    macro_rules! join {
        ($h:expr, $what:literal) => {
            match $h.await {
                Ok(v) => Some(v),
                Err(_) => {
                    o.errors.push(concat!("task-panic:", $what).to_string());
                    None
                }
            }
        };
    }
    macro_rules! reader_result {
        ($r:expr, $field:ident, $what:literal) => {
            if let Some((bytes, e)) = $r {
                o.$field = bytes;
                if let Some(e) = e {
                    o.errors.push(format!(concat!($what, ":{}"), e));
                }
            }
        };
    }

    if wwo {
        // `wait_with_output`: wait ‖ read_to_end(stdout) ‖ read_to_end(stderr) inside compio-process
        let hw = spawn_w(stdin, payload);
        let r = child.wait_with_output().await;
        bump();
        o.alive_after_wait = unsafe { libc::kill(pid as i32, 0) } == 0;
        match r {
            Ok(out) => {
                o.status = Some(out.status);
                o.out = out.stdout;
                o.err = out.stderr;
            }
            Err(e) => o.errors.push(format!("wait_with_output:{:?}", e.kind())),
        }
        if let Some(w) = join!(hw, "writer") {
            o.w = w;
        }
    } else {
        // readers: uniform requests (`rch` / read_to_end) or a plan of mixed request sizes
        let rpo = sc.opt_val("rpo").and_then(parse_rplan);
        let rpe = sc.opt_val("rpe").and_then(parse_rplan);
        let (exp_o, exp_e) = expect;
        macro_rules! reader {
            ($h:expr, $rp:expr, $exp:expr) => {{
                let (h, rp) = ($h, $rp.clone());
                compio_runtime::spawn(async move {
                    match rp {
                        Some(p) => read_plan(h, p, $exp).await,
                        None => read_loop(h, rch, toend).await,
                    }
                })
            }};
        }
        if sc.out_held() || sc.err_held() {
            // handles left inside the `Child`: they are dropped by compio when the wait has completed
            let hw = spawn_w(stdin, payload);
            let ho = if sc.out_held() { None } else { Some(reader!(child.stdout.take().unwrap(), rpo, exp_o)) };
            let he = if sc.err_held() { None } else { Some(reader!(child.stderr.take().unwrap(), rpe, exp_e)) };
            let r = child.wait().await;
            after_wait(&mut o, pid, r);
            if let Some(w) = join!(hw, "writer") {
                o.w = w;
            }
            if let Some(ho) = ho {
                reader_result!(join!(ho, "stdout"), out, "stdout");
            }
            if let Some(he) = he {
                reader_result!(join!(he, "stderr"), err, "stderr");
            }
            o.elapsed = t0.elapsed();
            return o;
        }
        let stdout = child.stdout.take().unwrap();
        let stderr = child.stderr.take().unwrap();
        match sc.plan.as_str() {
            "conc" | "held" => {
                let hw = spawn_w(stdin, payload);
                let ho = reader!(stdout, rpo, exp_o);
                let he = reader!(stderr, rpe, exp_e);
                let r = child.wait().await;
                after_wait(&mut o, pid, r);
                if let Some(w) = join!(hw, "writer") {
                    o.w = w;
                }
                reader_result!(join!(ho, "stdout"), out, "stdout");
                reader_result!(join!(he, "stderr"), err, "stderr");
            }
            "drainwait" => {
                let hw = spawn_w(stdin, payload);
                let ho = reader!(stdout, rpo, exp_o);
                let he = reader!(stderr, rpe, exp_e);
                if let Some(w) = join!(hw, "writer") {
                    o.w = w;
                }
                reader_result!(join!(ho, "stdout"), out, "stdout");
                reader_result!(join!(he, "stderr"), err, "stderr");
                if sc.opt("reaped") {
                    // something else in the process reaps the child before compio waits for it
                    let mut raw = 0;
                    let r = unsafe { libc::waitpid(pid as i32, &mut raw, 0) };
                    if r == pid as i32 {
                        o.stolen = Some(ExitStatus::from_raw(raw));
                    } else {
                        o.errors.push("harness-waitpid".into());
                    }
                }
                let r = child.wait().await;
                after_wait(&mut o, pid, r);
            }
            "waitdrain" => {
                let hw = spawn_w(stdin, payload);
                let r = child.wait().await;
                after_wait(&mut o, pid, r);
                let ho = reader!(stdout, rpo, exp_o);
                let he = reader!(stderr, rpe, exp_e);
                if let Some(w) = join!(hw, "writer") {
                    o.w = w;
                }
                reader_result!(join!(ho, "stdout"), out, "stdout");
                reader_result!(join!(he, "stderr"), err, "stderr");
            }
            _ => {
                // seq: the writer runs to completion (and closes) before any read is issued
                let hw = spawn_w(stdin, payload);
                if let Some(w) = join!(hw, "writer") {
                    o.w = w;
                }
                let ho = reader!(stdout, rpo, exp_o);
                let he = reader!(stderr, rpe, exp_e);
                let r = child.wait().await;
                after_wait(&mut o, pid, r);
                reader_result!(join!(ho, "stdout"), out, "stdout");
                reader_result!(join!(he, "stderr"), err, "stderr");
            }
        }
    }
    o.elapsed = t0.elapsed();
    o
}

thread_local! {
    static ORACLE: std::cell::RefCell<Option<(String, Obs)>> = const { std::cell::RefCell::new(None) };
    static PIPE_ORACLE: std::cell::RefCell<Option<(String, PipeObs)>> = const { std::cell::RefCell::new(None) };
    static RTS: std::cell::RefCell<Vec<(String, Runtime)>> = const { std::cell::RefCell::new(vec![]) };
}

fn build_rt(drv: &str) -> io::Result<Runtime> {
    let mut pb = ProactorBuilder::new();
    pb.driver_type(if drv == "uring" { DriverType::IoUring } else { DriverType::Poll });
    Runtime::builder().with_proactor(pb).build()
}

fn with_rt<T>(drv: &str, f: impl FnOnce(&Runtime) -> T) -> Result<T, String> {
    RTS.with(|rts| {
        let mut rts = rts.borrow_mut();
        if !rts.iter().any(|(d, _)| d == drv) {
            let rt = build_rt(drv).map_err(|e| format!("no-driver:{:?}", e.kind()))?;
            if rt.driver_type().is_iouring() != (drv == "uring") {
                return Err("no-driver:mismatch".into());
            }
            rts.push((drv.to_string(), rt));
        }
        let rt = &rts.iter().find(|(d, _)| d == drv).unwrap().1;
        Ok(f(rt))
    })
}

static CASE_NO: AtomicU64 = AtomicU64::new(0);

fn tmp_file(tag: &str) -> String {
    let dir = std::env::temp_dir().join(format!("c20-{}", std::process::id()));
    let _ = fs::create_dir_all(&dir);
    dir.join(format!("{}-{tag}", CASE_NO.fetch_add(1, Ordering::Relaxed))).to_string_lossy().into_owned()
}

// ---------------------------------------------------------------- pipelines: `a | b` through the Stdio conversions

#[derive(Default, Debug, Clone)]
struct PipeObs {
    out: Vec<u8>,
    a_err: Vec<u8>,
    b_err: Vec<u8>,
    a: Option<ExitStatus>,
    b: Option<ExitStatus>,
    errors: Vec<String>,
    /// O_NONBLOCK was set on the descriptor handed to the second child
    nonblocking: bool,
}

fn fd_nonblocking(fd: RawFd) -> bool {
    let fl = unsafe { libc::fcntl(fd, libc::F_GETFL) };
    fl >= 0 && fl & libc::O_NONBLOCK != 0
}

/// the same pipeline under `std::process`
fn pipe_oracle(dir: &str, cmd_a: &str, cmd_b: &str) -> PipeObs {
    let mut o = PipeObs::default();
    let sh = |c: &str| {
        let mut x = std::process::Command::new("/bin/sh");
        x.arg("-c").arg(c);
        x
    };
    let r: io::Result<()> = (|| {
        let (mut a, b) = if dir == "out2in" {
            let mut a = sh(cmd_a).stdin(Stdio::null()).stdout(Stdio::piped()).stderr(Stdio::piped()).spawn()?;
            let a_out = a.stdout.take().unwrap();
            let b = sh(cmd_b).stdin(Stdio::from(a_out)).stdout(Stdio::piped()).stderr(Stdio::piped()).spawn()?;
            (a, b)
        } else {
            let mut b = sh(cmd_b).stdin(Stdio::piped()).stdout(Stdio::piped()).stderr(Stdio::piped()).spawn()?;
            let b_in = b.stdin.take().unwrap();
            let a = sh(cmd_a).stdin(Stdio::null()).stdout(Stdio::from(b_in)).stderr(Stdio::piped()).spawn()?;
            (a, b)
        };
        let a_stderr = a.stderr.take();
        let t = std::thread::spawn(move || {
            use std::io::Read;
            let mut v = vec![];
            if let Some(mut e) = a_stderr {
                let _ = e.read_to_end(&mut v);
            }
            v
        });
        let out = b.wait_with_output()?;
        o.out = out.stdout;
        o.b_err = out.stderr;
        o.b = Some(out.status);
        o.a = Some(a.wait()?);
        o.a_err = t.join().unwrap();
        Ok(())
    })();
    if let Err(e) = r {
        o.errors.push(format!("oracle:{:?}", e.kind()));
    }
    o
}

async fn pipe_compio(dir: &str, cmd_a: &str, cmd_b: &str) -> PipeObs {
    let mut o = PipeObs::default();
    let sh = |c: &str| {
        let mut x = Command::new("/bin/sh");
        x.arg("-c").arg(c);
        x
    };
    macro_rules! tri {
        ($e:expr, $what:literal) => {
            match $e {
                Ok(v) => v,
                Err(e) => {
                    o.errors.push(format!(concat!($what, ":{:?}"), e.kind()));
                    return o;
                }
            }
        };
    }
    let (mut a, b) = if dir == "out2in" {
        let mut ca = sh(cmd_a);
        ca.stdin(Stdio::null()).unwrap().stdout(Stdio::piped()).unwrap().stderr(Stdio::piped()).unwrap();
        ca.process_group(0);
        let mut a = tri!(ca.spawn(), "spawn-a");
        slot().pid.store(a.id() as i32, Ordering::SeqCst);
        let a_out = a.stdout.take().unwrap();
        let raw = a_out.as_raw_fd();
        let mut cb = sh(cmd_b);
        // `TryFrom<ChildStdout> for Stdio`
        if cb.stdin(a_out).is_err() {
            o.errors.push("convert-stdout".into());
            return o;
        }
        o.nonblocking = fd_nonblocking(raw);
        cb.stdout(Stdio::piped()).unwrap().stderr(Stdio::piped()).unwrap();
        cb.process_group(a.id() as i32);
        let b = tri!(cb.spawn(), "spawn-b");
        drop(cb);
        (a, b)
    } else {
        let mut cb = sh(cmd_b);
        cb.stdin(Stdio::piped()).unwrap().stdout(Stdio::piped()).unwrap().stderr(Stdio::piped()).unwrap();
        cb.process_group(0);
        let mut b = tri!(cb.spawn(), "spawn-b");
        slot().pid.store(b.id() as i32, Ordering::SeqCst);
        let b_in = b.stdin.take().unwrap();
        let raw = b_in.as_raw_fd();
        let mut ca = sh(cmd_a);
        ca.stdin(Stdio::null()).unwrap();
        // `TryFrom<ChildStdin> for Stdio`
        if ca.stdout(b_in).is_err() {
            o.errors.push("convert-stdin".into());
            return o;
        }
        o.nonblocking = fd_nonblocking(raw);
        ca.stderr(Stdio::piped()).unwrap();
        ca.process_group(b.id() as i32);
        let a = tri!(ca.spawn(), "spawn-a");
        drop(ca);
        (a, b)
    };
    let a_stderr = a.stderr.take().unwrap();
    let he = compio_runtime::spawn(read_loop(a_stderr, 4096, true));
    let ha = compio_runtime::spawn(async move { a.wait().await });
    match b.wait_with_output().await {
        Ok(out) => {
            bump();
            o.out = out.stdout;
            o.b_err = out.stderr;
            o.b = Some(out.status);
        }
        Err(e) => o.errors.push(format!("wait-b:{:?}", e.kind())),
    }
    match ha.await {
        Ok(Ok(st)) => o.a = Some(st),
        Ok(Err(e)) => o.errors.push(format!("wait-a:{:?}", e.kind())),
        Err(_) => o.errors.push("task-panic:wait-a".into()),
    }
    match he.await {
        Ok((bytes, e)) => {
            o.a_err = bytes;
            if let Some(e) = e {
                o.errors.push(format!("stderr-a:{e}"));
            }
        }
        Err(_) => o.errors.push("task-panic:stderr-a".into()),
    }
    o
}

/// `pipe <drv> <out2in|in2out> <scriptA> <scriptB> <opts>`: child A's stdout is child B's stdin; the
/// connecting descriptor goes through compio's `TryFrom<ChildStdout | ChildStdin> for Stdio`
fn exec_pipe_line(line: &str, ex: &mut Exec) -> String {
    let w: Vec<&str> = line.split_whitespace().collect();
    if w.len() != 6 || !["uring", "poll"].contains(&w[1]) || !["out2in", "in2out"].contains(&w[2]) {
        return "bad-op".into();
    }
    let parse = |t: &str| if t == "-" { Some(vec![]) } else { t.split(';').map(parse_act).collect::<Option<Vec<_>>>() };
    let (Some(sa), Some(sb)) = (parse(w[3]), parse(w[4])) else { return "bad-op".into() };
    if sa.iter().chain(&sb).any(|a| matches!(a, Act::Copy { blk: 0, .. })) {
        return "bad-op".into();
    }
    let (drv, dir) = (w[1], w[2]);
    let (cmd_a, cmd_b) = (compile(&sa), compile(&sb));
    let nops = sa.iter().chain(&sb).filter(|a| **a == Act::Nop).count() as u64;
    slot().t0_ms.store(now_ms(), Ordering::SeqCst);
    let okey = format!("pipe|{dir}|{cmd_a}|{cmd_b}");
    let cached = PIPE_ORACLE.with(|m| m.borrow().as_ref().filter(|(k, _)| *k == okey).map(|(_, o)| o.clone()));
    let orc = match cached {
        Some(o) => o,
        None => {
            let o = pipe_oracle(dir, &cmd_a, &cmd_b);
            PIPE_ORACLE.with(|m| *m.borrow_mut() = Some((okey, o.clone())));
            o
        }
    };
    slot().deadlock.store(false, Ordering::SeqCst);
    slot().thresh_ms.store(12000 + 3 * NOP_MS * nops, Ordering::Relaxed);
    let r = with_rt(drv, |rt| rt.block_on(pipe_compio(dir, &cmd_a, &cmd_b)));
    slot().pid.store(0, Ordering::SeqCst);
    slot().t0_ms.store(0, Ordering::SeqCst);
    let o = match r {
        Ok(o) => o,
        Err(e) => return e,
    };
    let deadlock = slot().deadlock.swap(false, Ordering::SeqCst);
    ex.tag(format!("drv:{drv}"));
    ex.tag(format!("pipeline:{dir}"));
    ex.tag(if o.out.len() > 65536 { "pipeline:>64KiB" } else { "pipeline:<=64KiB" });
    ex.nontrivial = true;
    let st = |s: &Option<ExitStatus>| s.as_ref().map(show_status).unwrap_or("none".into());
    let lossy = |b: &[u8]| String::from_utf8_lossy(&b[..b.len().min(200)]).into_owned();
    if !orc.errors.is_empty() {
        ex.fail("C20:harness-oracle", format!("{line}: {:?}", orc.errors));
    }
    if o.nonblocking {
        ex.fail("C20:nonblocking-fd-inherited", format!("{line}: the descriptor converted into Stdio for the second child has O_NONBLOCK set"));
    }
    if deadlock {
        ex.fail("C20:deadlock", format!("{line}: pipeline made no progress; std::process finished with a={} b={}", st(&orc.a), st(&orc.b)));
        return "deadlock".into();
    }
    if !o.errors.is_empty() {
        ex.fail("C20:io-error", format!("{line}: {:?}", o.errors));
        return format!("error:{}", o.errors.join("|"));
    }
    if o.out != orc.out {
        ex.fail(
            "C20:pipeline-truncated",
            format!("{line}: {} arrived, std::process pipeline delivers {}; stderr a={:?} b={:?}", show_bytes(&o.out), show_bytes(&orc.out), lossy(&o.a_err), lossy(&o.b_err)),
        );
    }
    if o.a != orc.a || o.b != orc.b || o.a_err != orc.a_err || o.b_err != orc.b_err {
        ex.fail(
            "C20:pipeline-child-failed",
            format!("{line}: a={} b={} (std::process: a={} b={}); stderr a={:?} b={:?}", st(&o.a), st(&o.b), st(&orc.a), st(&orc.b), lossy(&o.a_err), lossy(&o.b_err)),
        );
    }
    format!("ok out={} a={} b={}", show_bytes(&o.out), st(&o.a), st(&o.b))
}

// ---------------------------------------------------------------- managed (buffer pool) reads, reused builders

/// default pool of the runtime: 8 buffers (compio-driver ProactorBuilder::new)
const POOL: usize = 8;

fn parse_script(t: &str) -> Option<Vec<Act>> {
    let v = if t == "-" { Some(vec![]) } else { t.split(';').map(parse_act).collect::<Option<Vec<_>>>() }?;
    if v.iter().any(|a| matches!(a, Act::Copy { blk: 0, .. })) { None } else { Some(v) }
}

#[derive(Default, Debug)]
struct MObs {
    out: Vec<u8>,
    st: Option<ExitStatus>,
    errors: Vec<String>,
    busy: u32,
    reads: u32,
    /// bytes collected when the first ResourceBusy was seen
    max_held: usize,
}

async fn mread_compio(stream: char, hold: usize, len: usize, cmd: &str) -> MObs {
    use compio_io::AsyncReadManaged;
    let mut o = MObs::default();
    let mut c = Command::new("/bin/sh");
    c.arg("-c").arg(cmd);
    c.stdin(Stdio::null()).unwrap();
    if stream == 'o' {
        c.stdout(Stdio::piped()).unwrap().stderr(Stdio::null()).unwrap();
    } else {
        c.stdout(Stdio::null()).unwrap().stderr(Stdio::piped()).unwrap();
    }
    c.process_group(0);
    let mut child = match c.spawn() {
        Ok(c) => c,
        Err(e) => {
            o.errors.push(format!("spawn:{:?}", e.kind()));
            return o;
        }
    };
    slot().pid.store(child.id() as i32, Ordering::SeqCst);
    macro_rules! reader {
        ($h:expr) => {{
            let mut h = $h;
            let mut held = std::collections::VecDeque::new();
            loop {
                match h.read_managed(len).await {
                    Ok(Some(buf)) => {
                        bump();
                        o.reads += 1;
                        if buf.len() == 0 || buf.len() > len {
                            o.errors.push(format!("managed-count:{}/{len}", buf.len()));
                            break;
                        }
                        held.push_back(buf);
                        o.max_held = o.max_held.max(held.len());
                        while held.len() > hold {
                            let b = held.pop_front().unwrap();
                            o.out.extend_from_slice(&b);
                        }
                    }
                    // the real end of file
                    Ok(None) => break,
                    Err(e) if e.kind() == io::ErrorKind::ResourceBusy => {
                        bump();
                        o.busy += 1;
                        if held.is_empty() {
                            o.errors.push("busy-nothing-held".into());
                            break;
                        }
                        // consume the batch: the buffers go back to the pool; retry
                        for b in held.drain(..) {
                            o.out.extend_from_slice(&b);
                        }
                    }
                    Err(e) if e.kind() == io::ErrorKind::Interrupted => {}
                    Err(e) => {
                        o.errors.push(format!("read_managed:{:?}", e.kind()));
                        break;
                    }
                }
            }
            for b in held.drain(..) {
                o.out.extend_from_slice(&b);
            }
        }};
    }
    if stream == 'o' {
        reader!(child.stdout.take().unwrap());
    } else {
        reader!(child.stderr.take().unwrap());
    }
    match child.wait().await {
        Ok(st) => o.st = Some(st),
        Err(e) => o.errors.push(format!("wait:{:?}", e.kind())),
    }
    o
}

/// `mread <drv> <o|e> <hold> <len> <script> <opts>`: the child (stdin null) runs `script`; the parent reads the
/// stream through `read_managed(len)` keeping up to `hold` pool buffers (>= POOL: all of them, until the pool
/// reports exhaustion), collects until the real end of file, waits.
fn exec_mread_line(line: &str, ex: &mut Exec) -> String {
    let w: Vec<&str> = line.split_whitespace().collect();
    if w.len() != 7 || !["uring", "poll"].contains(&w[1]) || !["o", "e"].contains(&w[2]) {
        return "bad-op".into();
    }
    let (Ok(hold), Ok(len), Some(script)) = (w[3].parse::<usize>(), w[4].parse::<usize>(), parse_script(w[5])) else { return "bad-op".into() };
    if len == 0 || len > 8192 || script.iter().any(|a| matches!(a, Act::Copy { .. })) {
        return "bad-op".into();
    }
    let (drv, stream) = (w[1], w[2].chars().next().unwrap());
    let cmd = compile(&script);
    let nops = script.iter().filter(|a| **a == Act::Nop).count() as u64;
    let orc = std::process::Command::new("/bin/sh").arg("-c").arg(&cmd).stdin(Stdio::null()).output();
    slot().t0_ms.store(now_ms(), Ordering::SeqCst);
    slot().deadlock.store(false, Ordering::SeqCst);
    slot().thresh_ms.store(12000 + 3 * NOP_MS * nops, Ordering::Relaxed);
    let r = with_rt(drv, |rt| rt.block_on(mread_compio(stream, hold, len, &cmd)));
    slot().pid.store(0, Ordering::SeqCst);
    slot().t0_ms.store(0, Ordering::SeqCst);
    let o = match r {
        Ok(o) => o,
        Err(e) => return e,
    };
    let deadlock = slot().deadlock.swap(false, Ordering::SeqCst);
    ex.tag(format!("drv:{drv}"));
    ex.tag(format!("mread:hold{}", if hold >= POOL { "=all".to_string() } else { format!("={hold}") }));
    ex.tag(if o.busy > 0 { "mread:pool-exhausted" } else { "mread:pool-not-exhausted" });
    ex.nontrivial = o.reads > 1;
    let orc = match orc {
        Ok(x) => x,
        Err(e) => {
            ex.fail("C20:harness-oracle", format!("{line}: {:?}", e.kind()));
            return "error:oracle".into();
        }
    };
    if deadlock {
        ex.fail("C20:deadlock", format!("{line}: managed reader made no progress"));
        return "deadlock".into();
    }
    let want = if stream == 'o' { &orc.stdout } else { &orc.stderr };
    // monitor (implementation only): bytes collected until the real end of file == bytes the child wrote
    if o.out != *want {
        ex.fail(
            "C20:managed-read-incomplete",
            format!(
                "{line}: read_managed collected {} until Ok(None), the child wrote {} (std::process); reads={} pool-exhausted={} times, max held={} errors={:?}",
                show_bytes(&o.out), show_bytes(want), o.reads, o.busy, o.max_held, o.errors
            ),
        );
    }
    if !o.errors.is_empty() {
        ex.fail("C20:io-error", format!("{line}: {:?}", o.errors));
        return format!("error:{}", o.errors.join("|"));
    }
    if hold >= POOL && o.reads as usize > POOL && o.busy == 0 {
        ex.fail("C20:managed-pool-never-busy", format!("{line}: {} buffers handed out with none given back (pool of {POOL}), no ResourceBusy", o.reads));
    }
    if o.st.as_ref().map(show_status) != Some(show_status(&orc.status)) {
        ex.fail("C20:status-differs", format!("{line}: {:?} vs std {:?}", o.st, orc.status));
    }
    format!("ok out={} st={}", show_bytes(&o.out), o.st.as_ref().map(show_status).unwrap_or("none".into()))
}

#[derive(Debug, PartialEq, Clone)]
struct CallObs {
    kind: String,
    out: Option<Vec<u8>>,
    err: Option<Vec<u8>>,
    st: String,
}

fn stdio_of(t: &str) -> Option<Stdio> {
    match t {
        "p" => Some(Stdio::piped()),
        "n" => Some(Stdio::null()),
        _ => None,
    }
}

/// the sequence on ONE `std::process::Command`
fn reuse_oracle(seq: &[&str], cmd: &str) -> Result<Vec<CallObs>, String> {
    use std::io::Read;
    let mut c = std::process::Command::new("/bin/sh");
    c.arg("-c").arg(cmd);
    let mut res = vec![];
    for t in seq {
        let e = |e: io::Error| format!("oracle-{t}:{:?}", e.kind());
        match *t {
            "status" => {
                let mut ch = c.spawn().map_err(e)?;
                drop(ch.stdin.take());
                // like compio's `status`: the handles live until the wait is over
                let st = ch.wait().map_err(e)?;
                res.push(CallObs { kind: "status".into(), out: None, err: None, st: show_status(&st) });
            }
            "output" | "spawn" => {
                let mut ch = c.spawn().map_err(e)?;
                drop(ch.stdin.take());
                let (so, se) = (ch.stdout.take(), ch.stderr.take());
                let th = std::thread::spawn(move || se.map(|mut s| { let mut v = vec![]; let _ = s.read_to_end(&mut v); v }));
                let out = so.map(|mut s| { let mut v = vec![]; let _ = s.read_to_end(&mut v); v });
                let err = th.join().unwrap();
                let st = ch.wait().map_err(e)?;
                let (out, err) = if *t == "output" { (Some(out.unwrap_or_default()), Some(err.unwrap_or_default())) } else { (out, err) };
                res.push(CallObs { kind: t.to_string(), out, err, st: show_status(&st) });
            }
            _ => {
                let (s, v) = t.split_once('=').ok_or("bad-token")?;
                let sd = stdio_of(v).ok_or("bad-token")?;
                match s {
                    "si" => c.stdin(sd),
                    "so" => c.stdout(sd),
                    "se" => c.stderr(sd),
                    _ => return Err("bad-token".into()),
                };
            }
        }
    }
    Ok(res)
}

/// the sequence on ONE `compio_process::Command`
async fn reuse_compio(seq: &[&str], cmd: &str) -> Result<Vec<CallObs>, String> {
    let mut c = Command::new("/bin/sh");
    c.arg("-c").arg(cmd);
    let mut res = vec![];
    for t in seq {
        let e = |e: io::Error| format!("{t}:{:?}", e.kind());
        match *t {
            "status" => {
                let st = c.status().await.map_err(e)?;
                bump();
                res.push(CallObs { kind: "status".into(), out: None, err: None, st: show_status(&st) });
            }
            "output" => {
                let o = c.output().await.map_err(e)?;
                bump();
                res.push(CallObs { kind: "output".into(), out: Some(o.stdout), err: Some(o.stderr), st: show_status(&o.status) });
            }
            "spawn" => {
                let mut ch = c.spawn().map_err(e)?;
                drop(ch.stdin.take());
                let (so, se) = (ch.stdout.take(), ch.stderr.take());
                let he = se.map(|s| compio_runtime::spawn(read_loop(s, 4096, true)));
                let out = match so {
                    Some(s) => Some(read_loop(s, 4096, false).await),
                    None => None,
                };
                let err = match he {
                    Some(h) => Some(h.await.map_err(|_| "task-panic".to_string())?),
                    None => None,
                };
                let st = ch.wait().await.map_err(e)?;
                for (_, er) in out.iter().chain(err.iter()) {
                    if let Some(er) = er {
                        return Err(format!("read:{er}"));
                    }
                }
                res.push(CallObs { kind: "spawn".into(), out: out.map(|x| x.0), err: err.map(|x| x.0), st: show_status(&st) });
            }
            _ => {
                let (s, v) = t.split_once('=').ok_or("bad-token")?;
                let sd = stdio_of(v).ok_or("bad-token")?;
                match s {
                    "si" => c.stdin(sd).map(|_| ()),
                    "so" => c.stdout(sd).map(|_| ()),
                    "se" => c.stderr(sd).map(|_| ()),
                    _ => return Err("bad-token".into()),
                }
                .map_err(|_| "convert".to_string())?;
            }
        }
    }
    Ok(res)
}

/// `reuse <drv> <seq> <script> <opts>`: `seq` = `.`-separated calls on ONE Command: `si=`/`so=`/`se=` + `p` (piped) | `n`
/// (null), `status`, `output`, `spawn` (take what is there, read to the end, wait). All three streams must be configured
/// before the first run (nothing is inherited from the harness); the child never reads stdin; outputs fit a pipe.
fn exec_reuse_line(line: &str, ex: &mut Exec) -> String {
    let w: Vec<&str> = line.split_whitespace().collect();
    if w.len() != 5 || !["uring", "poll"].contains(&w[1]) {
        return "bad-op".into();
    }
    let seq: Vec<&str> = w[2].split('.').collect();
    let Some(script) = parse_script(w[3]) else { return "bad-op".into() };
    let mut set = [false; 3];
    for t in &seq {
        match *t {
            "status" | "output" | "spawn" => {
                if set != [true; 3] {
                    return "bad-op".into();
                }
            }
            _ => match t.split_once('=') {
                Some((s, v)) if ["p", "n"].contains(&v) => match s {
                    "si" => set[0] = true,
                    "so" => set[1] = true,
                    "se" => set[2] = true,
                    _ => return "bad-op".into(),
                },
                _ => return "bad-op".into(),
            },
        }
    }
    if script.iter().any(|a| matches!(a, Act::Copy { .. })) || total_emit(&script) > 3000 {
        return "bad-op".into();
    }
    let drv = w[1];
    let cmd = compile(&script);
    let orc = reuse_oracle(&seq, &cmd);
    slot().t0_ms.store(now_ms(), Ordering::SeqCst);
    let r = with_rt(drv, |rt| rt.block_on(reuse_compio(&seq, &cmd)));
    slot().t0_ms.store(0, Ordering::SeqCst);
    let o = match r {
        Ok(o) => o,
        Err(e) => return e,
    };
    ex.tag(format!("drv:{drv}"));
    let runs = seq.iter().filter(|t| ["status", "output", "spawn"].contains(t)).count();
    ex.tag(format!("reuse:runs={runs}"));
    ex.nontrivial = runs >= 2;
    let orc = match orc {
        Ok(x) => x,
        Err(e) => {
            ex.fail("C20:harness-oracle", format!("{line}: {e}"));
            return "error:oracle".into();
        }
    };
    let o = match o {
        Ok(o) => o,
        Err(e) => {
            ex.fail("C20:io-error", format!("{line}: {e}"));
            return format!("error:{e}");
        }
    };
    let sh = |b: &Option<Vec<u8>>| b.as_ref().map(|b| show_bytes(b)).unwrap_or("-".into());
    for (i, (a, b)) in o.iter().zip(&orc).enumerate() {
        // monitor (implementation only): what call i captured == what the same call on a std Command captures
        if a.out != b.out || a.err != b.err {
            ex.fail(
                "C20:reused-command-output-lost",
                format!("{line}: run {i} ({}) captured out={} err={}, the same sequence on std::process::Command: out={} err={}", a.kind, sh(&a.out), sh(&a.err), sh(&b.out), sh(&b.err)),
            );
        }
        if a.st != b.st {
            ex.fail("C20:status-differs", format!("{line}: run {i} ({}) st={} std: {}", a.kind, a.st, b.st));
        }
    }
    let mut parts = vec!["ok".to_string()];
    for a in &o {
        parts.push(if a.kind == "status" { format!("[status st={}]", a.st) } else { format!("[{} out={} err={} st={}]", a.kind, sh(&a.out), sh(&a.err), a.st) });
    }
    parts.join(" ")
}

fn exec_line(line: &str, ex: &mut Exec) -> String {
    if line.starts_with("mread ") {
        return exec_mread_line(line, ex);
    }
    if line.starts_with("reuse ") {
        return exec_reuse_line(line, ex);
    }
    if line.starts_with("pipe ") {
        return exec_pipe_line(line, ex);
    }
    let Some(sc) = parse_line(line) else { return "bad-op".into() };
    let cmd = compile(&sc.script);
    let payload = if sc.stdin_null { vec![] } else { payload_of(sc.paylen, sc.payseed) };
    let nops = sc.script.iter().filter(|a| **a == Act::Nop).count() as u64;

    slot().t0_ms.store(now_ms(), Ordering::SeqCst);
    {
        let mut l = LINES.lock().unwrap();
        let i = MY_SLOT.with(|s| s.get());
        if l.len() <= WORKERS {
            l.resize(WORKERS + 1, String::new());
        }
        l[i] = line.to_string();
    }
    // the std::process run does not depend on the driver: shared between the scenarios of a pair
    let okey = format!(
        "{cmd}|{}|{}|{}|{}|{}|{}|{}|{}",
        sc.paylen, sc.payseed, sc.capin, sc.capout, sc.caperr, sc.stdin_null, if sc.plan.ends_with("held") { sc.plan.as_str() } else { "" }, sc.route == "pidfd"
    );
    let cached = ORACLE.with(|m| m.borrow().as_ref().filter(|(k, _)| *k == okey).map(|(_, o)| o.clone()));
    let orc = match cached {
        Some(o) => o,
        None => {
            let of = tmp_file("o");
            let o = oracle(&sc, &cmd, &payload, &of);
            ORACLE.with(|m| *m.borrow_mut() = Some((okey, o.clone())));
            o
        }
    };

    let cf = tmp_file("c");
    slot().deadlock.store(false, Ordering::SeqCst);
    // `dl`: the scenario was built to deadlock (or may, mode loose): decide after a short silence.
    // Otherwise a deadlock is a failure anyway: wait long enough to rule out a slow machine.
    let base_ms: u64 = std::env::var("C20_THRESH").ok().and_then(|x| x.parse().ok()).unwrap_or(if sc.opt("dl") { 1500 } else { 12000 });
    slot().thresh_ms.store(base_ms + 3 * NOP_MS * nops, Ordering::Relaxed);
    let r = with_rt(&sc.drv, |rt| rt.block_on(run_compio(&sc, &cmd, payload.clone(), &cf, (orc.out.len(), orc.err.len()))));
    slot().pid.store(0, Ordering::SeqCst);
    slot().t0_ms.store(0, Ordering::SeqCst);
    let mut o = match r {
        Ok(o) => o,
        Err(e) => return e,
    };
    o.deadlock = slot().deadlock.swap(false, Ordering::SeqCst);
    o.sunk = read_sunk(&cf);

    ex.tag(format!("drv:{}", sc.drv));
    ex.tag(format!("route:{}", sc.route));
    ex.tag(format!("plan:{}{}", sc.plan, if sc.opt("wwo") { "+wait_with_output" } else { "" }));
    ex.tag(format!("mode:{}", sc.mode));
    ex.tag(format!("cap:{}", sc.capout));
    ex.tag(format!("wch:{} rch:{}", sc.wch, if sc.opt("toend") { "read_to_end".to_string() } else { sc.rch.to_string() }));
    ex.tag(match payload.len() as u64 {
        0 => "payload:0",
        n if n < sc.capin => "payload:<cap",
        n if n <= sc.capin + sc.capout => "payload:cap..2cap",
        _ => "payload:>2cap",
    });
    for a in &sc.script {
        ex.tag(match a {
            Act::Copy { lim: None, dst: 'n', .. } => "child:sink",
            Act::Copy { lim: None, .. } => "child:echo-all",
            Act::Copy { lim: Some(_), .. } => "child:echo-limit",
            Act::Emit { dst: 'o', .. } => "child:emit-stdout",
            Act::Emit { .. } => "child:emit-stderr",
            Act::Nop => "child:sleep",
            Act::Exit(0) => "child:exit0",
            Act::Exit(_) => "child:exit-nonzero",
            Act::Kill(_) => "child:signal",
        });
    }

    if sc.route != "pidfd" && (o.capout != sc.capout as i64 || o.caperr != sc.caperr as i64 || (!sc.stdin_null && o.capin != sc.capin as i64)) {
        ex.fail("C20:harness-pipe-size", format!("{line}: pipe sizes {} {} {}", o.capin, o.capout, o.caperr));
    }
    if !orc.errors.is_empty() {
        ex.fail("C20:harness-oracle", format!("{line}: {:?}", orc.errors));
    }

    // ---- monitors (implementation only: std::process run of the same command, the command itself, the clock)
    let held_stream = sc.out_held() || sc.err_held();
    if held_stream && o.deadlock != orc.deadlock {
        // a handle left inside the `Child`: compio must behave like std::process under the same plan
        ex.fail(
            "C20:status-differs",
            format!(
                "{line}: compio {} (status {:?}), std::process {} (status {:?})",
                if o.deadlock { "never returns" } else { "returns" },
                o.status.as_ref().map(show_status),
                if orc.deadlock { "never returns" } else { "returns" },
                orc.status.as_ref().map(show_status)
            ),
        );
    }
    if o.deadlock {
        ex.tag("outcome:deadlock");
        let by_design = sc.plan == "seq" || sc.plan == "waitdrain" || held_stream;
        if !by_design {
            // the threads of the oracle finished the same job with both directions active
            let sig = if sc.plan == "held" {
                "F201:wait-keeps-stdin-open"
            } else if sc.drv == "poll" && !sc.stdin_null && !payload.is_empty() {
                "F200:poll-write-blocks-runtime"
            } else {
                "C20:deadlock"
            };
            ex.fail(sig, format!("{line}: no progress, parent and child asleep; std::process finished with {:?}", orc.status.as_ref().map(show_status)));
        }
    } else {
        ex.tag("outcome:completed");
        if !o.errors.is_empty() {
            ex.fail("C20:io-error", format!("{line}: {:?}", o.errors));
        }
        if o.out != orc.out {
            ex.fail("C20:stdout-incomplete", format!("{line}: read {} oracle {}", show_bytes(&o.out), show_bytes(&orc.out)));
        }
        if o.err != orc.err {
            ex.fail("C20:stderr-incomplete", format!("{line}: read {} oracle {}", show_bytes(&o.err), show_bytes(&orc.err)));
        }
        // what the command must produce, known without running anything
        if sc.script.first() == Some(&Act::Copy { lim: None, blk: CAT_BLK, dst: 'o' }) && o.out[..payload.len().min(o.out.len())] != payload[..] {
            ex.fail("C20:echo-mismatch", format!("{line}: echoed {} sent {}", show_bytes(&o.out), show_bytes(&payload)));
        }
        if sc.script.first() == Some(&Act::Copy { lim: None, blk: WC_BLK, dst: 'n' }) && o.sunk != payload.len() as u64 {
            ex.fail("C20:stdin-incomplete", format!("{line}: child counted {} of {}", o.sunk, payload.len()));
        }
        if o.sunk != orc.sunk {
            ex.fail("C20:stdin-incomplete", format!("{line}: child counted {} oracle {}", o.sunk, orc.sunk));
        }
        if sc.mode == "exact" && o.w != orc.w {
            ex.fail("C20:writer-result", format!("{line}: {} oracle {}", o.w, orc.w));
        }
        if sc.opt("reaped") {
            // the status is gone: an error is the only honest answer, a status the child never had is not
            if o.stolen != orc.status {
                ex.fail("C20:status", format!("{line}: reaped {:?} oracle {:?}", o.stolen, orc.status));
            }
            if let Some(st) = &o.status {
                if Some(*st) != o.stolen {
                    ex.fail("C20:status-fabricated", format!("{line}: the child ended with {:?} and was reaped elsewhere, wait reports {:?}", o.stolen.as_ref().map(show_status), show_status(st)));
                }
            }
        } else {
            match (&o.status, &orc.status) {
                (Some(a), Some(b)) if a == b => {}
                _ if held_stream && orc.deadlock => {}
                (a, b) => ex.fail(if held_stream { "C20:status-differs" } else { "C20:status" }, format!("{line}: {:?} oracle {:?}", a, b)),
            }
        }
        if o.alive_after_wait {
            ex.fail("C20:wait-early", format!("{line}: the child still exists after wait returned"));
        }
        if o.elapsed < Duration::from_millis(NOP_MS * nops) {
            ex.fail("C20:wait-early", format!("{line}: returned after {:?}, the child sleeps {} ms", o.elapsed, NOP_MS * nops));
        }
    }
    if !payload.is_empty() || !o.out.is_empty() || !o.err.is_empty() || o.status.map(|s| !s.success()).unwrap_or(false) || o.deadlock {
        ex.nontrivial = true;
    }

    if sc.mode == "loose" {
        return "loose".into();
    }
    if o.deadlock {
        return "deadlock".into();
    }
    if !o.errors.is_empty() {
        return format!("error:{}", o.errors.join("|"));
    }
    format!(
        "ok out={} err={} sunk={} w={} st={}",
        if sc.out_held() { "-".to_string() } else { show_bytes(&o.out) },
        if sc.err_held() { "-".to_string() } else { show_bytes(&o.err) },
        o.sunk,
        o.w,
        if o.lost { "lost".to_string() } else { o.status.as_ref().map(show_status).unwrap_or("none".into()) }
    )
}

fn exec_case(case: &Case) -> Exec {
    let mut ex = Exec::new();
    for l in &case.lines {
        let t0 = Instant::now();
        // a panic of compio inside `block_on` must not take the worker thread down
        let out = match hx_common::catch(|| exec_line(l, &mut ex)) {
            Ok(o) => o,
            Err(msg) => {
                let pid = slot().pid.swap(0, Ordering::SeqCst);
                if pid != 0 {
                    unsafe { libc::kill(-pid, libc::SIGKILL) };
                }
                slot().t0_ms.store(0, Ordering::SeqCst);
                RTS.with(|r| {
                    // the runtime was unwound through: do not reuse it (and do not run its destructor twice)
                    for rt in r.borrow_mut().drain(..) {
                        std::mem::forget(rt);
                    }
                });
                ex.fail("C20:panic", format!("{l}: {msg}"));
                "panic".to_string()
            }
        };
        if std::env::var("C20_TIMES").is_ok() {
            eprintln!("{:>6} ms  {}", t0.elapsed().as_millis(), l);
        }
        ex.out.push(out);
    }
    ex
}

// ---------------------------------------------------------------- parallel execution of the generated cases

type Results = (std::sync::Mutex<std::collections::HashMap<String, Option<Exec>>>, std::sync::Condvar);
static RESULTS: std::sync::OnceLock<Results> = std::sync::OnceLock::new();

fn results() -> &'static Results {
    RESULTS.get_or_init(|| (std::sync::Mutex::new(std::collections::HashMap::new()), std::sync::Condvar::new()))
}

/// Start worker threads on the generated cases. Consecutive cases that differ only in the driver stay on
/// one worker (they share the oracle run). Corpus and replay cases run on the main thread.
fn prefetch(cases: &[Case]) {
    let drop_drv = |c: &Case| c.lines.iter().map(|l| l.replacen("run uring", "run", 1).replacen("run poll", "run", 1).replacen("pipe uring", "pipe", 1).replacen("pipe poll", "pipe", 1).replacen("mread uring", "mread", 1).replacen("mread poll", "mread", 1).replacen("reuse uring", "reuse", 1).replacen("reuse poll", "reuse", 1)).collect::<Vec<_>>();
    let mut units: Vec<Vec<Case>> = vec![];
    for c in cases {
        match units.last_mut() {
            Some(u) if u.len() == 1 && drop_drv(&u[0]) == drop_drv(c) => u.push(c.clone()),
            _ => units.push(vec![c.clone()]),
        }
    }
    {
        let mut m = results().0.lock().unwrap();
        for c in cases {
            m.insert(c.name.clone(), None);
        }
    }
    let units = std::sync::Arc::new(units);
    let next = std::sync::Arc::new(std::sync::atomic::AtomicUsize::new(0));
    for w in 1..=WORKERS {
        let (units, next) = (units.clone(), next.clone());
        std::thread::spawn(move || {
            enter_slot(w);
            loop {
                let i = next.fetch_add(1, Ordering::SeqCst);
                let Some(u) = units.get(i) else { break };
                for c in u {
                    let ex = exec_case(c);
                    let (m, cv) = results();
                    m.lock().unwrap().insert(c.name.clone(), Some(ex));
                    cv.notify_all();
                }
            }
        });
    }
}

fn exec(case: &Case) -> Exec {
    let (m, cv) = results();
    let mut g = m.lock().unwrap();
    if !g.contains_key(&case.name) {
        drop(g);
        return exec_case(case);
    }
    loop {
        if let Some(Some(_)) = g.get(&case.name) {
            return g.remove(&case.name).unwrap().unwrap();
        }
        g = cv.wait(g).unwrap();
    }
}

// ---------------------------------------------------------------- generator

fn base(drv: &str, cap: u64) -> Scn {
    Scn {
        drv: drv.into(),
        route: "pool".into(),
        capin: cap,
        capout: cap,
        caperr: cap,
        plan: "conc".into(),
        wch: 4096,
        rch: 4096,
        stdin_null: false,
        paylen: 0,
        payseed: 1,
        mode: "exact".into(),
        script: vec![],
        opts: vec![],
    }
}

fn cat(dst: char) -> Act {
    Act::Copy { lim: None, blk: CAT_BLK, dst }
}

fn dd(blk: u64, dst: char) -> Act {
    Act::Copy { lim: None, blk, dst }
}

fn sink() -> Act {
    Act::Copy { lim: None, blk: WC_BLK, dst: 'n' }
}

fn head(n: u64, dst: char) -> Act {
    Act::Copy { lim: Some(n), blk: HEAD_BLK, dst }
}

const CHUNKS: [usize; 4] = [1, 7, 4096, 65537];
const CODES: [u32; 6] = [0, 1, 2, 3, 127, 255];
const SIGS: [u32; 5] = [9, 15, 1, 2, 10];

/// keep the model driver's cost bounded: tiny chunks only with small payloads
fn clamp_chunks(sc: &mut Scn) {
    if sc.mode == "loose" {
        return;
    }
    let n = sc.paylen.max(total_emit(&sc.script) as usize);
    if n > 4200 {
        if sc.wch == 1 {
            sc.wch = 4096;
        }
        if sc.rch == 1 {
            sc.rch = 4096;
        }
    }
    if n > 17000 {
        if sc.wch == 7 {
            sc.wch = 65537;
        }
        if sc.rch == 7 {
            sc.rch = 65537;
        }
    }
}

fn total_emit(s: &[Act]) -> u64 {
    s.iter().map(|a| if let Act::Emit { n, .. } = a { *n } else { 0 }).sum()
}

/// (bytes to stdout, bytes to stderr, bytes consumed) of a script on a payload of `paylen` bytes
fn totals(script: &[Act], paylen: u64) -> (u64, u64, u64) {
    let (mut o, mut e, mut rest) = (0u64, 0u64, paylen);
    for a in script {
        match a {
            Act::Copy { lim, dst, .. } => {
                let n = lim.map(|n| n.min(rest)).unwrap_or(rest);
                rest -= n;
                match dst {
                    'o' => o += n,
                    'e' => e += n,
                    _ => {}
                }
            }
            Act::Emit { dst: 'o', n, .. } => o += n,
            Act::Emit { dst: 'e', n, .. } => e += n,
            Act::Exit(_) | Act::Kill(_) => break,
            _ => {}
        }
    }
    (o, e, paylen - rest)
}

/// On the polling driver a `write` occupies the runtime thread until the whole chunk is in the pipe.
/// The outcome is determined (Props: `blocking_*`) when no write can block (payload fits into the
/// stdin pipe), or the child can never block on its outputs (they fit into their pipes), or the child
/// is a plain echo and everything fits into the two pipes. Otherwise the case is judged by the
/// monitors only (`loose`). Margins: a pipe holds fewer bytes than its nominal size when the writes
/// are not page sized.
fn poll_mode(sc: &mut Scn) {
    if sc.drv != "poll" || sc.stdin_null || sc.opt("sure") {
        return;
    }
    let (o, e, _) = totals(&sc.script, sc.paylen as u64);
    let pay = sc.paylen as u64;
    let fits_in = pay <= sc.capin * 3 / 4;
    let outs_fit = o <= sc.capout * 3 / 4 && e <= sc.caperr * 3 / 4;
    let plain_echo = match sc.script.as_slice() {
        [Act::Copy { lim: None, dst, .. }, Act::Exit(_)] => {
            pay <= (sc.capin + if *dst == 'o' { sc.capout } else { sc.caperr }) * 3 / 4 || *dst == 'n'
        }
        _ => false,
    };
    if !(fits_in || outs_fit || plain_echo) {
        sc.mode = "loose".into();
    }
}

fn push(cases: &mut Vec<Case>, name: &str, mut sc: Scn) {
    clamp_chunks(&mut sc);
    poll_mode(&mut sc);
    if (sc.mode == "loose" && sc.drv == "poll" || sc.opt("sure") || name == "order-deadlock") && !sc.opt("dl") {
        sc.opts.push("dl".into());
    }
    let n = cases.len();
    cases.push(Case { name: format!("{name}-{n}"), lines: vec![sc.line()] });
}

/// the same scenario on both drivers (the oracle run is shared)
fn push2(cases: &mut Vec<Case>, name: &str, sc: Scn) {
    for drv in ["uring", "poll"] {
        let mut sc = sc.clone();
        sc.drv = drv.into();
        push(cases, name, sc);
    }
}

fn payload_sizes(cap: u64) -> Vec<usize> {
    let c = cap as usize;
    vec![0, 1, c - 1, c, c + 1, 2 * c + 3, 4 * c]
}

fn generate(tier: &str, rng: &mut Rng) -> Vec<Case> {
    let thorough = tier == "thorough";
    let reps = |quick: u64, thorough_n: u64| if thorough { thorough_n } else { quick };
    let mut cases = vec![];
    let small = 4096u64;
    let dflt = 65536u64;

    // A. echo through `cat`: both directions active at once, payloads around and above the capacity
    for cap in [small, dflt] {
        for (i, pay) in payload_sizes(cap).into_iter().enumerate() {
            let pairs: Vec<(usize, usize)> = if thorough {
                CHUNKS.iter().flat_map(|w| CHUNKS.iter().map(move |r| (*w, *r))).collect()
            } else if cap == small {
                (0..2).map(|_| (*rng.pick(&CHUNKS), *rng.pick(&CHUNKS))).collect()
            } else {
                vec![(*rng.pick(&CHUNKS), *rng.pick(&CHUNKS))]
            };
            for (wch, rch) in pairs {
                let mut sc = base("uring", cap);
                sc.paylen = pay;
                sc.payseed = rng.below(1000);
                sc.wch = wch;
                sc.rch = rch;
                sc.script = vec![if i % 3 == 2 { cat('e') } else { cat('o') }, Act::Exit(*rng.pick(&CODES))];
                sc.plan = (*rng.pick(&["conc", "conc", "drainwait"])).into();
                if rng.chance(1, 4) {
                    sc.opts.push("toend".into());
                }
                push2(&mut cases, "echo", sc);
            }
        }
    }

    // A'. large payloads in tiny pieces: too slow for the list-based model, judged by the monitors only
    for _ in 0..reps(1, 6) {
        let mut sc = base("uring", dflt);
        sc.paylen = (dflt + rng.range(1, 2 * dflt)) as usize;
        sc.payseed = rng.below(1000);
        sc.wch = *rng.pick(&[1usize, 7]);
        sc.rch = *rng.pick(&[1usize, 7]);
        sc.script = vec![cat('o'), Act::Exit(*rng.pick(&CODES))];
        sc.mode = "loose".into();
        push(&mut cases, "echo-tiny", sc);
    }

    // B. sink: the child reports how many bytes reached it
    for cap in [small, dflt] {
        let mut sizes = payload_sizes(cap);
        if !thorough {
            sizes = vec![*rng.pick(&sizes[..3]), *rng.pick(&sizes[3..5]), *rng.pick(&sizes[5..])];
        }
        for pay in sizes {
            for _ in 0..reps(1, 4) {
                let mut sc = base("uring", cap);
                sc.paylen = pay;
                sc.payseed = rng.below(1000);
                sc.wch = *rng.pick(&CHUNKS);
                sc.script = vec![sink(), Act::Exit(*rng.pick(&CODES))];
                sc.plan = (*rng.pick(&["conc", "drainwait", "waitdrain", "seq"])).into();
                push2(&mut cases, "sink", sc);
            }
        }
    }

    // C. `head -c N`: the child stops reading; the writer ends with Ok or BrokenPipe
    for cap in [small, dflt] {
        for k in 0..reps(2, 24) {
            let mut sc = base("uring", cap);
            let n = rng.range(0, cap * 3 / 4);
            sc.paylen = if k % 2 == 0 { rng.range(0, n) as usize } else { (n + cap + rng.range(4097, 9000)) as usize };
            sc.payseed = rng.below(1000);
            sc.wch = *rng.pick(&CHUNKS);
            sc.rch = *rng.pick(&CHUNKS);
            let dst = *rng.pick(&['o', 'e', 'n']);
            sc.script = vec![head(n, dst), Act::Exit(*rng.pick(&CODES))];
            sc.plan = (*rng.pick(&["conc", "drainwait"])).into();
            push2(&mut cases, "head", sc);
        }
    }

    // D. children that only write: stdout and stderr interleaved, below and above the capacity,
    //    every exit code class and signals
    for cap in [small, dflt] {
        for k in 0..reps(6, 40) {
            let mut sc = base("uring", cap);
            sc.stdin_null = rng.chance(1, 2);
            let mut script = vec![];
            let big = k % 3 == 0;
            for _ in 0..rng.range(1, 4) {
                let n = match rng.below(4) {
                    0 => rng.range(0, 64),
                    1 => rng.range(65, cap - 1),
                    2 => cap + rng.range(0, 2),
                    _ => {
                        if big {
                            rng.range(cap, 4 * cap)
                        } else {
                            rng.range(0, 300)
                        }
                    }
                };
                script.push(Act::Emit { dst: *rng.pick(&['o', 'e']), byte: *rng.pick(b"abcxyzABC019"), n });
            }
            script.push(if rng.chance(1, 3) { Act::Kill(*rng.pick(&SIGS)) } else { Act::Exit(*rng.pick(&CODES)) });
            sc.script = script;
            sc.rch = *rng.pick(&CHUNKS);
            sc.plan = (*rng.pick(&["conc", "drainwait"])).into();
            if rng.chance(1, 4) {
                sc.opts.push("toend".into());
            }
            if sc.plan == "conc" && rng.chance(1, 3) {
                sc.opts.push("wwo".into());
            }
            push2(&mut cases, "emit", sc);
        }
    }

    // E. wait first, read afterwards: the buffered bytes are still there (outputs below the capacity)
    for cap in [small, dflt] {
        for _ in 0..reps(2, 16) {
            let mut sc = base("uring", cap);
            sc.stdin_null = rng.chance(1, 2);
            sc.plan = "waitdrain".into();
            sc.script = vec![
                Act::Emit { dst: 'o', byte: b'q', n: rng.range(0, cap * 3 / 4) },
                Act::Emit { dst: 'e', byte: b'r', n: rng.range(0, cap * 3 / 4) },
                if rng.chance(1, 3) { Act::Kill(*rng.pick(&SIGS)) } else { Act::Exit(*rng.pick(&CODES)) },
            ];
            sc.rch = *rng.pick(&CHUNKS);
            push2(&mut cases, "waitdrain", sc);
        }
    }

    // F. status and timing: the child sleeps, wait must not return before; both wait routes
    for route in ["pool", "pidfd"] {
        let mut ends: Vec<Act> = CODES.iter().map(|c| Act::Exit(*c)).chain(SIGS.iter().map(|s| Act::Kill(*s))).collect();
        if !thorough {
            ends = vec![Act::Exit(*rng.pick(&CODES)), Act::Exit(255), Act::Kill(*rng.pick(&SIGS)), Act::Kill(9), Act::Kill(15)];
        }
        for (i, end) in ends.into_iter().enumerate() {
            let mut sc = base("uring", dflt);
            sc.route = route.into();
            sc.stdin_null = true;
            sc.script = if i % 3 == 0 { vec![Act::Nop, end] } else { vec![end] };
            sc.plan = (*rng.pick(&["conc", "drainwait"])).into();
            push2(&mut cases, "status", sc);
        }
    }

    // G. orders that cannot work (documented, by design): write everything before reading,
    //    wait before reading more than a pipe holds. Small pipes, `dd bs=4096` as the echo.
    for (k, plan) in ["seq", "waitdrain"].into_iter().enumerate() {
        // completes: fits into the pipes
        let mut sc = base("uring", small);
        sc.plan = plan.into();
        sc.paylen = rng.range(1, 2 * small * 3 / 4) as usize;
        sc.payseed = rng.below(1000);
        sc.script = vec![dd(4096, 'o'), Act::Exit(0)];
        if plan == "waitdrain" {
            sc.paylen = rng.range(1, small * 3 / 4) as usize;
        }
        push2(&mut cases, "order-fits", sc);
        // cannot complete: more than stdin pipe + block + stdout pipe
        let mut sc = base(if k == 0 { "uring" } else { "poll" }, small);
        sc.plan = plan.into();
        sc.paylen = (3 * small + rng.range(4097, 9000)) as usize;
        sc.payseed = rng.below(1000);
        sc.wch = *rng.pick(&[7usize, 4096, 65537]);
        sc.script = vec![dd(4096, 'o'), Act::Exit(0)];
        if thorough {
            push2(&mut cases, "order-deadlock", sc);
        } else {
            push(&mut cases, "order-deadlock", sc);
        }
    }

    // H. F200 (known finding): polling driver, one write larger than stdin pipe + block + stdout pipe.
    //    F201 (repaired in /repo 61828f8, regression): `wait` / `wait_with_output` with `stdin` still inside
    //    the `Child` and a child that reads to end of file.
    {
        let mut sc = base("poll", small);
        sc.paylen = (3 * small + rng.range(4097, 9000)) as usize;
        sc.wch = 65537;
        sc.script = vec![dd(4096, 'o'), Act::Exit(0)];
        sc.opts.push("sure".into());
        push2(&mut cases, "f200", sc);
        if thorough {
            let mut sc = base("poll", dflt);
            sc.paylen = 1 << 20;
            sc.wch = 1 << 20;
            sc.script = vec![cat('o'), Act::Exit(0)];
            sc.opts.push("sure".into());
            push2(&mut cases, "f200-cat", sc);
        }
        for wwo in [false, true] {
            let mut sc = base("uring", dflt);
            sc.plan = "held".into();
            sc.script = vec![cat('o'), Act::Exit(0)];
            if wwo {
                sc.opts.push("wwo".into());
            }
            if thorough {
                push2(&mut cases, "f201", sc);
            } else {
                sc.drv = (if wwo { "poll" } else { "uring" }).into();
                push(&mut cases, "f201", sc);
            }
        }
        // the same call is fine when the child does not wait for end of file
        let mut sc = base("uring", dflt);
        sc.plan = "held".into();
        sc.script = vec![Act::Emit { dst: 'o', byte: b'k', n: 10 }, Act::Exit(4)];
        push2(&mut cases, "held-ok", sc);
    }

    // J. `wait_with_output` / `output`: output sizes around every power of two and just above 64 KiB
    //    (internal buffer growth and exact-fill points of the collecting loop)
    {
        let mut sizes: Vec<u64> = vec![];
        for k in 5..=18u32 {
            let p = 1u64 << k;
            sizes.extend([p - 1, p, p + 1, p + rng.range(2, 31)]);
        }
        sizes.extend((1..=40u64).map(|d| 65536 + d));
        if !thorough {
            let mut pick: Vec<u64> = vec![65537, 65536 + rng.range(2, 30), 65567, 65568];
            for _ in 0..5 {
                pick.push(*rng.pick(&sizes));
            }
            sizes = pick;
        }
        for (i, n) in sizes.into_iter().enumerate() {
            let mut sc = base("uring", dflt);
            sc.opts.push("wwo".into());
            match i % 3 {
                0 => {
                    sc.stdin_null = true;
                    sc.script = vec![Act::Emit { dst: 'o', byte: b'w', n }, Act::Exit(*rng.pick(&CODES))];
                }
                1 => {
                    sc.stdin_null = true;
                    sc.script = vec![
                        Act::Emit { dst: 'e', byte: b'v', n },
                        Act::Emit { dst: 'o', byte: b'u', n: rng.range(0, 40) },
                        Act::Exit(*rng.pick(&CODES)),
                    ];
                }
                _ => {
                    // echo: stdin taken by a writer task, the rest inside `wait_with_output`
                    sc.paylen = n as usize;
                    sc.payseed = rng.below(1000);
                    sc.wch = 65537;
                    sc.script = vec![cat('o'), Act::Exit(*rng.pick(&CODES))];
                }
            }
            if thorough || i % 2 == 0 {
                push2(&mut cases, "output-size", sc);
            } else {
                sc.drv = (*rng.pick(&["uring", "poll"])).into();
                push(&mut cases, "output-size", sc);
            }
        }
    }

    // K. the child is reaped by somebody else before compio waits: the wait must fail, not invent a status
    for k in 0..reps(2, 8) {
        let mut sc = base("uring", dflt);
        sc.stdin_null = true;
        sc.plan = "drainwait".into();
        sc.script = vec![
            Act::Emit { dst: 'o', byte: b'z', n: rng.range(0, 100) },
            if k % 2 == 0 { Act::Exit(*rng.pick(&[1u32, 2, 3, 127, 255])) } else { Act::Kill(*rng.pick(&SIGS)) },
        ];
        sc.opts.push("reaped".into());
        push2(&mut cases, "reaped", sc);
    }

    // L. pipelines `a | b`: the connecting descriptor goes through `TryFrom<ChildStdout | ChildStdin> for Stdio`;
    //    slow producer (the consumer finds the pipe empty), slow consumer with more than a pipe holds
    //    (the producer finds it full), both directions of the conversion, both drivers
    {
        let big = |rng: &mut Rng| rng.range(66000, 300000);
        let mut shapes: Vec<(Vec<Act>, Vec<Act>)> = vec![];
        for _ in 0..reps(1, 6) {
            let b1 = *rng.pick(b"pqrs");
            // slow producer, two bursts
            shapes.push((
                vec![Act::Nop, Act::Emit { dst: 'o', byte: b1, n: rng.range(1, 50) }, Act::Nop, Act::Emit { dst: 'o', byte: b1, n: rng.range(1, 5000) }, Act::Exit(0)],
                vec![cat('o'), Act::Exit(*rng.pick(&CODES))],
            ));
            // slow consumer, more than the pipe holds
            shapes.push((vec![Act::Emit { dst: 'o', byte: b1, n: big(rng) }, Act::Exit(*rng.pick(&CODES))], vec![Act::Nop, cat('o'), Act::Exit(0)]));
            if thorough {
                // both fast, large; both slow
                shapes.push((vec![Act::Emit { dst: 'o', byte: b1, n: big(rng) }, Act::Exit(0)], vec![dd(*rng.pick(&[512u64, 4096]), 'o'), Act::Exit(0)]));
                shapes.push((vec![Act::Nop, Act::Emit { dst: 'o', byte: b1, n: big(rng) }, Act::Exit(0)], vec![Act::Nop, Act::Nop, cat('o'), Act::Exit(3)]));
            }
        }
        for (a, b) in shapes {
            for dir in ["out2in", "in2out"] {
                for drv in ["uring", "poll"] {
                    let n = cases.len();
                    cases.push(Case { name: format!("pipeline-{n}"), lines: vec![format!("pipe {drv} {dir} {} {} -", script_text(&a), script_text(&b))] });
                }
            }
        }
    }

    // M. mixed request sizes on one handle (small header read, then large body reads; `read_exact` frames;
    //    `read_to_end` after partial reads), output produced incrementally, stdout and stderr
    {
        const CAPS: [usize; 7] = [1, 16, 4096, 8191, 8192, 8193, 65536];
        let rplan = |rng: &mut Rng| -> String {
            let mut v: Vec<String> = vec![];
            // start small so that something is left behind for the large request that follows
            v.push((*rng.pick(&[1usize, 16, 16, 4096, 8191])).to_string());
            for _ in 0..rng.range(1, 3) {
                v.push(match rng.below(4) {
                    0 => format!("x{}", *rng.pick(&[16usize, 8192, 8200, 10000, 20000])),
                    _ => (*rng.pick(&CAPS[2..])).to_string(),
                });
            }
            if rng.chance(1, 3) {
                v.push("e".into());
            }
            v.join(".")
        };
        for k in 0..reps(6, 60) {
            let mut sc = base("uring", dflt);
            let (d1, d2) = if k % 3 == 2 { ('e', 'o') } else { ('o', 'e') };
            let n2 = rng.range(9000, if thorough { 200000 } else { 90000 });
            if k % 2 == 0 {
                sc.stdin_null = true;
                sc.script = vec![
                    Act::Emit { dst: d1, byte: *rng.pick(b"HIJK"), n: rng.range(1, 600) },
                    Act::Nop,
                    Act::Emit { dst: d1, byte: *rng.pick(b"bcde"), n: n2 },
                    Act::Emit { dst: d2, byte: b'f', n: rng.range(0, 9000) },
                    Act::Emit { dst: d1, byte: b'g', n: rng.range(1, 9000) },
                    Act::Exit(*rng.pick(&CODES)),
                ];
            } else {
                // echo: the payload arrives in pieces of `wch`
                sc.paylen = n2 as usize;
                sc.payseed = rng.below(1000);
                sc.wch = *rng.pick(&[7usize, 4096, 65537]);
                sc.script = vec![Act::Emit { dst: d1, byte: b'H', n: rng.range(1, 100) }, cat(d1), Act::Exit(*rng.pick(&CODES))];
            }
            sc.opts.push(format!("rpo={}", rplan(rng)));
            sc.opts.push(format!("rpe={}", rplan(rng)));
            push2(&mut cases, "readplan", sc);
        }
    }

    // N. handles configured as piped but left inside the `Child` (`wait`, `status`): they live as long as the
    //    wait; the child writes to them (a few bytes: the real status must come back; more than the pipe
    //    holds: blocks like std::process under the same plan)
    for plan in ["outheld", "errheld", "allheld"] {
        for k in 0..reps(2, 8) {
            let mut sc = base("uring", if k % 2 == 0 { dflt } else { small });
            sc.plan = plan.into();
            sc.stdin_null = k % 3 != 1;
            let (held_a, other) = match plan {
                "outheld" => ('o', 'e'),
                _ => ('e', 'o'),
            };
            let to_held = if k % 4 == 3 { sc.capout + rng.range(2000, 5000) } else { rng.range(1, 200) };
            let mut script = vec![
                Act::Nop,
                Act::Emit { dst: other, byte: b'L', n: rng.range(0, 3000) },
                Act::Emit { dst: held_a, byte: b'W', n: to_held },
                Act::Emit { dst: other, byte: b'M', n: rng.range(1, 3000) },
            ];
            if plan == "allheld" {
                script.push(Act::Emit { dst: 'o', byte: b'V', n: rng.range(1, 100) });
            }
            script.push(Act::Exit(*rng.pick(&[1u32, 2, 3, 7, 255, 0])));
            sc.script = script;
            if to_held > sc.capout {
                sc.opts.push("dl".into());
            } else if plan == "allheld" && k % 2 == 0 {
                sc.opts.push("status".into());
            }
            push2(&mut cases, "held-stream", sc);
        }
    }

    // I. random mixtures
    for _ in 0..reps(12, 300) {
        let cap = *rng.pick(&[small, small, 8192, dflt]);
        let mut sc = base("uring", cap);
        sc.capout = *rng.pick(&[cap, small]);
        sc.caperr = *rng.pick(&[cap, small]);
        sc.wch = *rng.pick(&CHUNKS);
        sc.rch = *rng.pick(&CHUNKS);
        sc.payseed = rng.below(1000);
        let mut script = vec![];
        let mut consumed = 0u64;
        let mut all = false;
        for _ in 0..rng.range(1, 4) {
            match rng.below(5) {
                0 if !all => {
                    let n = rng.range(0, small * 3 / 4);
                    consumed += n;
                    script.push(head(n, *rng.pick(&['o', 'e', 'n'])));
                }
                1 if !all => {
                    all = true;
                    script.push(match rng.below(3) {
                        0 => cat(*rng.pick(&['o', 'e'])),
                        1 => dd(*rng.pick(&[1u64, 512, 4096]), *rng.pick(&['o', 'e'])),
                        _ => sink(),
                    });
                }
                2 => script.push(Act::Emit { dst: *rng.pick(&['o', 'e']), byte: *rng.pick(b"abcxyzABC019"), n: rng.range(0, small * 3 / 4) }),
                3 if rng.chance(1, 4) => script.push(Act::Nop),
                _ => script.push(Act::Emit { dst: *rng.pick(&['o', 'e']), byte: *rng.pick(b"mnop"), n: rng.range(0, 40) }),
            }
        }
        script.push(if rng.chance(1, 4) { Act::Kill(*rng.pick(&SIGS)) } else { Act::Exit(*rng.pick(&CODES)) });
        sc.script = script;
        let capmin = sc.capin.min(sc.capout).min(sc.caperr);
        sc.paylen = if all {
            let hi = if rng.chance(1, 3) { 4 * capmin } else { capmin };
            rng.range(0, hi) as usize
        } else if rng.chance(1, 2) {
            rng.range(0, consumed) as usize
        } else {
            (consumed + sc.capin + rng.range(4097, 9000)) as usize
        };
        // `dd bs=1` moves one byte per system call: keep it short
        if sc.script.iter().any(|a| matches!(a, Act::Copy { blk: 1, .. })) {
            sc.paylen = sc.paylen.min(600);
        }
        sc.plan = (*rng.pick(&["conc", "conc", "drainwait"])).into();
        if rng.chance(1, 4) {
            sc.opts.push("toend".into());
        }
        push2(&mut cases, "mix", sc);
    }

    // O. the buffer-pool read path (`read_managed`) with a reader that keeps 0..all of the pool's buffers
    {
        let holds: &[usize] = &[0, 1, 3, 7, 8, 9, 99];
        let lens: &[usize] = &[1, 8, 100, 4096, 8192];
        let mut n = 0;
        let mut combos = vec![];
        for &h in holds {
            for &l in lens {
                combos.push((h, l));
            }
        }
        let picks: Vec<(usize, usize)> = if thorough {
            combos
        } else {
            // every hold once, the request sizes spread over them; the all-buffers readers twice
            let mut v: Vec<(usize, usize)> = holds.iter().enumerate().map(|(i, &h)| (h, lens[(i + rng.range(0, 4) as usize) % 3])).collect();
            v.push((99, 4096));
            v.push((8, 8));
            v
        };
        for (h, l) in picks {
            let total: u64 = match l {
                1 => rng.range(40, 300),
                8 => rng.range(100, 2000),
                100 => rng.range(3000, 20000),
                4096 => rng.range(70000, 200000),
                _ => rng.range(150000, 300000),
            };
            let stream = if rng.chance(1, 3) { 'e' } else { 'o' };
            let other = if stream == 'o' { 'e' } else { 'o' };
            let a = total / 3;
            let script = vec![
                Act::Emit { dst: stream, byte: b'a', n: a },
                Act::Emit { dst: other, byte: b'x', n: rng.range(0, 50) },
                if rng.chance(1, 2) { Act::Nop } else { Act::Emit { dst: 'n', byte: b'a', n: 0 } },
                Act::Emit { dst: stream, byte: b'b', n: total - a },
                Act::Exit(*rng.pick(&CODES)),
            ];
            for drv in ["uring", "poll"] {
                cases.push(Case { name: format!("managed-{n}"), lines: vec![format!("mread {drv} {stream} {h} {l} {} -", script_text(&script))] });
                n += 1;
            }
        }
    }

    // P. one `Command` used for several children: every run gets the stdio configuration current at that moment
    {
        let runs = ["status", "output", "spawn"];
        let mut n = 0;
        for i in 0..(if thorough { 60 } else { 8 }) {
            let mut seq: Vec<String> = vec!["si=n".into(), "so=p".into(), "se=p".into()];
            // the first run: mostly `status` (the call whose result hides what happened to the configuration)
            seq.push(if i % 4 != 3 { "status".to_string() } else { rng.pick(&runs).to_string() });
            for _ in 0..rng.range(1, 3) {
                if rng.chance(1, 4) {
                    seq.push(format!("{}={}", rng.pick(&["so", "se"]), rng.pick(&["p", "n", "p"])));
                }
                seq.push(rng.pick(&["output", "spawn", "output", "status"]).to_string());
            }
            if !["output", "spawn"].contains(&seq.last().unwrap().as_str()) {
                seq.push(rng.pick(&["output", "spawn"]).to_string());
            }
            let script = vec![
                Act::Emit { dst: 'o', byte: b'a', n: rng.range(1, 1500) },
                Act::Emit { dst: 'e', byte: b'b', n: rng.range(1, 1400) },
                if rng.chance(1, 5) { Act::Kill(*rng.pick(&SIGS)) } else { Act::Exit(*rng.pick(&CODES)) },
            ];
            for drv in ["uring", "poll"] {
                cases.push(Case { name: format!("reuse-{n}"), lines: vec![format!("reuse {drv} {} {} -", seq.join("."), script_text(&script))] });
                n += 1;
            }
        }
    }

    cases
}

fn main() {
    enter_slot(0);
    start_watchdog();
    run_harness(
        |tier, rng| {
            let cases = generate(tier, rng);
            prefetch(&cases);
            cases
        },
        exec,
        "a case is non-trivial when at least one byte went through a pipe, the status is not success, or the run deadlocked",
    );
    let _ = fs::remove_dir_all(std::env::temp_dir().join(format!("c20-{}", std::process::id())));
}
