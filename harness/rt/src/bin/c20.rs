// probe (temporary)
use std::{process::Stdio, time::{Duration, Instant}};

use compio_driver::{DriverType, ProactorBuilder};
use compio_io::{AsyncReadExt, AsyncWriteExt};
use compio_process::Command;
use compio_runtime::Runtime;

fn build_rt(drv: &str) -> std::io::Result<Runtime> {
    let mut pb = ProactorBuilder::new();
    pb.driver_type(if drv == "uring" { DriverType::IoUring } else { DriverType::Poll });
    Runtime::builder().with_proactor(pb).build()
}

fn watchdog(pid: u32, ms: u64) -> std::sync::Arc<std::sync::atomic::AtomicBool> {
    let fired = std::sync::Arc::new(std::sync::atomic::AtomicBool::new(false));
    let f2 = fired.clone();
    std::thread::spawn(move || {
        std::thread::sleep(Duration::from_millis(ms));
        f2.store(true, std::sync::atomic::Ordering::SeqCst);
        unsafe { libc::kill(pid as i32, libc::SIGKILL) };
    });
    fired
}

fn main() {
    let which = std::env::args().nth(1).unwrap_or_default();
    let n: usize = std::env::args().nth(2).and_then(|s| s.parse().ok()).unwrap_or(1 << 20);
    for drv in ["uring", "poll"] {
        let rt = build_rt(drv).unwrap();
        println!("driver {drv} iouring={}", rt.driver_type().is_iouring());
        let t0 = Instant::now();
        match which.as_str() {
            "cat" => rt.block_on(async {
                let mut child = Command::new("cat").stdin(Stdio::piped()).unwrap().stdout(Stdio::piped()).unwrap().spawn().unwrap();
                let fired = watchdog(child.id(), 3000);
                let mut stdin = child.stdin.take().unwrap();
                let mut stdout = child.stdout.take().unwrap();
                let w = compio_runtime::spawn(async move {
                    let data = vec![7u8; n];
                    let r = stdin.write_all(data).await.0;
                    drop(stdin);
                    r.map_err(|e| e.kind())
                });
                let r = compio_runtime::spawn(async move {
                    let (r, b) = stdout.read_to_end(vec![]).await.into();
                    (r.map_err(|e: std::io::Error| e.kind()), b.len())
                });
                let wr = w.await;
                let rr = r.await;
                let st = child.wait().await;
                println!("  cat n={n}: write {:?} read {:?} status {:?} watchdog={} t={:?}", wr, rr, st, fired.load(std::sync::atomic::Ordering::SeqCst), t0.elapsed());
            }),
            "waitstdin" => rt.block_on(async {
                let child = Command::new("cat").stdin(Stdio::piped()).unwrap().stdout(Stdio::null()).unwrap().spawn().unwrap();
                let fired = watchdog(child.id(), 2000);
                let st = child.wait().await;
                println!("  wait with stdin not taken: {:?} watchdog={} t={:?}", st, fired.load(std::sync::atomic::Ordering::SeqCst), t0.elapsed());
                let child = Command::new("cat").stdin(Stdio::piped()).unwrap().stdout(Stdio::piped()).unwrap().spawn().unwrap();
                let fired = watchdog(child.id(), 2000);
                let st = child.wait_with_output().await;
                println!("  wait_with_output with stdin not taken: {:?} watchdog={} t={:?}", st, fired.load(std::sync::atomic::Ordering::SeqCst), t0.elapsed());
            }),
            _ => {}
        }
    }
    if which == "waitstdin" {
        let t0 = Instant::now();
        let mut child = std::process::Command::new("cat").stdin(Stdio::piped()).stdout(Stdio::null()).spawn().unwrap();
        let fired = watchdog(child.id(), 2000);
        let st = child.wait();
        println!("std wait with stdin not taken: {:?} watchdog={} t={:?}", st, fired.load(std::sync::atomic::Ordering::SeqCst), t0.elapsed());
    }
}
